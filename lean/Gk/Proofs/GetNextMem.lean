/-
Characterisation of the specification's `GetNext` (`Repo.getNext`).
-/
import Gk.Repo
import Gk.Proofs.KeyOrder

namespace Gk
namespace Repo

theorem minKeyed_eq_none {l : List (Key × Task)} : minKeyed l = none ↔ l = [] := by
  cases l with
  | nil => simp [minKeyed]
  | cons x xs =>
    simp only [minKeyed]
    split
    · simp
    · split <;> simp

/-- `minKeyed` returns a member that no member is smaller than. -/
theorem minKeyed_some {l : List (Key × Task)} {m : Key × Task} (h : minKeyed l = some m) :
    m ∈ l ∧ ∀ x ∈ l, x.1.less m.1 = false := by
  induction l generalizing m with
  | nil => simp [minKeyed] at h
  | cons x xs ih =>
    simp only [minKeyed] at h
    split at h
    · next hn =>
      rw [minKeyed_eq_none] at hn
      subst hn
      cases h
      simp [Key.less_irrefl]
    · next m0 hm0 =>
      have ih0 := ih hm0
      split at h
      · next hlt =>
        cases h
        refine ⟨List.mem_cons_of_mem _ ih0.1, ?_⟩
        intro y hy
        rcases List.mem_cons.1 hy with rfl | hy
        · exact Key.less_asymm hlt
        · exact ih0.2 y hy
      · next hlt =>
        cases h
        refine ⟨List.mem_cons_self, ?_⟩
        intro y hy
        rcases List.mem_cons.1 hy with rfl | hy
        · exact Key.less_irrefl _
        · exact Key.less_ntrans (ih0.2 y hy) (by simpa using hlt)

/-- When keys are distinct, the minimum is unique, so `minKeyed` finds it. -/
theorem minKeyed_unique {l : List (Key × Task)} {m : Key × Task}
    (hd : ∀ x ∈ l, ∀ y ∈ l, x.1 = y.1 → x = y) (hm : m ∈ l)
    (hmin : ∀ x ∈ l, x.1.less m.1 = false) : minKeyed l = some m := by
  cases h : minKeyed l with
  | none =>
    rw [minKeyed_eq_none] at h
    subst h
    cases hm
  | some m' =>
    have h' := minKeyed_some h
    have h1 := hmin m' h'.1
    have h2 := h'.2 m hm
    have : m'.1 = m.1 := by
      apply Classical.byContradiction
      intro hne
      rcases Key.less_total hne with h3 | h3
      · rw [h1] at h3; cases h3
      · rw [h2] at h3; cases h3
    rw [hd m' h'.1 m hm this]

theorem mem_scheduledKeyed {ts : List Task} {k : Key} {t : Task} :
    (k, t) ∈ scheduledKeyed ts ↔ ∃ i, ts[i]? = some t ∧ t.state = .scheduled ∧ k = t.key i := by
  unfold scheduledKeyed
  simp only [List.mem_map, List.mem_filter, List.mem_zipIdx_iff_getElem?, Prod.exists,
    Prod.mk.injEq, beq_iff_eq]
  constructor
  · rintro ⟨t', i, ⟨h1, h2⟩, h3, rfl⟩
    exact ⟨i, h1, h2, h3.symm⟩
  · rintro ⟨i, h1, h2, h3⟩
    exact ⟨t, i, ⟨h1, h2⟩, h3.symm, rfl⟩

theorem scheduledKeyed_keys_distinct (ts : List Task) :
    ∀ x ∈ scheduledKeyed ts, ∀ y ∈ scheduledKeyed ts, x.1 = y.1 → x = y := by
  rintro ⟨k, t⟩ hx ⟨k', t'⟩ hy (e : k = k')
  rw [mem_scheduledKeyed] at hx hy
  obtain ⟨i, h1, -, rfl⟩ := hx
  obtain ⟨j, h1', -, rfl⟩ := hy
  have : i = j := congrArg Key.rank e
  subst this
  rw [h1] at h1'
  cases h1'
  rfl

/-- `GetNext` returns `t` iff `t` is a scheduled task at some position `i` such that no scheduled
task `t'` (at position `j`) is smaller w.r.t. (scheduled_at asc, priority desc, created_at asc,
insertion position asc). -/
theorem getNext_some_iff (r : Repo) (t : Task) :
    r.getNext = some t ↔
      ∃ i : Nat, r.tasks[i]? = some t ∧ t.state = .scheduled ∧
        ∀ (j : Nat) (t' : Task), r.tasks[j]? = some t' → t'.state = .scheduled →
          (t'.key j).less (t.key i) = false := by
  unfold getNext
  constructor
  · intro h
    rw [Option.map_eq_some_iff] at h
    obtain ⟨⟨k, t0⟩, hm, rfl⟩ := h
    have hs := minKeyed_some hm
    obtain ⟨i, h1, h2, rfl⟩ := mem_scheduledKeyed.1 hs.1
    refine ⟨i, h1, h2, ?_⟩
    intro j t' hj hs'
    exact hs.2 (t'.key j, t') (mem_scheduledKeyed.2 ⟨j, hj, hs', rfl⟩)
  · rintro ⟨i, h1, h2, h3⟩
    have : minKeyed (scheduledKeyed r.tasks) = some (t.key i, t) := by
      refine minKeyed_unique (scheduledKeyed_keys_distinct _) (mem_scheduledKeyed.2 ⟨i, h1, h2, rfl⟩) ?_
      rintro ⟨k, t'⟩ hx
      obtain ⟨j, hj, hs', rfl⟩ := mem_scheduledKeyed.1 hx
      exact h3 j t' hj hs'
    rw [this]
    rfl

/-- `GetNext` reports `exhausted` iff there is no scheduled task. -/
theorem getNext_none_iff (r : Repo) :
    r.getNext = none ↔ ∀ t ∈ r.tasks, t.state ≠ .scheduled := by
  unfold getNext
  rw [Option.map_eq_none_iff, minKeyed_eq_none]
  constructor
  · intro h t ht hs
    obtain ⟨i, hi, hti⟩ := List.getElem_of_mem ht
    have : (t.key i, t) ∈ scheduledKeyed r.tasks :=
      mem_scheduledKeyed.2 ⟨i, by simp [hi, hti], hs, rfl⟩
    rw [h] at this
    cases this
  · intro h
    cases hl : scheduledKeyed r.tasks with
    | nil => rfl
    | cons x xs =>
      have : x ∈ scheduledKeyed r.tasks := by rw [hl]; exact List.mem_cons_self
      obtain ⟨k, t⟩ := x
      obtain ⟨i, h1, h2, -⟩ := mem_scheduledKeyed.1 this
      exact absurd h2 (h t (List.mem_of_getElem? h1))

/-- `GetNext` never returns a task that is not scheduled (or not stored). -/
theorem getNext_scheduled (r : Repo) (t : Task) (h : r.getNext = some t) :
    t ∈ r.tasks ∧ t.state = .scheduled := by
  obtain ⟨i, h1, h2, -⟩ := (getNext_some_iff r t).1 h
  exact ⟨List.mem_of_getElem? h1, h2⟩

end Repo
end Gk
