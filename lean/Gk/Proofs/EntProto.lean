/-
Helper lemmas for the two-statement protocol of the SQL repository (C10ent).
-/
import Gk.EntProto
import Gk.Proofs.Repo
import Gk.Proofs.Lin
namespace Gk.Ent
open Gk.Lin

theorem lifecycle_eq (op : Op) : lifecycle op = op.isLifecycle := by cases op <;> rfl

/-! ## `lookup` after an insertion / a conditional UPDATE -/

theorem lookup_replace_map (r : Repo) (id' id : String) (f : Task → Task)
    (hf : ∀ t, (f t).id = t.id) :
    (r.replace id' f).lookup id = (r.lookup id).map (fun t => if t.id == id' then f t else t) := by
  obtain ⟨ts⟩ := r
  simp only [Repo.lookup, Repo.replace]
  induction ts with
  | nil => rfl
  | cons x xs ih =>
    simp only [List.map_cons, List.find?_cons]
    have hx : ((if x.id == id' then f x else x).id == id) = (x.id == id) := by
      split <;> simp [hf]
    rw [hx]
    cases h : (x.id == id)
    · simpa using ih
    · simp

theorem lookup_append (r : Repo) (t : Task) (id : String) :
    ({ tasks := r.tasks ++ [t] } : Repo).lookup id =
      (r.lookup id).or (if t.id == id then some t else none) := by
  simp only [Repo.lookup, List.find?_append, List.find?_cons, List.find?_nil]
  cases h : (t.id == id) <;> simp

theorem guard_eq_true {r : Repo} {id : String} {st : St} :
    guard r id st = true ↔ ∃ t, r.lookup id = some t ∧ t.state = st := by
  unfold guard
  cases r.lookup id <;> simp

theorem guard_eq_false {r : Repo} {id : String} {st : St} :
    guard r id st = false ↔ ∀ t, r.lookup id = some t → t.state ≠ st := by
  unfold guard
  cases r.lookup id <;> simp

/-! ## The conditional UPDATE against `Repo.step` -/

theorem mutate_hit {r : Repo} {id : String} (f : Task → Task) (h : guard r id .scheduled = true) :
    r.mutateScheduled id f = (r.replace id f, .ok) := by
  obtain ⟨t, hl, hs⟩ := guard_eq_true.mp h
  simp [Repo.mutateScheduled, hl, hs]

theorem mutate_miss {r : Repo} {id : String} (f : Task → Task) (h : guard r id .scheduled = false) :
    r.mutateScheduled id f = (r, refusal errKindMutate (r.lookup id)) := by
  unfold Repo.mutateScheduled
  cases hl : r.lookup id with
  | none => rfl
  | some t =>
    have hs : (t.state != .scheduled) = true := by
      simpa using guard_eq_false.mp h t hl
    simp only [hs, if_true, refusal]
    cases errKindMutate t <;> rfl

theorem done_hit {r : Repo} {id : String} (now : Time) (e : Option String)
    (h : guard r id .dispatched = true) :
    Repo.step {} r now (.done id e) = (r.replace id (setDone now e), .ok) := by
  obtain ⟨t, hl, hs⟩ := guard_eq_true.mp h
  simp only [Repo.step, hl, hs]
  rfl

theorem done_miss {r : Repo} {id : String} (now : Time) (e : Option String)
    (h : guard r id .dispatched = false) :
    Repo.step {} r now (.done id e) = (r, refusal errKindMarkAsDone (r.lookup id)) := by
  simp only [Repo.step]
  cases hl : r.lookup id with
  | none => rfl
  | some t =>
    have hs : (t.state != .dispatched) = true := by
      simpa using guard_eq_false.mp h t hl
    simp only [hs, if_true, refusal]
    cases errKindMarkAsDone t <;> rfl

/-- The all-None parameter changes nothing on a task whose times are normalised. -/
theorem setUpdate_nothing {p : Param} (hp : nothingToSet p = true) {t : Task}
    (ht : t.timesNormalized = true) : setUpdate p t = t := by
  obtain ⟨w, pr, pa, me, s, d⟩ := p
  simp only [nothingToSet, Param.normalize, Bool.and_eq_true, Option.isNone_iff_eq_none,
    Option.map_eq_none_iff] at hp
  obtain ⟨⟨⟨⟨⟨rfl, rfl⟩, rfl⟩, rfl⟩, rfl⟩, rfl⟩ := hp
  simp only [Task.timesNormalized, Bool.and_eq_true, isNorm_iff, optNorm_iff] at ht
  obtain ⟨⟨⟨⟨⟨h1, h2⟩, h3⟩, h4⟩, h5⟩, h6⟩ := ht
  obtain ⟨a1, a2, a3, a4, a5, a6, a7, a8, a9, a10, a11, a12, a13⟩ := t
  simp only [setUpdate, Task.update, Task.normalizeTime, Param.normalize, Option.getD_none,
    Option.map_none] at *
  simp only [h1, h2, h3, h4, h5, h6]

theorem replace_self {r : Repo} {id : String} {f : Task → Task}
    (h : ∀ t ∈ r.tasks, f t = t) : r.replace id f = r := by
  obtain ⟨ts⟩ := r
  simp only [Repo.replace, Repo.mk.injEq]
  conv => rhs; rw [← List.map_id ts]
  apply List.map_congr_left
  intro t ht
  split
  · exact h t ht
  · rfl

/-- What the missed phase knows about the database. -/
def missOk (r : Repo) : Op → Prop
  | .update id p => p.validForUpdate = true ∧ guard r id .scheduled = false
  | .cancel id | .dispatch id => guard r id .scheduled = false
  | .done _ _ => True
  | _ => False

/-- A decided first statement is the atomic operation: new state and result are those of `Repo.step`.
(Well-formedness is only used by the read-only path of `UpdateById`.) -/
theorem stmt_fin_spec {r r' : Repo} (h : r.WF) {now : Time} {op : Op} {out : Out}
    (hs : stmt r now op = .fin r' out) : Repo.step {} r now op = (r', out) := by
  cases op with
  | update id p =>
    simp only [stmt] at hs
    simp only [Repo.step]
    by_cases hv : p.validForUpdate = true
    · simp only [hv, Bool.not_true, Bool.false_eq_true, if_false] at hs ⊢
      by_cases hn : nothingToSet p = true
      · simp only [hn, if_true, StmtRes.fin.injEq] at hs
        obtain ⟨rfl, rfl⟩ := hs
        cases hg : guard r id .scheduled
        · rw [mutate_miss _ hg]
          cases hl : r.lookup id with
          | none => rfl
          | some t =>
            have : (t.state != .scheduled) = true := by simpa using guard_eq_false.mp hg t hl
            simp [this]
        · rw [mutate_hit _ hg]
          obtain ⟨t, hl, hst⟩ := guard_eq_true.mp hg
          have hrep : r.replace id (fun t => t.update p.normalize) = r :=
            replace_self (fun t ht =>
              setUpdate_nothing hn ((Task.wellFormed_iff t).mp (h.1 t ht)).2.1)
          simp [hrep, hl, hst]
      · simp only [hn, Bool.false_eq_true, if_false] at hs
        by_cases hg : guard r id .scheduled = true
        · simp only [hg, if_true, StmtRes.fin.injEq] at hs
          obtain ⟨rfl, rfl⟩ := hs
          rw [mutate_hit _ hg]; rfl
        · simp [hg] at hs
    · simp only [hv, Bool.not_false, if_true, StmtRes.fin.injEq] at hs ⊢
      obtain ⟨rfl, rfl⟩ := hs
      simp
  | cancel id =>
    simp only [stmt] at hs
    simp only [Repo.step]
    by_cases hg : guard r id .scheduled = true
    · simp only [hg, if_true, StmtRes.fin.injEq] at hs
      obtain ⟨rfl, rfl⟩ := hs
      rw [mutate_hit _ hg]; rfl
    · simp [hg] at hs
  | dispatch id =>
    simp only [stmt] at hs
    simp only [Repo.step]
    by_cases hg : guard r id .scheduled = true
    · simp only [hg, if_true, StmtRes.fin.injEq] at hs
      obtain ⟨rfl, rfl⟩ := hs
      rw [mutate_hit _ hg]; rfl
    · simp [hg] at hs
  | done id e =>
    simp only [stmt] at hs
    by_cases hg : guard r id .dispatched = true
    · simp only [hg, if_true, StmtRes.fin.injEq] at hs
      obtain ⟨rfl, rfl⟩ := hs
      exact done_hit now e hg
    · simp [hg] at hs
  | add _ _ | get _ | find _ _ _ | next | revert | cancelDispatched | deleteEnded =>
    simp only [stmt, StmtRes.fin.injEq] at hs
    obtain ⟨rfl, rfl⟩ := hs
    rfl

/-- Only the four conditional operations miss, and a miss means the guard was false. -/
theorem stmt_miss_spec {r : Repo} {now : Time} {op : Op} (hs : stmt r now op = .miss) :
    missOk r op := by
  cases op with
  | update id p =>
    simp only [stmt] at hs
    by_cases hv : p.validForUpdate = true
    · by_cases hn : nothingToSet p = true
      · simp [hv, hn] at hs
      · cases hg : guard r id .scheduled
        · exact ⟨hv, hg⟩
        · simp [hv, hn, hg] at hs
    · simp [hv] at hs
  | cancel id =>
    simp only [stmt] at hs
    cases hg : guard r id .scheduled
    · exact hg
    · simp [hg] at hs
  | dispatch id =>
    simp only [stmt] at hs
    cases hg : guard r id .scheduled
    · exact hg
    · simp [hg] at hs
  | done id e => trivial
  | add _ _ | get _ | find _ _ _ | next | revert | cancelDispatched | deleteEnded =>
    simp [stmt] at hs

/-- The classifying read, run in a state in which the guard is (still) false, is the atomic operation:
it returns what `Repo.step` returns there, and `Repo.step` changes nothing. -/
theorem classify_spec {r : Repo} {op : Op} (hm : missOk r op) (now : Time) {out : Out}
    (hc : classify r op = some out) : Repo.step {} r now op = (r, out) := by
  cases op with
  | update id p =>
    obtain ⟨hv, hg⟩ := hm
    simp only [classify, Option.some.injEq] at hc
    subst hc
    simp only [Repo.step, hv, Bool.not_true, Bool.false_eq_true, if_false]
    exact mutate_miss _ hg
  | cancel id =>
    simp only [classify, Option.some.injEq] at hc
    subst hc
    exact mutate_miss _ hm
  | dispatch id =>
    simp only [classify, Option.some.injEq] at hc
    subst hc
    exact mutate_miss _ hm
  | done id e =>
    simp only [classify] at hc
    cases hl : r.lookup id with
    | none =>
      simp only [hl, Option.some.injEq] at hc
      subst hc
      have hg : guard r id .dispatched = false := by simp [guard, hl]
      rw [done_miss now e hg, hl]; rfl
    | some t =>
      simp only [hl] at hc
      by_cases hd : (t.state == .dispatched) = true
      · simp [hd] at hc
      · simp only [hd, Bool.false_eq_true, if_false, Option.some.injEq] at hc
        subst hc
        have hg : guard r id .dispatched = false := by simp [guard, hl, hd]
        rw [done_miss now e hg, hl]
  | add _ _ | get _ | find _ _ _ | next | revert | cancelDispatched | deleteEnded =>
    exact absurd hm (by simp [missOk])

/-! ## What other clients' statements can do to a missed guard -/

/-- A conditional UPDATE whose SET clause keeps ids and never makes a task scheduled keeps a false
`state = scheduled` guard false. -/
theorem guard_false_replace {r : Repo} {id id' : String} {f : Task → Task}
    (h : guard r id .scheduled = false) (hid : ∀ t, (f t).id = t.id)
    (hst : ∀ t, t.state ≠ .scheduled → (f t).state ≠ .scheduled) :
    guard (r.replace id' f) id .scheduled = false := by
  rw [guard_eq_false] at h ⊢
  intro t' ht'
  rw [lookup_replace_map r id' id f hid] at ht'
  cases hl : r.lookup id with
  | none => simp [hl] at ht'
  | some t =>
    simp only [hl, Option.map_some, Option.some.injEq] at ht'
    subst ht'
    split
    · exact hst t (h t hl)
    · exact h t hl

theorem isSome_lookup_replace {r : Repo} {id id' : String} {f : Task → Task}
    (h : (r.lookup id).isSome = true) (hid : ∀ t, (f t).id = t.id) :
    ((r.replace id' f).lookup id).isSome = true := by
  rw [lookup_replace_map r id' id f hid]
  simpa using h

theorem setUpdate_id (p : Param) (t : Task) : (setUpdate p t).id = t.id := rfl
theorem setCancel_id (now : Time) (t : Task) : (setCancel now t).id = t.id := rfl
theorem setDispatch_id (now : Time) (t : Task) : (setDispatch now t).id = t.id := rfl
theorem setDone_id (now : Time) (e : Option String) (t : Task) : (setDone now e t).id = t.id := by
  cases e <;> rfl

theorem errKindMutate_ne_none (t : Task) : errKindMutate t ≠ none ↔
    (t.doneAt.isSome || t.cancelledAt.isSome || t.dispatchedAt.isSome) = true := by
  simp only [errKindMutate, errKind]
  cases t.doneAt.isSome <;> cases t.cancelledAt.isSome <;> cases t.dispatchedAt.isSome <;> simp

/-- The successor state of a lifecycle step: unchanged, one task appended, or a SET clause applied. -/
theorem step_cases (r : Repo) (now : Time) (op : Op) (hl : lifecycle op = true) :
    (Repo.step {} r now op).1 = r ∨
    (∃ id p, op = .add id p ∧
      (Repo.step {} r now op).1 = { tasks := r.tasks ++ [p.normalize.toTask id now] }) ∨
    (∃ id' f, (Repo.step {} r now op).1 = r.replace id' f ∧ (∀ t, (f t).id = t.id) ∧
      (∀ t, t.state ≠ .scheduled → (f t).state ≠ .scheduled) ∧
      (∀ t, (t.state ≠ .scheduled → errKindMutate t ≠ none) →
        ((f t).state ≠ .scheduled → errKindMutate (f t) ≠ none))) := by
  have hms : ∀ id (f : Task → Task), (∀ t, (f t).id = t.id) →
      (∀ t, t.state ≠ .scheduled → (f t).state ≠ .scheduled) →
      (∀ t, (t.state ≠ .scheduled → errKindMutate t ≠ none) →
        ((f t).state ≠ .scheduled → errKindMutate (f t) ≠ none)) →
      (r.mutateScheduled id f).1 = r ∨ ∃ id' f', (r.mutateScheduled id f).1 = r.replace id' f' ∧
        (∀ t, (f' t).id = t.id) ∧ (∀ t, t.state ≠ .scheduled → (f' t).state ≠ .scheduled) ∧
        (∀ t, (t.state ≠ .scheduled → errKindMutate t ≠ none) →
          ((f' t).state ≠ .scheduled → errKindMutate (f' t) ≠ none)) := by
    intro id f h1 h2 h3
    cases hg : guard r id .scheduled
    · left; rw [mutate_miss _ hg]
    · right; exact ⟨id, f, by rw [mutate_hit _ hg], h1, h2, h3⟩
  cases op with
  | add id p =>
    simp only [Repo.step]
    split
    · exact .inl rfl
    · exact .inr (.inl ⟨id, p, rfl, rfl⟩)
  | get id => exact .inl ((step_reads_fst {} r now).1 id)
  | find q o l => exact .inl rfl
  | next => exact .inl (step_reads_fst {} r now).2.2
  | update id p =>
    simp only [Repo.step]
    split
    · exact .inl rfl
    · have := hms id (setUpdate p) (fun _ => rfl) (fun t h => h) (by
        intro t h hs
        have := h hs
        revert this
        simp only [errKindMutate_ne_none, setUpdate, Task.update_doneAt, Task.update_cancelledAt,
          Task.update_dispatchedAt, Option.isSome_map]
        exact fun h => h)
      exact this.imp (fun h => h) (fun h => .inr h)
  | cancel id =>
    have := hms id (setCancel now) (fun _ => rfl) (fun t _ => by simp [setCancel]) (by
      intro t _ _
      simp [errKindMutate_ne_none, setCancel])
    exact this.imp (fun h => h) (fun h => .inr h)
  | dispatch id =>
    have := hms id (setDispatch now) (fun _ => rfl) (fun t _ => by simp [setDispatch]) (by
      intro t _ _
      simp [errKindMutate_ne_none, setDispatch])
    exact this.imp (fun h => h) (fun h => .inr h)
  | done id e =>
    cases hg : guard r id .dispatched
    · left; rw [done_miss now e hg]
    · right; right
      refine ⟨id, setDone now e, by rw [done_hit now e hg], setDone_id now e, ?_, ?_⟩
      · intro t _; cases e <;> simp [setDone]
      · intro t _ _; cases e <;> simp [setDone, errKindMutate_ne_none]
  | revert | cancelDispatched | deleteEnded => cases hl

/-- A false `state = scheduled` guard on `id` stays false under every lifecycle step, except that an
unknown `id` may be inserted. -/
theorem guard_false_step {r : Repo} {id : String} (h : guard r id .scheduled = false)
    (now : Time) {op : Op} (hl : lifecycle op = true)
    (hadd : r.lookup id = none → ∀ p, op ≠ .add id p) :
    guard (Repo.step {} r now op).1 id .scheduled = false := by
  rcases step_cases r now op hl with h' | ⟨id', p, rfl, h'⟩ | ⟨id', f, h', hid, hst, -⟩
  · rw [h']; exact h
  · rw [h']
    rw [guard_eq_false] at h ⊢
    intro t ht
    rw [lookup_append] at ht
    cases hl' : r.lookup id with
    | some t0 =>
      simp only [hl', Option.some_or, Option.some.injEq] at ht
      subst ht
      exact h _ hl'
    | none =>
      have : id' ≠ id := fun e => hadd hl' p (by rw [e])
      simp [hl', this] at ht
  · rw [h']; exact guard_false_replace h hid hst

/-- A stored id stays stored under every lifecycle step. -/
theorem isSome_lookup_step {r : Repo} {id : String} (h : (r.lookup id).isSome = true)
    (now : Time) {op : Op} (hl : lifecycle op = true) :
    ((Repo.step {} r now op).1.lookup id).isSome = true := by
  rcases step_cases r now op hl with h' | ⟨id', p, rfl, h'⟩ | ⟨id', f, h', hid, -, -⟩
  · rw [h']; exact h
  · rw [h', lookup_append]
    cases hl' : r.lookup id with
    | some t0 => simp
    | none => simp [hl'] at h
  · rw [h']; exact isSome_lookup_replace h hid

theorem missOk_step {r : Repo} {op : Op} (h : missOk r op) (now : Time) {op' : Op}
    (hl : lifecycle op' = true) (hadd : ∀ id p, op' = .add id p → opTarget op ≠ some id) :
    missOk (Repo.step {} r now op').1 op := by
  cases op with
  | update id p =>
    exact ⟨h.1, guard_false_step h.2 now hl
      (fun _ p' e => hadd id p' e rfl)⟩
  | cancel id => exact guard_false_step h now hl (fun _ p' e => hadd id p' e rfl)
  | dispatch id => exact guard_false_step h now hl (fun _ p' e => hadd id p' e rfl)
  | done id e => trivial
  | add _ _ | get _ | find _ _ _ | next | revert | cancelDispatched | deleteEnded =>
    exact absurd h (by simp [missOk])

/-- Lifecycle runs: a stored, non-scheduled task stays stored and non-scheduled. -/
theorem run_keeps_miss {r : Repo} {id : String} (mid : List (Time × Op))
    (hl : ∀ x ∈ mid, lifecycle x.2 = true)
    (h1 : (r.lookup id).isSome = true) (h2 : guard r id .scheduled = false) :
    ((Repo.run {} r mid).lookup id).isSome = true ∧
      guard (Repo.run {} r mid) id .scheduled = false := by
  induction mid generalizing r with
  | nil => exact ⟨h1, h2⟩
  | cons x xs ih =>
    obtain ⟨now, op⟩ := x
    have hop : lifecycle op = true := hl (now, op) List.mem_cons_self
    simp only [Repo.run]
    refine ih (fun y hy => hl y (List.mem_cons_of_mem _ hy))
      (isSome_lookup_step h1 now hop) (guard_false_step h2 now hop ?_)
    intro hn
    simp [hn] at h1

/-! ## List facts -/

theorem filterMap_cons' {α β} (f : α → Option β) (a : α) (l : List α) :
    (a :: l).filterMap f = (f a).toList ++ l.filterMap f := by
  rw [List.filterMap_cons]; cases f a <;> rfl

theorem perm_swap_append {α} (A B C : List α) : (A ++ (B ++ C)).Perm (B ++ (A ++ C)) := by
  rw [← List.append_assoc, ← List.append_assoc]
  exact List.perm_append_comm.append_right _

/-- Replacing the element at one position changes a `filterMap` by that element's contribution. -/
theorem perm_filterMap_set {α β} (f : α → Option β) : ∀ (l : List α) (c : Nat) (x y : α),
    l[c]? = some x →
    ((f x).toList ++ (l.set c y).filterMap f).Perm ((f y).toList ++ l.filterMap f)
  | [], _, _, _, h => by simp at h
  | a :: l, 0, x, y, h => by
    simp only [List.getElem?_cons_zero, Option.some.injEq] at h
    subst h
    simp only [List.set_cons_zero, filterMap_cons']
    exact perm_swap_append _ _ _
  | a :: l, c + 1, x, y, h => by
    simp only [List.getElem?_cons_succ] at h
    simp only [List.set_cons_succ, filterMap_cons']
    exact (perm_swap_append _ _ _).trans
      (((perm_filterMap_set f l c x y h).append_left _).trans (perm_swap_append _ _ _))

/-- A permutation of an image is the image of a permutation. -/
theorem perm_map_inv {α β} (f : α → β) : ∀ (l₁ : List β) (l₂ : List α), l₁.Perm (l₂.map f) →
    ∃ l : List α, l.Perm l₂ ∧ l.map f = l₁
  | [], l₂, h => by
    have := h.symm.eq_nil
    simp only [List.map_eq_nil_iff] at this
    subst this
    exact ⟨[], .refl _, rfl⟩
  | b :: l₁, l₂, h => by
    have hb : b ∈ l₂.map f := h.mem_iff.mp List.mem_cons_self
    obtain ⟨a, ha, rfl⟩ := List.mem_map.mp hb
    obtain ⟨i, hi⟩ := List.mem_iff_getElem?.mp ha
    have hp := cons_eraseIdx_perm hi
    have h' : l₁.Perm ((l₂.eraseIdx i).map f) := (h.trans (hp.symm.map f)).cons_inv
    obtain ⟨l, hl, hm⟩ := perm_map_inv f l₁ _ h'
    exact ⟨a :: l, (hl.cons a).trans hp, by simp [hm]⟩

/-! ## Linearized operations -/

/-- A linearized operation: a call whose result has been decided, at the stamp `lin`. -/
structure E where
  call : Nat
  now : Time
  op : Op
  out : Out
  lin : Nat

def toE (x : LOp × Nat) : E := ⟨x.1.call, x.1.now, x.1.op, x.1.out, x.2⟩

def Phase.toE? : Phase → Option E
  | .finished k now op out lin => some ⟨k, now, op, out, lin⟩
  | _ => none

/-- The database after the linearized operations. -/
def runE (r : Repo) (σ : List E) : Repo := σ.foldl (fun r e => (Repo.step {} r e.now e.op).1) r

/-- Every linearized operation returned what `Repo.step` returns at its place. -/
def okE : Repo → List E → Prop
  | _, [] => True
  | r, e :: rest => e.out = (Repo.step {} r e.now e.op).2 ∧ okE (Repo.step {} r e.now e.op).1 rest

theorem runE_append (r : Repo) (a b : List E) : runE r (a ++ b) = runE (runE r a) b :=
  List.foldl_append ..

theorem okE_append : ∀ (r : Repo) (a b : List E), okE r (a ++ b) ↔ okE r a ∧ okE (runE r a) b
  | _, [], _ => by simp [okE, runE]
  | r, e :: a, b => by
    simp only [List.cons_append, okE, runE, List.foldl_cons, and_assoc]
    exact and_congr_right fun _ => okE_append _ a b

theorem replays_of_okE : ∀ (σ : List (LOp × Nat)) (r : Repo), okE r (σ.map toE) →
    replays sameExact r (σ.map (·.1)) = true
  | [], _, _ => rfl
  | x :: σ, r, h => by
    simp only [List.map_cons, okE] at h
    simp only [List.map_cons]
    rw [replays_cons]
    refine ⟨?_, replays_of_okE σ _ h.2⟩
    have : x.1.out = (Repo.step {} r x.1.now x.1.op).2 := h.1
    simp [sameExact, this]

theorem runE_map_toE : ∀ (σ : List (LOp × Nat)) (r : Repo),
    runE r (σ.map toE) = Repo.run {} r ((σ.map (·.1)).map fun o => (o.now, o.op))
  | [], _ => rfl
  | x :: σ, r => by
    simp only [List.map_cons, runE, List.foldl_cons, Repo.run]
    exact runE_map_toE σ _

/-! ## The invariant -/

def phaseOk (clock : Nat) (r : Repo) : Phase → Prop
  | .idle => True
  | .called k _ op => k < clock ∧ lifecycle op = true
  | .missed k _ op => k < clock ∧ lifecycle op = true ∧ missOk r op
  | .finished _ _ _ _ _ => True

theorem phaseOk_mono {k k' : Nat} {r : Repo} {ph : Phase} (h : phaseOk k r ph) (hk : k ≤ k') :
    phaseOk k' r ph := by
  cases ph with
  | idle => trivial
  | called c now op => exact ⟨Nat.lt_of_lt_of_le h.1 hk, h.2⟩
  | missed c now op => exact ⟨Nat.lt_of_lt_of_le h.1 hk, h.2⟩
  | finished => trivial

/-- `σ` = the calls whose result has been decided, in the order of the deciding statements. -/
structure Inv (s : Sys) (σ : List E) : Prop where
  /-- they are the returned calls and the finished, not yet returned ones -/
  perm : σ.Perm (s.hist.map toE ++ s.phases.filterMap Phase.toE?)
  sorted : σ.Pairwise (fun a b => a.lin < b.lin)
  bound : ∀ e ∈ σ, e.call ≤ e.lin ∧ e.lin < s.clock ∧ lifecycle e.op = true
  /-- the database is the replay of the linearized operations, with the results they reported -/
  ok : okE {} σ
  final : runE {} σ = s.repo
  wf : s.repo.WF
  ret : ∀ x ∈ s.hist, x.2 ≤ x.1.ret
  phases : ∀ ph ∈ s.phases, phaseOk s.clock s.repo ph

theorem Inv.init (n : Nat) : Inv (init n) [] where
  perm := by simp [Ent.init, List.filterMap_replicate, Phase.toE?]
  sorted := List.Pairwise.nil
  bound := fun _ h => by cases h
  ok := trivial
  final := rfl
  wf := Repo.WF_empty
  ret := fun _ h => by cases h
  phases := by
    intro ph hph
    simp only [Ent.init, List.mem_replicate] at hph
    rw [hph.2]; trivial

/-- A client changes phase, nothing is decided. -/
theorem Inv.tick_quiet {s : Sys} {σ : List E} (h : Inv s σ) {c : Nat} {x y : Phase}
    (hc : s.phases[c]? = some x) (hx : x.toE? = none) (hy : y.toE? = none)
    (hok : phaseOk (s.clock + 1) s.repo y) : Inv (s.tick c y) σ where
  perm := by
    have := perm_filterMap_set Phase.toE? s.phases c x y hc
    simp only [hx, hy, Option.toList_none, List.nil_append] at this
    exact h.perm.trans (this.symm.append_left _)
  sorted := h.sorted
  bound := fun e he => ⟨(h.bound e he).1, Nat.lt_succ_of_lt (h.bound e he).2.1, (h.bound e he).2.2⟩
  ok := h.ok
  final := h.final
  wf := h.wf
  ret := h.ret
  phases := by
    intro ph hph
    rcases List.mem_or_eq_of_mem_set hph with hph | rfl
    · exact phaseOk_mono (h.phases ph hph) (Nat.le_succ _)
    · exact hok

/-- A statement decides a call: it is `Repo.step` on the current database. -/
theorem Inv.tick_fin {s : Sys} {σ : List E} (h : Inv s σ) {c : Nat} {x : Phase}
    (hc : s.phases[c]? = some x) (hx : x.toE? = none) {k : Nat} {now : Time} {op : Op} {out : Out}
    {r' : Repo} (hk : k < s.clock) (hl : lifecycle op = true)
    (hstep : Repo.step {} s.repo now op = (r', out))
    (hfresh : ∀ id p, op = .add id p →
      id ∉ s.repo.tasks.map (·.id) ∧ ∀ ph ∈ s.phases, ph.target ≠ some id) :
    Inv { s.tick c (.finished k now op out s.clock) with repo := r' }
      (σ ++ [⟨k, now, op, out, s.clock⟩]) where
  perm := by
    have := perm_filterMap_set Phase.toE? s.phases c x (.finished k now op out s.clock) hc
    have e1 : Phase.toE? (.finished k now op out s.clock) = some ⟨k, now, op, out, s.clock⟩ := rfl
    rw [hx, e1] at this
    simp only [Option.toList_none, List.nil_append, Option.toList_some,
      List.singleton_append] at this
    exact (List.perm_append_singleton _ _).trans
      (((h.perm.cons _).trans List.perm_middle.symm).trans (this.symm.append_left _))
  sorted := by
    rw [List.pairwise_append]
    refine ⟨h.sorted, List.pairwise_singleton _ _, ?_⟩
    intro a ha b hb
    simp only [List.mem_singleton] at hb
    subst hb
    exact (h.bound a ha).2.1
  bound := by
    intro e he
    rcases List.mem_append.mp he with he | he
    · exact ⟨(h.bound e he).1, Nat.lt_succ_of_lt (h.bound e he).2.1, (h.bound e he).2.2⟩
    · simp only [List.mem_singleton] at he
      subst he
      exact ⟨Nat.le_of_lt hk, Nat.lt_succ_self _, hl⟩
  ok := by
    rw [okE_append, h.final]
    exact ⟨h.ok, by simp [hstep], trivial⟩
  final := by
    rw [runE_append, h.final]
    simp [runE, hstep]
  wf := by
    have hr : r' = (Repo.step {} s.repo now op).1 := by rw [hstep]
    have hf : op.fresh s.repo := by
      cases op with
      | add id p => exact (hfresh id p rfl).1
      | _ => trivial
    show r'.WF
    rw [hr]
    exact Shape.wf h.wf hf (step_shape h.wf now op)
  ret := h.ret
  phases := by
    intro ph hph
    rcases List.mem_or_eq_of_mem_set hph with hph | rfl
    · have h0 := h.phases ph hph
      have hr : r' = (Repo.step {} s.repo now op).1 := by rw [hstep]
      cases ph with
      | idle => trivial
      | called c' now' op' => exact ⟨Nat.lt_succ_of_lt h0.1, h0.2⟩
      | missed c' now' op' =>
        refine ⟨Nat.lt_succ_of_lt h0.1, h0.2.1, ?_⟩
        show missOk r' op'
        rw [hr]
        exact missOk_step h0.2.2 now hl (fun id p hop => (hfresh id p hop).2 _ hph)
      | finished => trivial
    · trivial

/-- A finished call returns. -/
theorem Inv.tick_ret {s : Sys} {σ : List E} (h : Inv s σ) {c k : Nat} {now : Time} {op : Op}
    {out : Out} {lin : Nat} (hc : s.phases[c]? = some (.finished k now op out lin)) :
    Inv { s.tick c .idle with
      hist := s.hist ++ [({ call := k, ret := s.clock, now := now, op := op, out := out }, lin)] } σ where
  perm := by
    have := perm_filterMap_set Phase.toE? s.phases c _ .idle hc
    have e1 : Phase.toE? (.finished k now op out lin) = some ⟨k, now, op, out, lin⟩ := rfl
    have e2 : Phase.toE? .idle = none := rfl
    rw [e1, e2] at this
    simp only [Option.toList_none, List.nil_append, Option.toList_some,
      List.singleton_append] at this
    refine h.perm.trans ?_
    show List.Perm _ ((s.hist ++ [_]).map toE ++ (s.phases.set c .idle).filterMap Phase.toE?)
    simp only [List.map_append, List.map_cons, List.map_nil, List.append_assoc, List.singleton_append]
    exact this.symm.append_left _
  sorted := h.sorted
  bound := fun e he => ⟨(h.bound e he).1, Nat.lt_succ_of_lt (h.bound e he).2.1, (h.bound e he).2.2⟩
  ok := h.ok
  final := h.final
  wf := h.wf
  ret := by
    intro x hx
    rcases List.mem_append.mp hx with hx | hx
    · exact h.ret x hx
    · simp only [List.mem_singleton] at hx
      subst hx
      have hmem : (⟨k, now, op, out, lin⟩ : E) ∈ σ := by
        rw [h.perm.mem_iff]
        refine List.mem_append_right _ (List.mem_filterMap.mpr ⟨_, List.mem_of_getElem? hc, rfl⟩)
      exact Nat.le_of_lt (h.bound _ hmem).2.1
  phases := by
    intro ph hph
    rcases List.mem_or_eq_of_mem_set hph with hph | rfl
    · exact phaseOk_mono (h.phases ph hph) (Nat.le_succ _)
    · trivial

/-- Every action keeps the invariant, provided it is fresh. -/
theorem Inv.next {s : Sys} {σ : List E} (h : Inv s σ) (a : Act) (hf : a.fresh s = true) :
    ∃ σ', Inv (Ent.step s a) σ' := by
  cases a with
  | call c now op =>
    simp only [Ent.step]
    split
    · rename_i hc
      split
      · rename_i hl
        exact ⟨σ, h.tick_quiet hc rfl rfl ⟨Nat.lt_succ_self _, hl⟩⟩
      · exact ⟨σ, h⟩
    · exact ⟨σ, h⟩
  | stmt c =>
    simp only [Ent.step]
    split
    · rename_i k now op hc
      have hph := h.phases _ (List.mem_of_getElem? hc)
      split
      · rename_i r' out hs
        refine ⟨_, h.tick_fin hc rfl hph.1 hph.2 (stmt_fin_spec h.wf hs) ?_⟩
        intro id p hop
        subst hop
        simp only [Act.fresh, hc, Bool.and_eq_true, Bool.not_eq_true', List.all_eq_true,
          bne_iff_ne, ne_eq] at hf
        refine ⟨?_, hf.2⟩
        have := hf.1
        simpa using this
      · rename_i hs
        exact ⟨σ, h.tick_quiet hc rfl rfl ⟨Nat.lt_succ_of_lt hph.1, hph.2, stmt_miss_spec hs⟩⟩
    · exact ⟨σ, h⟩
  | classify c now' =>
    simp only [Ent.step]
    split
    · rename_i k now op hc
      have hph := h.phases _ (List.mem_of_getElem? hc)
      split
      · rename_i out hcl
        refine ⟨_, h.tick_fin (r' := s.repo) hc rfl hph.1 hph.2.1 (classify_spec hph.2.2 now hcl) ?_⟩
        intro id p hop
        subst hop
        exact absurd hph.2.2 (by simp [missOk])
      · exact ⟨σ, h.tick_quiet hc rfl rfl ⟨Nat.lt_succ_of_lt hph.1, hph.2.1⟩⟩
    · exact ⟨σ, h⟩
  | ret c =>
    simp only [Ent.step]
    split
    · rename_i k now op out lin hc
      exact ⟨σ, h.tick_ret hc⟩
    · exact ⟨σ, h⟩

theorem Inv.run {s : Sys} {σ : List E} (h : Inv s σ) : ∀ (acts : List Act), FreshAdds s acts →
    ∃ σ', Inv (Ent.run s acts) σ' := by
  intro acts
  induction acts generalizing s σ with
  | nil => exact fun _ => ⟨σ, h⟩
  | cons a rest ih =>
    intro hf
    obtain ⟨σ', h'⟩ := h.next a hf.1
    exact ih h' hf.2

/-! ## From the invariant to a sequential witness -/

theorem pending_map_toE (s : Sys) : s.pending.map toE = s.phases.filterMap Phase.toE? := by
  unfold Sys.pending
  rw [List.map_filterMap]
  congr 1
  funext ph
  cases ph <;> rfl

theorem mem_pending_ret {s : Sys} {x : LOp × Nat} (h : x ∈ s.pending) : x.1.ret = s.clock := by
  unfold Sys.pending at h
  obtain ⟨ph, -, hph⟩ := List.mem_filterMap.mp h
  cases ph with
  | finished k now op out lin =>
    simp only [Option.some.injEq] at hph
    subst hph
    rfl
  | idle => simp at hph
  | called => simp at hph
  | missed => simp at hph

/-- The returned calls together with the finished ones (completed with a return "now") have a
sequential witness: an order in which `Repo.step` returns the reported results and whose deciding
statements ran at strictly increasing stamps inside the calls' intervals. -/
theorem Inv.witness {s : Sys} {σ : List E} (h : Inv s σ) :
    ∃ σL : List LOp, σL.Perm (s.history ++ s.pending.map (·.1)) ∧ AtomicSections σL ∧
      replays sameExact {} σL = true ∧ (∀ o ∈ σL, lifecycle o.op = true) ∧
      Repo.run {} {} (σL.map fun o => (o.now, o.op)) = s.repo := by
  have hfull : (s.hist ++ s.pending).map toE = s.hist.map toE ++ s.phases.filterMap Phase.toE? := by
    rw [List.map_append, pending_map_toE]
  obtain ⟨σ2, hp2, hm2⟩ := perm_map_inv toE σ (s.hist ++ s.pending) (hfull ▸ h.perm)
  have hmem : ∀ a ∈ σ2, a.1.call ≤ a.2 ∧ a.2 ≤ a.1.ret ∧ lifecycle a.1.op = true := by
    intro a ha
    have hb := h.bound (toE a) (hm2 ▸ List.mem_map_of_mem ha)
    refine ⟨hb.1, ?_, hb.2.2⟩
    rcases List.mem_append.mp (hp2.mem_iff.mp ha) with ha' | ha'
    · exact h.ret a ha'
    · rw [mem_pending_ret ha']
      exact Nat.le_of_lt hb.2.1
  refine ⟨σ2.map (·.1), ?_, AtomicSectionsL.toFun (instants := σ2.map (·.2)) ⟨by simp, ?_, ?_⟩, ?_, ?_,
    ?_⟩
  · have := hp2.map (·.1)
    simpa [Sys.history] using this
  · rw [List.pairwise_map]
    have := h.sorted
    rw [← hm2, List.pairwise_map] at this
    exact this
  · intro x hx
    rw [List.zip_map', List.mem_map] at hx
    obtain ⟨a, ha, rfl⟩ := hx
    exact ⟨(hmem a ha).1, (hmem a ha).2.1⟩
  · exact replays_of_okE σ2 {} (hm2 ▸ h.ok)
  · intro o ho
    obtain ⟨a, ha, rfl⟩ := List.mem_map.mp ho
    exact (hmem a ha).2.2
  · rw [← h.final, ← hm2]
    exact (runE_map_toE σ2 {}).symm

theorem pending_nil_of_quiescent {s : Sys} (h : s.Quiescent) : s.pending = [] := by
  unfold Sys.pending
  rw [List.filterMap_eq_nil_iff]
  intro ph hph
  have := List.all_eq_true.mp h ph hph
  cases ph <;> simp_all [Phase.isIdle]

/-! ## Conflicting transitions in a replay -/

/-- Every task that has left `scheduled` carries a timestamp that makes `errKindMutate` refuse. -/
def Marked (r : Repo) : Prop := ∀ t ∈ r.tasks, t.state ≠ .scheduled → errKindMutate t ≠ none

theorem Marked_empty : Marked {} := fun _ h => by cases h

theorem Marked_step {r : Repo} (h : Marked r) (now : Time) {op : Op} (hl : lifecycle op = true) :
    Marked (Repo.step {} r now op).1 := by
  rcases step_cases r now op hl with h' | ⟨id', p, rfl, h'⟩ | ⟨id', f, h', -, -, hk⟩
  · rw [h']; exact h
  · rw [h']
    intro t ht
    simp only [List.mem_append, List.mem_singleton] at ht
    rcases ht with ht | rfl
    · exact h t ht
    · intro hs; exact absurd (toTask_state ..) hs
  · rw [h']
    intro t' ht'
    simp only [Repo.replace, List.mem_map] at ht'
    obtain ⟨t, ht, rfl⟩ := ht'
    split
    · exact hk t (h t ht)
    · exact h t ht

/-- `op` is `Cancel(id)` or `MarkAsDispatched(id)`. -/
def CD (id : String) (op : Op) : Prop := op = .cancel id ∨ op = .dispatch id

theorem cd_not_ok {r : Repo} {id : String} (hm : Marked r) (h1 : (r.lookup id).isSome = true)
    (h2 : guard r id .scheduled = false) (now : Time) {op : Op} (hop : CD id op) :
    (Repo.step {} r now op).2 ≠ .ok := by
  have key : ∀ f, (r.mutateScheduled id f).2 ≠ .ok := by
    intro f
    rw [mutate_miss _ h2]
    cases hl : r.lookup id with
    | none => simp [hl] at h1
    | some t =>
      have := hm t (Repo.lookup_some hl).1 (guard_eq_false.mp h2 t hl)
      simp only [refusal]
      cases he : errKindMutate t with
      | none => exact absurd he this
      | some e => simp
  rcases hop with rfl | rfl <;> exact key _

theorem cd_ok_after {r : Repo} {id : String} (hm : Marked r) (now : Time) {op : Op} (hop : CD id op)
    (hok : (Repo.step {} r now op).2 = .ok) :
    ((Repo.step {} r now op).1.lookup id).isSome = true ∧
      guard (Repo.step {} r now op).1 id .scheduled = false := by
  have key : ∀ f : Task → Task, (∀ t, (f t).id = t.id) → (∀ t, (f t).state ≠ .scheduled) →
      (r.mutateScheduled id f).2 = .ok →
      ((r.mutateScheduled id f).1.lookup id).isSome = true ∧
        guard (r.mutateScheduled id f).1 id .scheduled = false := by
    intro f hid hst hok
    cases hg : guard r id .scheduled
    · exfalso
      rw [mutate_miss _ hg] at hok
      cases hl : r.lookup id with
      | none => simp [hl, refusal] at hok
      | some t =>
        have := hm t (Repo.lookup_some hl).1 (guard_eq_false.mp hg t hl)
        simp only [hl, refusal] at hok
        cases he : errKindMutate t with
        | none => exact absurd he this
        | some e => simp [he] at hok
    · rw [mutate_hit _ hg]
      obtain ⟨t, hl, -⟩ := guard_eq_true.mp hg
      have hl' := lookup_replace_map r id id f hid
      rw [hl] at hl'
      simp only [Option.map_some, (Repo.lookup_some hl).2, beq_self_eq_true, if_true] at hl'
      refine ⟨by simp [hl'], ?_⟩
      rw [guard_eq_false]
      intro t' ht'
      rw [hl'] at ht'
      cases ht'
      exact hst t
  rcases hop with rfl | rfl
  · exact key _ (fun _ => rfl) (fun _ => by simp) hok
  · exact key _ (fun _ => rfl) (fun _ => by simp) hok

/-- Two calls of one replay: not both a successful `Cancel` / `MarkAsDispatched` of the same task. -/
def NoConflict (a b : LOp) : Prop :=
  ∀ id, CD id a.op → CD id b.op → ¬ (a.out = .ok ∧ b.out = .ok)

theorem NoConflict.symm {a b : LOp} (h : NoConflict a b) : NoConflict b a :=
  fun id hb ha hh => h id ha hb ⟨hh.2, hh.1⟩

theorem sameExact_eq {op : Op} {a b : Out} (h : sameExact op a b = true) : a = b := by
  simpa [sameExact] using h

theorem replays_no_second_ok {id : String} : ∀ (σ : List LOp) (r : Repo), Marked r →
    (r.lookup id).isSome = true → guard r id .scheduled = false →
    (∀ o ∈ σ, lifecycle o.op = true) → replays sameExact r σ = true →
    ∀ o ∈ σ, CD id o.op → o.out ≠ .ok
  | [], _, _, _, _, _, _ => fun _ h => by cases h
  | x :: σ, r, hm, h1, h2, hl, hrep => by
    rw [replays_cons] at hrep
    have hx := hl x List.mem_cons_self
    intro o ho hcd
    rcases List.mem_cons.mp ho with rfl | ho
    · rw [sameExact_eq hrep.1]
      exact cd_not_ok hm h1 h2 _ hcd
    · exact replays_no_second_ok σ _ (Marked_step hm _ hx) (isSome_lookup_step h1 _ hx)
        (guard_false_step h2 _ hx (fun hn => by simp [hn] at h1))
        (fun o ho => hl o (List.mem_cons_of_mem _ ho)) hrep.2 o ho hcd

theorem replays_no_conflict : ∀ (σ : List LOp) (r : Repo), Marked r →
    (∀ o ∈ σ, lifecycle o.op = true) → replays sameExact r σ = true → σ.Pairwise NoConflict
  | [], _, _, _, _ => List.Pairwise.nil
  | x :: σ, r, hm, hl, hrep => by
    rw [replays_cons] at hrep
    have hx := hl x List.mem_cons_self
    have hl' : ∀ o ∈ σ, lifecycle o.op = true := fun o ho => hl o (List.mem_cons_of_mem _ ho)
    rw [List.pairwise_cons]
    refine ⟨?_, replays_no_conflict σ _ (Marked_step hm _ hx) hl' hrep.2⟩
    intro b hb id hxa hba hh
    have hok : (Repo.step {} r x.now x.op).2 = .ok := by rw [← sameExact_eq hrep.1]; exact hh.1
    obtain ⟨h1, h2⟩ := cd_ok_after hm x.now hxa hok
    exact replays_no_second_ok σ _ (Marked_step hm _ hx) h1 h2 hl' hrep.2 b hb hba hh.2

end Gk.Ent
