/-
C20 (recovery, the *eventual* half) — what ONE round of the fair fault-free driver (`Live.driveRound`)
does to a world that is between two calls and holds a retryable error state:

  * `Retry(DispatchErr t _)`   — `round_retry_skip` (mark already took effect: skipped),
                                 `round_retry_mark` (mark not done: marked now),
                                 `round_retry_refused` / `round_retry_missing` (cancelled / removed),
                                 `round_retry_dispatchErr_total` (the case split is exhaustive),
  * `Retry(TaskDone id o err)` — `round_retry_done`, `round_retry_done_already`,
                                 `round_retry_done_missing`, `round_retry_done_total`,
  * `Retry(TimerUpdateError)`  — `round_retry_timer` (+ `restart_notDue`, `restart_empty`, `restart_inv`),

and the global statements about ANY world that satisfies the invariants and is between two calls:
  * `round_none_lost`     — after one round every task stored as `dispatched` has had its work function
                            started (invariant `DispInv` + `round_noRetryDisp`),
  * `round_not_retryable` — the state returned by one round never asks for a `Retry`
                            (round invariants `NoCtx`, `TimerOk`),
  * `ConsInv`             — the C12 record consistency along scripts (needed to know that a cancelled
                            task is *refused*).
The property theorems are in `Gk/Props/C20rec.lean`.
-/
import Gk.Proofs.WorldLive
namespace Gk.Live
open Gk

/-! ## `Retry(DispatchErr)` -/

/-- the world after a `Retry` that fetched `cur` and started its work function without touching the
repository -/
def afterRetryRun (w : World) (t cur : Task) : World :=
  { w with ctxDone := false, pc := .idle,
           running := w.running ++ [(t.id, cur)],
           log := w.log ++ [{ id := t.id, at_ := w.obs.clock.now, task := cur }],
           ret := .dispatched t.id }

/-- `Retry(DispatchErr t e)`, the failed attempt HAD marked the task (`Fault.after` on
`MarkAsDispatched`, or a failure after the mark): `GetById` sees it dispatched, `MarkAsDispatched` is
skipped, the second `GetById` fetches the record and the work function is started. -/
theorem round_retry_skip {w : World} {t u : Task} {e : Err} (hpc : w.pc = .idle)
    (hfix : w.fix.retryMarks = true) (hr : w.ret = .dispatchErr t e)
    (hq : World.isDefError e = false)
    (hu : w.obs.repo.lookup t.id = some u) (hs : u.state = .dispatched) :
    driveRound w = afterRetryRun w t u := by
  unfold driveRound
  have e1 : w.step (autoAct w) = { w with ctxDone := false, pc := .r_getById t } := by
    simp [autoAct, hpc, retryable, hq, World.step, World.sched, hr]
  rw [drive_next (by rw [e1]; simp), e1]
  have e2 : ({ w with ctxDone := false, pc := .r_getById t } : World).step
        (autoAct { w with ctxDone := false, pc := .r_getById t })
      = { w with ctxDone := false, pc := .d_wait t true } := by
    simp [autoAct, World.step, World.sched, hu, hs, hfix]
  rw [drive_next (by rw [e2]; simp), e2]
  have e3 : ({ w with ctxDone := false, pc := .d_wait t true } : World).step
        (autoAct { w with ctxDone := false, pc := .d_wait t true })
      = { w with ctxDone := false, pc := .d_get t } := by
    simp [autoAct, World.step, World.sched]
  rw [drive_next (by rw [e3]; simp), e3]
  have e4 : ({ w with ctxDone := false, pc := .d_get t } : World).step
        (autoAct { w with ctxDone := false, pc := .d_get t })
      = afterRetryRun w t u := by
    simp [autoAct, World.step, World.sched, hu, World.finish, afterRetryRun]
  rw [drive_idle (by rw [e4]; rfl), e4]

/-- the world after a `Retry` that marked `t`, fetched the dispatched record `cur` and started it -/
def afterRetryMark (w : World) (t cur : Task) : World :=
  { w with ctxDone := false, pc := .idle,
           obs := (w.obs.step (.dispatch t.id) none).1,
           running := w.running ++ [(t.id, cur)],
           log := w.log ++ [{ id := t.id, at_ := w.obs.clock.now, task := cur }],
           ret := .dispatched t.id }

/-- `Retry(DispatchErr t e)`, the failed attempt had NOT marked the task (no worker before the context
ended, `Fault.before` on `MarkAsDispatched`, ...): `GetById` sees it scheduled, so (repaired D4 path)
the task is marked now, fetched as dispatched and started. -/
theorem round_retry_mark {w : World} {t u : Task} {e : Err} (hpc : w.pc = .idle)
    (hfix : w.fix.retryMarks = true) (hr : w.ret = .dispatchErr t e)
    (hq : World.isDefError e = false)
    (hu : w.obs.repo.lookup t.id = some u) (hs : u.state = .scheduled) :
    driveRound w = afterRetryMark w t
      { u with state := .dispatched, dispatchedAt := some (normalize w.obs.clock.now) } := by
  have ⟨hd1, hd2⟩ := dispatch_step_scheduled w.obs t.id none hu hs
  have hnow : (w.obs.step (.dispatch t.id) none).1.clock.now = w.obs.clock.now := by
    simp only [Obs.step]
    split
    · rfl
    · exact hookDispatch_now _ _ _
  unfold driveRound
  have e1 : w.step (autoAct w) = { w with ctxDone := false, pc := .r_getById t } := by
    simp [autoAct, hpc, retryable, hq, World.step, World.sched, hr]
  rw [drive_next (by rw [e1]; simp), e1]
  have e2 : ({ w with ctxDone := false, pc := .r_getById t } : World).step
        (autoAct { w with ctxDone := false, pc := .r_getById t })
      = { w with ctxDone := false, pc := .d_wait t false } := by
    simp [autoAct, World.step, World.sched, hu, hs, hfix]
  rw [drive_next (by rw [e2]; simp), e2]
  have e3 : ({ w with ctxDone := false, pc := .d_wait t false } : World).step
        (autoAct { w with ctxDone := false, pc := .d_wait t false })
      = { w with ctxDone := false, pc := .d_mark t false } := by
    simp [autoAct, World.step, World.sched]
  rw [drive_next (by rw [e3]; simp), e3]
  have e4 : ({ w with ctxDone := false, pc := .d_mark t false } : World).step
        (autoAct { w with ctxDone := false, pc := .d_mark t false })
      = { w with obs := (w.obs.step (.dispatch t.id) none).1, ctxDone := false, pc := .d_get t } := by
    simp [autoAct, World.step, World.sched, hd1]
  rw [drive_next (by rw [e4]; simp), e4]
  have e5 : ({ w with obs := (w.obs.step (.dispatch t.id) none).1, ctxDone := false,
                      pc := .d_get t } : World).step
        (autoAct { w with obs := (w.obs.step (.dispatch t.id) none).1, ctxDone := false,
                          pc := .d_get t })
      = afterRetryMark w t
          { u with state := .dispatched, dispatchedAt := some (normalize w.obs.clock.now) } := by
    simp [autoAct, World.step, World.sched, hd2, World.finish, hnow, afterRetryMark]
  rw [drive_idle (by rw [e5]; rfl), e5]

/-- `MarkAsDispatched(id)` of a stored task that is not scheduled is refused with the error that
`def.ErrKind` reads off its timestamps; nothing changes -/
theorem dispatch_step_refused (o : Obs) (id : String) (f : Option Err) {u : Task} {e' : Err}
    (hl : o.repo.lookup id = some u) (hs : u.state ≠ .scheduled) (hk : errKindMutate u = some e') :
    o.step (.dispatch id) f = (o, .err e') := by
  have : (u.state != St.scheduled) = true := by simp [hs]
  simp [Obs.step, Repo.step, Repo.mutateScheduled, hl, this, hk, Out.isErr]

theorem dispatch_step_missing (o : Obs) (id : String) (f : Option Err)
    (hl : o.repo.lookup id = none) : o.step (.dispatch id) f = (o, .err .idNotFound) := by
  simp [Obs.step, Repo.step, Repo.mutateScheduled, hl, Out.isErr]

/-- every error `def.ErrKind` produces is a repository verdict (`def.IsDefError`) -/
theorem errKindMutate_isDefError {u : Task} {e' : Err} (hk : errKindMutate u = some e') :
    World.isDefError e' = true := by
  unfold errKindMutate errKind at hk
  simp only [Bool.not_false, Bool.true_and, Bool.false_and, Bool.false_eq_true, ↓reduceIte] at hk
  repeat' split at hk
  all_goals first | (cases hk; rfl) | cases hk

/-- a consistent cancelled task reads `ErrAlreadyCancelled` -/
theorem errKindMutate_cancelled {u : Task} (hs : u.state = .cancelled) (hc : u.consistent = true) :
    errKindMutate u = some .alreadyCancelled := by
  unfold Task.consistent at hc
  simp only [hs, Bool.and_eq_true] at hc
  obtain ⟨⟨h1, h2⟩, _⟩ := hc
  have h2' : u.doneAt.isSome = false := by
    cases h : u.doneAt <;> simp_all
  simp [errKindMutate, errKind, h1, h2']

/-- `Retry(DispatchErr t e)`, the task has meanwhile left the states `scheduled` / `dispatched` (the
user cancelled it): `GetById` succeeds, `MarkAsDispatched` is refused with the repository's verdict
`e'` (`ErrAlreadyCancelled` for a cancelled task), and `Retry` returns `DispatchErr t e'` — a state that
is NOT retryable. Nothing runs, nothing is written. -/
theorem round_retry_refused {w : World} {t u : Task} {e e' : Err} (hpc : w.pc = .idle)
    (hfix : w.fix.retryMarks = true) (hr : w.ret = .dispatchErr t e)
    (hq : World.isDefError e = false) (hg : w.getNextErr = true)
    (hu : w.obs.repo.lookup t.id = some u) (hs : u.state ≠ .scheduled) (hs' : u.state ≠ .dispatched)
    (hk : errKindMutate u = some e') :
    driveRound w = { w with ctxDone := false, pc := .idle, ret := .dispatchErr t e' } := by
  have hd := dispatch_step_refused w.obs t.id none hu hs hk
  unfold driveRound
  have e1 : w.step (autoAct w) = { w with ctxDone := false, pc := .r_getById t } := by
    simp [autoAct, hpc, retryable, hq, World.step, World.sched, hr]
  rw [drive_next (by rw [e1]; simp), e1]
  have e2 : ({ w with ctxDone := false, pc := .r_getById t } : World).step
        (autoAct { w with ctxDone := false, pc := .r_getById t })
      = { w with ctxDone := false, pc := .d_wait t false } := by
    simp [autoAct, World.step, World.sched, hu, hs', hfix]
  rw [drive_next (by rw [e2]; simp), e2]
  have e3 : ({ w with ctxDone := false, pc := .d_wait t false } : World).step
        (autoAct { w with ctxDone := false, pc := .d_wait t false })
      = { w with ctxDone := false, pc := .d_mark t false } := by
    simp [autoAct, World.step, World.sched]
  rw [drive_next (by rw [e3]; simp), e3]
  have e4 : ({ w with ctxDone := false, pc := .d_mark t false } : World).step
        (autoAct { w with ctxDone := false, pc := .d_mark t false })
      = { w with ctxDone := false, pc := .idle, ret := .dispatchErr t e' } := by
    simp [autoAct, World.step, World.sched, hd, World.finishDE, World.finish, hg]
  rw [drive_idle (by rw [e4]), e4]

/-- `Retry(DispatchErr t e)`, the task is no longer stored (no user operation of this model removes a
task; ent's `DeleteEnded` would): `GetById` fails, the pinned code continues with the zero task, whose
`MarkAsDispatched("")` is refused with `ErrIdNotFound`: `Retry` returns `DispatchErr zeroTask
idNotFound`, NOT retryable. Nothing runs, nothing is written. -/
theorem round_retry_missing {w : World} {t : Task} {e : Err} (hpc : w.pc = .idle)
    (hfix : w.fix.retryMarks = true) (hr : w.ret = .dispatchErr t e)
    (hq : World.isDefError e = false) (hg : w.getNextErr = true)
    (hu : w.obs.repo.lookup t.id = none) (h0 : w.obs.repo.lookup "" = none) :
    driveRound w =
      { w with ctxDone := false, pc := .idle, ret := .dispatchErr World.zeroTask .idNotFound } := by
  have hd := dispatch_step_missing w.obs World.zeroTask.id none h0
  unfold driveRound
  have e1 : w.step (autoAct w) = { w with ctxDone := false, pc := .r_getById t } := by
    simp [autoAct, hpc, retryable, hq, World.step, World.sched, hr]
  rw [drive_next (by rw [e1]; simp), e1]
  have e2 : ({ w with ctxDone := false, pc := .r_getById t } : World).step
        (autoAct { w with ctxDone := false, pc := .r_getById t })
      = { w with ctxDone := false, pc := .d_wait World.zeroTask false } := by
    simp [autoAct, World.step, World.sched, hu, hfix]
  rw [drive_next (by rw [e2]; simp), e2]
  have e3 : ({ w with ctxDone := false, pc := .d_wait World.zeroTask false } : World).step
        (autoAct { w with ctxDone := false, pc := .d_wait World.zeroTask false })
      = { w with ctxDone := false, pc := .d_mark World.zeroTask false } := by
    simp [autoAct, World.step, World.sched]
  rw [drive_next (by rw [e3]; simp), e3]
  have e4 : ({ w with ctxDone := false, pc := .d_mark World.zeroTask false } : World).step
        (autoAct { w with ctxDone := false, pc := .d_mark World.zeroTask false })
      = { w with ctxDone := false, pc := .idle,
                 ret := .dispatchErr World.zeroTask .idNotFound } := by
    simp [autoAct, World.step, World.sched, hd, World.finishDE, World.finish, hg]
  rw [drive_idle (by rw [e4]), e4]

/-! ## `Retry(TaskDone)` -/

/-- what `Retry(TaskDone id o _)` returns, given the outcome of its `MarkAsDone`: an error other than
`ErrAlreadyDone` is reported again, everything else (success, `ErrAlreadyDone`) is `Zero` -/
def doneRet (id : String) (o : Outcome) : Out → SS
  | .err e' => if e' = .alreadyDone then .zero else .taskDone id o (some e')
  | _ => .zero

/-- `Retry(TaskDone id o (some e))` with a retryable `e`, generic form: one fault-free `MarkAsDone`. -/
theorem round_retry_done_gen {w : World} {id : String} {o : Outcome} {e : Err} {r : Repo} {out : Out}
    (hpc : w.pc = .idle) (hr : w.ret = .taskDone id o (some e)) (hq : World.isDefError e = false)
    (hstep : Repo.step {} w.obs.repo w.obs.clock.now (.done id (World.outcomeErr o)) = (r, out)) :
    driveRound w = { w with ctxDone := false, pc := .idle, obs := { w.obs with repo := r },
                            ret := doneRet id o out } := by
  unfold driveRound
  have e1 : w.step (autoAct w) = { w with ctxDone := false, pc := .r_markDone id o } := by
    simp [autoAct, hpc, retryable, hq, World.step, World.sched, hr]
  rw [drive_next (by rw [e1]; simp), e1]
  have e2 : ({ w with ctxDone := false, pc := .r_markDone id o } : World).step
        (autoAct { w with ctxDone := false, pc := .r_markDone id o })
      = { w with ctxDone := false, pc := .idle, obs := { w.obs with repo := r },
                 ret := doneRet id o out } := by
    cases out with
    | err e' =>
      by_cases h : e' = .alreadyDone
      · simp [autoAct, World.step, World.sched, hstep, World.finish, doneRet, h]
      · simp [autoAct, World.step, World.sched, hstep, World.finish, doneRet, h]
    | ok => simp [autoAct, World.step, World.sched, hstep, World.finish, doneRet]
    | task _ => simp [autoAct, World.step, World.sched, hstep, World.finish, doneRet]
    | tasks _ => simp [autoAct, World.step, World.sched, hstep, World.finish, doneRet]
  rw [drive_idle (by rw [e2]), e2]

/-- the record `MarkAsDone(id, err)` writes -/
def doneRecord (now : Time) (err : Option String) (t : Task) : Task :=
  match err with
  | none => { t with state := .done, doneAt := some (normalize now) }
  | some msg => { t with state := .err, err := msg, doneAt := some (normalize now) }

theorem done_step_dispatched (r : Repo) (now : Time) (id : String) (err : Option String) {u : Task}
    (hl : r.lookup id = some u) (hs : u.state = .dispatched) :
    Repo.step {} r now (.done id err) = (r.replace id (doneRecord now err), .ok) := by
  simp only [Repo.step, hl, hs, bne_self_eq_false, Bool.false_eq_true, ↓reduceIte]
  rfl

theorem done_step_already (r : Repo) (now : Time) (id : String) (err : Option String) {u : Task}
    (hl : r.lookup id = some u) (hs : u.state ≠ .dispatched) (hd : u.doneAt.isSome = true) :
    Repo.step {} r now (.done id err) = (r, .err .alreadyDone) := by
  have : (u.state != St.dispatched) = true := by simp [hs]
  simp [Repo.step, hl, this, errKindMarkAsDone, errKind, hd]

theorem done_step_missing (r : Repo) (now : Time) (id : String) (err : Option String)
    (hl : r.lookup id = none) : Repo.step {} r now (.done id err) = (r, .err .idNotFound) := by
  simp [Repo.step, hl]

theorem doneRecord_id (now : Time) (err : Option String) (t : Task) :
    (doneRecord now err t).id = t.id := by
  cases err <;> rfl

/-- the world after a `Retry` that recorded the result `o` of task `id` -/
def afterRetryDone (w : World) (id : String) (o : Outcome) : World :=
  { w with ctxDone := false, pc := .idle, ret := .zero,
           obs := { w.obs with repo :=
                      w.obs.repo.replace id (doneRecord w.obs.clock.now (World.outcomeErr o)) } }

/-- `Retry(TaskDone id o (some e))`, the failed `MarkAsDone` had NOT taken effect (the task is still
stored as dispatched): the result is recorded now and `Retry` returns `Zero`. -/
theorem round_retry_done {w : World} {id : String} {o : Outcome} {e : Err} {u : Task}
    (hpc : w.pc = .idle) (hr : w.ret = .taskDone id o (some e)) (hq : World.isDefError e = false)
    (hu : w.obs.repo.lookup id = some u) (hs : u.state = .dispatched) :
    driveRound w = afterRetryDone w id o :=
  round_retry_done_gen hpc hr hq (done_step_dispatched _ _ _ _ hu hs)

/-- `Retry(TaskDone id o (some e))`, the failed `MarkAsDone` HAD taken effect (`Fault.after`: the task
already carries `done_at`): `MarkAsDone` is refused with `ErrAlreadyDone`, which `Retry` swallows — it
returns `Zero` and the world is otherwise unchanged (idempotent). -/
theorem round_retry_done_already {w : World} {id : String} {o : Outcome} {e : Err} {u : Task}
    (hpc : w.pc = .idle) (hr : w.ret = .taskDone id o (some e)) (hq : World.isDefError e = false)
    (hu : w.obs.repo.lookup id = some u) (hs : u.state ≠ .dispatched)
    (hd : u.doneAt.isSome = true) :
    driveRound w = { w with ctxDone := false, pc := .idle, ret := .zero } :=
  round_retry_done_gen hpc hr hq (done_step_already _ _ _ _ hu hs hd)

/-- `Retry(TaskDone id o (some e))` for a task that is no longer stored: `ErrIdNotFound` is reported
as `TaskDone id o (some idNotFound)`, which is NOT retryable. -/
theorem round_retry_done_missing {w : World} {id : String} {o : Outcome} {e : Err}
    (hpc : w.pc = .idle) (hr : w.ret = .taskDone id o (some e)) (hq : World.isDefError e = false)
    (hu : w.obs.repo.lookup id = none) :
    driveRound w = { w with ctxDone := false, pc := .idle,
                            ret := .taskDone id o (some .idNotFound) } :=
  round_retry_done_gen hpc hr hq (done_step_missing _ _ _ _ hu)

/-! ## `Retry(TimerUpdateError)` -/

theorem update_none_lastErr (o : Obs) : (o.update none).hook.lastErr = none := by
  unfold Obs.update
  split
  · rfl
  · simp only
    split <;> rfl

theorem startTimer_none_lastErr (o : Obs) : (o.startTimer none).hook.lastErr = none :=
  update_none_lastErr _

theorem startTimer_started (o : Obs) (f : Option Err) : (o.startTimer f).hook.started = true := by
  unfold Obs.startTimer
  rw [update_started]

/-- `Retry(TimerUpdateError e)`: `StopTimer(); StartTimer()`; the re-arm succeeds (no hook fault), so
`LastTimerUpdateError()` is nil and `Retry` returns `Zero`. -/
theorem round_retry_timer {w : World} {e : Err} (hpc : w.pc = .idle)
    (hr : w.ret = .timerUpdateError e) :
    driveRound w = { w with ctxDone := false, pc := .idle,
                            obs := w.obs.stopTimer.startTimer none, ret := .zero } := by
  have hle := startTimer_none_lastErr w.obs.stopTimer
  unfold driveRound
  have e1 : w.step (autoAct w) = { w with ctxDone := false, pc := .r_stop } := by
    simp [autoAct, hpc, retryable, World.step, World.sched, hr]
  rw [drive_next (by rw [e1]; simp), e1]
  have e2 : ({ w with ctxDone := false, pc := .r_stop } : World).step
        (autoAct { w with ctxDone := false, pc := .r_stop })
      = { w with ctxDone := false, obs := w.obs.stopTimer, pc := .r_start } := by
    simp [autoAct, World.step, World.sched]
  rw [drive_next (by rw [e2]; simp), e2]
  have e3 : ({ w with ctxDone := false, obs := w.obs.stopTimer, pc := .r_start } : World).step
        (autoAct { w with ctxDone := false, obs := w.obs.stopTimer, pc := .r_start })
      = { w with ctxDone := false, obs := w.obs.stopTimer.startTimer none, pc := .r_lastErr } := by
    simp [autoAct, World.step, World.sched]
  rw [drive_next (by rw [e3]; simp), e3]
  have e4 : ({ w with ctxDone := false, obs := w.obs.stopTimer.startTimer none,
                      pc := .r_lastErr } : World).step
        (autoAct { w with ctxDone := false, obs := w.obs.stopTimer.startTimer none,
                          pc := .r_lastErr })
      = { w with ctxDone := false, pc := .idle, obs := w.obs.stopTimer.startTimer none,
                 ret := .zero } := by
    simp [autoAct, World.step, World.sched, hle, World.finish]
  rw [drive_idle (by rw [e4]), e4]

/-- the observable after `StopTimer(); StartTimer()` when the head `hd` is not yet due: `hd` is
cached, the cache is trusted, the timer is armed exactly at `hd.scheduledAt` -/
def restartedArmed (o : Obs) (hd : Task) : Obs :=
  { o with hook := { o.hook with cached := some hd, stale := false, timerReset := true,
                                 started := true, lastErr := none },
           clock := { o.clock with armed := some hd.scheduledAt, pending := false } }

/-- the observable after `StopTimer(); StartTimer()` when nothing is scheduled -/
def restartedEmpty (o : Obs) : Obs :=
  { o with hook := { o.hook with cached := none, stale := false, timerReset := false,
                                 started := true, lastErr := none },
           clock := { o.clock with armed := none, pending := false } }

theorem reset_notDue (n s : Time) (h : n < s) :
    ({ now := n, armed := none, pending := false } : Clock).reset (s - n) =
      { now := n, armed := some s, pending := false } := by
  have e : n + (s - n) = s := by tomega
  have h' : ¬ s ≤ n := by tomega
  simp [Clock.reset, Clock.fire, e, h']

theorem restart_notDue {o : Obs} {hd : Task} (hn : o.repo.getNext = some hd)
    (hdue : o.clock.now < hd.scheduledAt) :
    o.stopTimer.startTimer none = restartedArmed o hd := by
  unfold Obs.startTimer Obs.stopTimer Obs.update restartedArmed
  simp only [Bool.not_true, Bool.false_eq_true, ↓reduceIte, hn, stopAndDrain_twice]
  rw [reset_notDue _ _ hdue]

theorem restart_empty {o : Obs} (hn : o.repo.getNext = none) :
    o.stopTimer.startTimer none = restartedEmpty o := by
  unfold Obs.startTimer Obs.stopTimer Obs.update restartedEmpty
  simp only [Bool.not_true, Bool.false_eq_true, ↓reduceIte, hn, stopAndDrain_twice]

/-- the restart keeps the hook-timer invariant (whether or not the scheduler owed a wake-up) -/
theorem restart_inv {w : World} (hL : LiveInv w) : Inv (w.obs.stopTimer.startTimer none) :=
  inv_startTimer (Or.inl hL.inv_stop) none

/-! ## No task is lost: the global statement -/

/-- inside a fault-free round the context is not cancelled -/
def NoCtx (w : World) : Prop := w.pc = .idle ∨ w.ctxDone = false

/-- the state returned is not a `DispatchErr` that asks for a `Retry` -/
def NoRetryDisp (w : World) : Prop := ∀ t e, w.ret = .dispatchErr t e → World.isDefError e = true

theorem ite_pair_snd {α β : Type} {c : Prop} [Decidable c] (a b : α) (x : β) :
    (if c then (a, x) else (b, x)).2 = x := by
  split <;> rfl

/-- the error of a refused `MarkAsDispatched` is a repository verdict -/
theorem dispatch_out_isDefError (o : Obs) (id : String) (f : Option Err) {e : Err}
    (h : (o.step (.dispatch id) f).2 = .err e) : World.isDefError e = true := by
  have hout : (o.step (.dispatch id) f).2 = (Repo.mutateScheduled o.repo id (fun t =>
      { t with state := .dispatched, dispatchedAt := some (normalize o.clock.now) })).2 := by
    simp only [Obs.step, Repo.step]
    exact ite_pair_snd _ _ _
  rw [hout] at h
  unfold Repo.mutateScheduled at h
  split at h
  · cases h; rfl
  · split at h
    · split at h
      · next k hk =>
        cases h
        exact errKindMutate_isDefError hk
      · cases h
    · cases h

theorem NoCtx.auto {w : World} (h : NoCtx w) : NoCtx (w.step (autoAct w)) := by
  unfold NoCtx at h ⊢
  cases hpc : w.pc
  case idle =>
    simp only [autoAct, hpc]
    split
    · simp only [World.step, World.sched, hpc, World.finish]
      repeat' split
      all_goals first | exact Or.inr rfl | exact Or.inl rfl
    · simp only [World.step, World.sched, hpc]
      repeat' split
      all_goals first | exact Or.inr rfl | exact Or.inl rfl
  all_goals
    have hc : w.ctxDone = false := by
      rcases h with h | h
      · rw [hpc] at h; cases h
      · exact h
    simp only [autoAct, hpc]
    repeat' split
    all_goals simp only [World.step, World.sched, hpc, World.finish, World.afterPrologue]
    all_goals (repeat' split)
    all_goals first | exact Or.inr hc | exact Or.inl rfl

/-- a fault-free call never returns a `DispatchErr` that asks for a `Retry`: the context is not
cancelled, a worker is free, no call fails — the only errors left are the repository's verdicts -/
theorem noRetryDisp_end {w : World} (h : NoCtx w) (hi : (w.step (autoAct w)).pc = .idle) :
    NoRetryDisp (w.step (autoAct w)) := by
  unfold NoRetryDisp
  unfold NoCtx at h
  cases hpc : w.pc
  case idle =>
    revert hi
    simp only [autoAct, hpc]
    split
    · simp only [World.step, World.sched, hpc, World.finish]
      repeat' split
      all_goals (intro hi t e hr; first | cases hr | cases hi)
    · simp only [World.step, World.sched, hpc]
      repeat' split
      all_goals (intro hi t e hr; first | cases hr | cases hi)
  case d_mark t0 r0 =>
    have hc : w.ctxDone = false := by
      rcases h with h | h
      · rw [hpc] at h; cases h
      · exact h
    revert hi
    simp only [autoAct, hpc, World.step, World.sched, World.finishDE, World.finish, hc]
    simp only [show (Fault.none == Fault.before) = false from rfl,
      show (Fault.none == Fault.after) = false from rfl, Bool.false_eq_true, ↓reduceIte]
    cases hout : (w.obs.step (Obs.OOp.dispatch t0.id) none).2 with
    | err e' =>
      intro _ t e hr
      cases hr
      exact dispatch_out_isDefError _ _ _ hout
    | ok => intro hi; cases hi
    | task _ => intro hi; cases hi
    | tasks _ => intro hi; cases hi
  all_goals
    have hc : w.ctxDone = false := by
      rcases h with h | h
      · rw [hpc] at h; cases h
      · exact h
    revert hi
    simp only [autoAct, hpc]
    repeat' split
    all_goals simp only [World.step, World.sched, hpc, World.finish, World.afterPrologue, hc]
    all_goals (repeat' split)
    all_goals
      intro hi t e hr
      first
        | (cases hr; done)
        | (cases hi; done)
        | (cases hr; rfl)
        | (have hi' : w.pc = .idle := hi; rw [hpc] at hi'; cases hi')
        | (cases hr; exfalso; simp_all; done)

/-- one round of the fair fault-free driver never ends with a retryable `DispatchErr` -/
theorem round_noRetryDisp {w : World} (hpc : w.pc = .idle) : NoRetryDisp (driveRound w) :=
  drive_induct (Q := NoCtx) (R := NoRetryDisp) (fun _ h => h.auto)
    (fun _ h hi => noRetryDisp_end h hi) 12 w (Or.inl hpc) (rank_le w)

/-- NO TASK IS LOST. After one round of the fair fault-free driver from a world that satisfies the
invariants and is between two calls, every task stored as `dispatched` has had its work function
started. (Before the round there may be one that has not: the one named by a retryable
`DispatchErr`, `C20_recovery_idle_partial`; the round is then the `Retry` that starts it.) -/
theorem round_none_lost {w : World} (hL : LiveInv w) (hD : DispInv w) (hpc : w.pc = .idle) :
    ∀ u ∈ (driveRound w).obs.repo.tasks, u.state = .dispatched → Started (driveRound w) u.id := by
  intro u hu hs
  have hD' : DispInv (driveRound w) := hD.drive hL 12
  have hN := round_noRetryDisp hpc
  rcases hD' u hu hs with h | h
  · exact h
  · have hi := driveRound_idle w
    have : ∃ t e, (driveRound w).ret = .dispatchErr t e ∧ World.isDefError e = false ∧ t.id = u.id := by
      simpa [HeldDisp, hi] using h
    obtain ⟨t, e, h1, h2, _⟩ := this
    have := hN t e h1
    rw [h2] at this
    cases this

/-- the same for any number (≥ 1) of further rounds -/
theorem rounds_invariants {w : World} (hL : LiveInv w) (hS : StartedOk w) (hD : DispInv w)
    (hpc : w.pc = .idle) (n : Nat) :
    LiveInv (rounds n w) ∧ StartedOk (rounds n w) ∧ DispInv (rounds n w) ∧ (rounds n w).pc = .idle := by
  induction n generalizing w with
  | zero => exact ⟨hL, hS, hD, hpc⟩
  | succ n ih =>
    have hR : RoundInv w := ⟨hL, hS, fun h => by rw [hpc] at h; cases h⟩
    exact ih (hR.drive 12).1 (hR.drive 12).2.1 (hD.drive hL 12) (driveRound_idle w)

theorem rounds_succ' (n : Nat) (w : World) : rounds (n + 1) w = driveRound (rounds n w) := by
  induction n generalizing w with
  | zero => rfl
  | succ n ih =>
    show rounds (n + 1) (driveRound w) = _
    rw [ih]
    rfl

theorem rounds_none_lost {w : World} (hL : LiveInv w) (hS : StartedOk w) (hD : DispInv w)
    (hpc : w.pc = .idle) (n : Nat) :
    ∀ u ∈ (rounds (n + 1) w).obs.repo.tasks, u.state = .dispatched →
      Started (rounds (n + 1) w) u.id := by
  obtain ⟨h1, _, h3, h4⟩ := rounds_invariants hL hS hD hpc n
  rw [rounds_succ']
  exact round_none_lost h1 h3 h4

/-! ## Record consistency (C12) along scripts

`Retry(DispatchErr)` of a task that is neither scheduled nor dispatched is refused *because* the
record's timestamps say so (`def.ErrKind`); that the timestamps agree with the state is the C12
consistency of the stored records, kept by every action of a script. -/

/-- the record is consistent (state / timestamps / error text) and has a non-empty id -/
def TaskFine (u : Task) : Prop := u.consistent = true ∧ u.id ≠ ""

def ConsInv (w : World) : Prop := ∀ u ∈ w.obs.repo.tasks, TaskFine u

theorem fine_update {t : Task} (p : Param) (h : TaskFine t) : TaskFine (t.update p) := by
  obtain ⟨hc, hid⟩ := h
  refine ⟨?_, hid⟩
  unfold Task.consistent at hc ⊢
  simp only [Task.update, Task.normalizeTime] at hc ⊢
  cases hs : t.state <;> simp_all

theorem fine_cancel {t : Task} (x : Time) (hs : t.state = .scheduled) (h : TaskFine t) :
    TaskFine { t with state := .cancelled, cancelledAt := some x } := by
  obtain ⟨hc, hid⟩ := h
  refine ⟨?_, hid⟩
  unfold Task.consistent at hc ⊢
  simp_all

theorem fine_dispatch {t : Task} (x : Time) (hs : t.state = .scheduled) (h : TaskFine t) :
    TaskFine { t with state := .dispatched, dispatchedAt := some x } := by
  obtain ⟨hc, hid⟩ := h
  refine ⟨?_, hid⟩
  unfold Task.consistent at hc ⊢
  simp_all

theorem fine_done {t : Task} (now : Time) (err : Option String) (hs : t.state = .dispatched)
    (h : TaskFine t) : TaskFine (doneRecord now err t) := by
  obtain ⟨hc, hid⟩ := h
  refine ⟨?_, by rw [doneRecord_id]; exact hid⟩
  unfold Task.consistent at hc ⊢
  cases err <;> simp_all [doneRecord]

theorem fine_toTask (p : Param) (id : String) (now : Time) (hv : (p.toTask id now).isValid = true) :
    TaskFine (p.toTask id now) := by
  refine ⟨?_, ?_⟩
  · simp [Task.consistent, Param.toTask, Task.update, Task.normalizeTime, Task.blank]
  · unfold Task.isValid at hv
    simp only [Bool.and_eq_true, bne_iff_ne, ne_eq] at hv
    have := hv.1.1.1
    simpa [Param.toTask, Task.update, Task.normalizeTime, Task.blank] using this

theorem fine_of_mutate {r : Repo} {now : Time} (hok : TasksOk r.tasks now)
    (h : ∀ u ∈ r.tasks, TaskFine u) (id : String) (F : Task → Task)
    (hF : ∀ t, t.state = .scheduled → TaskFine t → TaskFine (F t)) :
    ∀ u' ∈ (Repo.mutateScheduled r id F).1.tasks, TaskFine u' := by
  rcases mutate_out r id F with ho | ⟨_, he⟩
  · obtain ⟨g, h1, h2⟩ := mutate_ok hok id F (by rw [ho]; rfl)
    intro u' hu'
    rw [h1] at hu'
    obtain ⟨u, hu, rfl⟩ := List.mem_map.1 hu'
    rcases h2 u hu with e | ⟨_, hs, e⟩
    · rw [e]; exact h u hu
    · rw [e]; exact hF u hs (h u hu)
  · rw [he]; exact h

theorem fine_of_done {r : Repo} {now0 : Time} (hok : TasksOk r.tasks now0)
    (h : ∀ u ∈ r.tasks, TaskFine u) (now : Time) (id : String) (err : Option String) :
    ∀ u' ∈ (Repo.step {} r now (.done id err)).1.tasks, TaskFine u' := by
  cases hl : r.lookup id with
  | none => rw [done_step_missing _ _ _ _ hl]; exact h
  | some t0 =>
    by_cases hs : t0.state = .dispatched
    · rw [done_step_dispatched _ _ _ _ hl hs]
      intro u' hu'
      simp only [Repo.replace, List.mem_map] at hu'
      obtain ⟨u, hu, rfl⟩ := hu'
      by_cases hid : u.id = id
      · have := hok.lookup (t0 := t0) hl hu hid
        subst this
        simp only [hid, beq_self_eq_true, ↓reduceIte]
        exact fine_done _ _ hs (h u hu)
      · have : (u.id == id) = false := by simpa using hid
        simp only [this, Bool.false_eq_true, ↓reduceIte]
        exact h u hu
    · have hne : (t0.state != St.dispatched) = true := by simp [hs]
      have : (Repo.step {} r now (.done id err)).1 = r := by
        simp only [Repo.step, hl, hne, ↓reduceIte]
        split <;> rfl
      rw [this]; exact h

theorem fine_dispatch_step {o : Obs} (hok : TasksOk o.repo.tasks o.clock.now)
    (h : ∀ u ∈ o.repo.tasks, TaskFine u) (id : String) (f : Option Err) :
    ∀ u' ∈ (o.step (.dispatch id) f).1.repo.tasks, TaskFine u' := by
  intro u' hu'
  simp only [Obs.step, Repo.step] at hu'
  rcases mem_ite_fst_repo hu' with hu' | hu'
  · exact h u' hu'
  · rw [hookDispatch_repo] at hu'
    exact fine_of_mutate hok h id _ (fun t hs ht => fine_dispatch _ hs ht) u' hu'

theorem fine_user_step {o : Obs} (hok : TasksOk o.repo.tasks o.clock.now)
    (h : ∀ u ∈ o.repo.tasks, TaskFine u) (op : Obs.OOp) (f : Option Err) (hu : op.isUser) :
    ∀ u' ∈ (o.step op f).1.repo.tasks, TaskFine u' := by
  intro u' hu'
  cases op with
  | add id p =>
    simp only [Obs.step, Repo.step] at hu'
    split at hu'
    · exact h u' hu'
    · next hv =>
      rcases mem_ite_fst_repo hu' with hu' | hu'
      · exact h u' hu'
      · rw [hookAdd_repo] at hu'
        simp only [List.mem_append, List.mem_singleton] at hu'
        rcases hu' with h' | h'
        · exact h u' h'
        · rw [h']
          exact fine_toTask _ _ _ (by simpa using hv)
  | update id p =>
    simp only [Obs.step, Repo.step] at hu'
    split at hu'
    · rcases mem_ite_fst_repo hu' with hu' | hu'
      · exact h u' hu'
      · rw [hookUpdate_repo] at hu'
        exact h u' hu'
    · rcases mem_ite_fst_repo hu' with hu' | hu'
      · exact h u' hu'
      · rw [hookUpdate_repo] at hu'
        exact fine_of_mutate hok h id _ (fun t _ ht => fine_update _ ht) u' hu'
  | cancel id =>
    simp only [Obs.step, Repo.step] at hu'
    rcases mem_ite_fst_repo hu' with hu' | hu'
    · exact h u' hu'
    · rw [hookCancel_repo] at hu'
      exact fine_of_mutate hok h id _ (fun t hs ht => fine_cancel _ hs ht) u' hu'
  | dispatch _ => exact absurd hu id
  | start => exact absurd hu id
  | stop => exact absurd hu id
  | advance _ => exact absurd hu id
  | fire => exact absurd hu id

/-- the only writes of the scheduler: `MarkAsDone` and `MarkAsDispatched` -/
theorem sched_repo_cases (w : World) (a : SAct) :
    (w.sched a).1.obs.repo = w.obs.repo ∨
    (∃ id err, (w.sched a).1.obs.repo =
      (Repo.step {} w.obs.repo w.obs.clock.now (.done id err)).1) ∨
    (∃ id hf, (w.sched a).1.obs.repo = (w.obs.step (.dispatch id) hf).1.repo) := by
  cases hpc : w.pc <;> cases a <;> simp only [World.sched, hpc]
  all_goals
    try unfold World.afterPrologue
    try unfold World.finish
    try dsimp only
    repeat' split
    all_goals first
      | exact Or.inl trivial
      | exact Or.inl rfl
      | exact Or.inl (startTimer_repo _ _)
      | exact Or.inr (Or.inl ⟨_, _, rfl⟩)
      | exact Or.inr (Or.inr ⟨_, _, rfl⟩)
      | exact Or.inr (Or.inr ⟨_, none, (dispatch_step_repo_core _ _ _).symm⟩)

theorem ConsInv.step {w : World} (hL : LiveInv w) (h : ConsInv w) (a : Act)
    (hu : World.UserOk w a) : ConsInv (w.step a) := by
  have hok := hL.tasksOk
  cases a with
  | sched a =>
    show ∀ u ∈ (w.sched a).1.obs.repo.tasks, TaskFine u
    rcases sched_repo_cases w a with e | ⟨id, err, e⟩ | ⟨id, hf, e⟩
    · rw [e]; exact h
    · rw [e]; exact fine_of_done hok h _ _ _
    · rw [e]; exact fine_dispatch_step hok h _ _
  | user op hf =>
    have ⟨hu1, _⟩ := userOk_cases hu
    exact fine_user_step hok h op hf hu1
  | advance t => exact h
  | complete id o =>
    simp only [World.step]
    split <;> exact h

theorem ConsInv.init (t0 : Time) : ConsInv (World.init' t0) := by
  intro u hu
  have : (World.init' t0).obs.repo = {} := startTimer_repo _ none
  rw [this] at hu
  cases hu

theorem ConsInv.run {w : World} (hL : LiveInv w) (h : ConsInv w) (acts : List Act)
    (hs : World.Script w acts) : ConsInv (w.run acts) := by
  induction acts generalizing w with
  | nil => exact h
  | cons a rest ih => exact ih (hL.step a hs.1 hs.2.1) (h.step hL a hs.1) hs.2.2

theorem ConsInv.drive {w : World} (hL : LiveInv w) (h : ConsInv w) (n : Nat) :
    ConsInv (drive n w) := by
  induction n generalizing w with
  | zero => exact h
  | succ n ih =>
    have hL' := hL.step (autoAct w) (autoAct_ok w).1 (autoAct_ok w).2
    have h' := h.step hL (autoAct w) (autoAct_ok w).1
    simp only [Live.drive]
    split
    · exact h'
    · exact ih hL' h'

theorem ConsInv.lookup {w : World} (h : ConsInv w) {id : String} {u : Task}
    (hl : w.obs.repo.lookup id = some u) : TaskFine u :=
  h u (List.mem_of_find?_eq_some hl)

theorem ConsInv.lookup_empty {w : World} (h : ConsInv w) : w.obs.repo.lookup "" = none := by
  cases hl : w.obs.repo.lookup "" with
  | none => rfl
  | some u =>
    have hid : u.id = "" := by
      have := List.find?_some hl
      simpa using this
    exact absurd hid (h.lookup hl).2

/-- a consistent record that is neither scheduled nor dispatched reads a verdict -/
theorem errKindMutate_of_fine {u : Task} (h : TaskFine u) (hs : u.state ≠ .scheduled)
    (hs' : u.state ≠ .dispatched) : ∃ e', errKindMutate u = some e' := by
  have hc := h.1
  unfold Task.consistent at hc
  cases hst : u.state
  · exact absurd hst hs
  · exact absurd hst hs'
  · exact ⟨_, errKindMutate_cancelled hst h.1⟩
  · simp only [hst, Bool.and_eq_true] at hc
    exact ⟨.alreadyDone, by simp [errKindMutate, errKind, hc.1.2]⟩
  · simp only [hst, Bool.and_eq_true] at hc
    exact ⟨.alreadyDone, by simp [errKindMutate, errKind, hc.2]⟩

/-- `Retry(DispatchErr t e)` — TOTAL description. From a world between two calls that satisfies the
invariants, with a retryable `DispatchErr t e`, one round of the fair fault-free driver either
  (run)     starts the work function of `t.id` (log grows by exactly its entry, the record is in state
            dispatched and is the stored one, `Dispatched t.id`), which happens iff the task is stored
            as scheduled or dispatched, or
  (verdict) ends with a `DispatchErr` whose error is a repository verdict (not retryable), having run
            nothing and written nothing — the task was cancelled / finished / removed meanwhile. -/
theorem round_retry_dispatchErr_total {w : World} {t : Task} {e : Err} (hL : LiveInv w)
    (hC : ConsInv w) (hpc : w.pc = .idle) (hr : w.ret = .dispatchErr t e)
    (hq : World.isDefError e = false) :
    ((∃ u, w.obs.repo.lookup t.id = some u ∧ (u.state = .scheduled ∨ u.state = .dispatched)) ∧
      ∃ cur, (driveRound w).log = w.log ++ [{ id := t.id, at_ := w.obs.clock.now, task := cur }] ∧
        cur.state = .dispatched ∧ (driveRound w).obs.repo.lookup t.id = some cur ∧
        (driveRound w).ret = .dispatched t.id ∧
        (driveRound w).running = w.running ++ [(t.id, cur)]) ∨
    ((¬ ∃ u, w.obs.repo.lookup t.id = some u ∧ (u.state = .scheduled ∨ u.state = .dispatched)) ∧
      ∃ t' e', (driveRound w).ret = .dispatchErr t' e' ∧ World.isDefError e' = true ∧
        (driveRound w).log = w.log ∧ (driveRound w).running = w.running ∧
        (driveRound w).obs = w.obs) := by
  have hfix : w.fix.retryMarks = true := by rw [hL.fix]
  have hg : w.getNextErr = true := hL.dispatchErr_restart hpc hr
  cases hl : w.obs.repo.lookup t.id with
  | none =>
    right
    rw [round_retry_missing hpc hfix hr hq hg hl hC.lookup_empty]
    exact ⟨fun ⟨u, h, _⟩ => (by cases h), _, _, rfl, rfl, rfl, rfl, rfl⟩
  | some u =>
    by_cases hs : u.state = .scheduled
    · left
      refine ⟨⟨u, rfl, Or.inl hs⟩, ?_⟩
      rw [round_retry_mark hpc hfix hr hq hl hs]
      refine ⟨_, rfl, rfl, ?_, rfl, rfl⟩
      exact (dispatch_step_scheduled w.obs t.id none hl hs).2
    · by_cases hs' : u.state = .dispatched
      · left
        refine ⟨⟨u, rfl, Or.inr hs'⟩, ?_⟩
        rw [round_retry_skip hpc hfix hr hq hl hs']
        exact ⟨_, rfl, hs', hl, rfl, rfl⟩
      · right
        obtain ⟨e', hk⟩ := errKindMutate_of_fine (hC.lookup hl) hs hs'
        rw [round_retry_refused hpc hfix hr hq hg hl hs hs' hk]
        refine ⟨?_, _, _, rfl, errKindMutate_isDefError hk, rfl, rfl, rfl⟩
        rintro ⟨u', h, h'⟩
        cases h
        rcases h' with h' | h'
        · exact hs h'
        · exact hs' h'

theorem errKindMarkAsDone_isDefError {u : Task} {e' : Err} (hk : errKindMarkAsDone u = some e') :
    World.isDefError e' = true := by
  unfold errKindMarkAsDone errKind at hk
  simp only [Bool.not_false, Bool.true_and, Bool.not_true, Bool.false_and, Bool.false_eq_true,
    ↓reduceIte] at hk
  repeat' split at hk
  all_goals first | (cases hk; rfl) | cases hk

/-- a refused `MarkAsDone` changes nothing and answers `ok` (record without verdict; unreachable
under C12) or a repository verdict -/
theorem done_step_refused (r : Repo) (now : Time) (id : String) (err : Option String) {u : Task}
    (hl : r.lookup id = some u) (hs : u.state ≠ .dispatched) :
    ∃ out, Repo.step {} r now (.done id err) = (r, out) ∧
      (out = .ok ∨ ∃ e', out = .err e' ∧ World.isDefError e' = true) := by
  have hne : (u.state != St.dispatched) = true := by simp [hs]
  simp only [Repo.step, hl, hne, ↓reduceIte]
  cases hk : errKindMarkAsDone u with
  | none => exact ⟨_, rfl, Or.inl rfl⟩
  | some k => exact ⟨_, rfl, Or.inr ⟨k, rfl, errKindMarkAsDone_isDefError hk⟩⟩

/-- `Retry(TaskDone id o (some e))` — TOTAL description. One round of the fair fault-free driver starts
no work function and leaves hook and clock alone, and either
  (record)  the task is stored as dispatched: the result is recorded, `Zero`; or
  (verdict) it is not: nothing is written, and the round ends with `Zero` (`ErrAlreadyDone` is
            swallowed: the failed attempt had taken effect) or with `TaskDone id o (some e')`, `e'` a
            repository verdict — not retryable. -/
theorem round_retry_done_total {w : World} {id : String} {o : Outcome} {e : Err}
    (hpc : w.pc = .idle) (hr : w.ret = .taskDone id o (some e)) (hq : World.isDefError e = false) :
    (driveRound w).pc = .idle ∧ (driveRound w).log = w.log ∧ (driveRound w).running = w.running ∧
    (driveRound w).obs.hook = w.obs.hook ∧ (driveRound w).obs.clock = w.obs.clock ∧
    (((∃ u, w.obs.repo.lookup id = some u ∧ u.state = .dispatched) ∧
        driveRound w = afterRetryDone w id o) ∨
     ((¬ ∃ u, w.obs.repo.lookup id = some u ∧ u.state = .dispatched) ∧
        (driveRound w).obs = w.obs ∧
        ((driveRound w).ret = .zero ∨
          ∃ e', (driveRound w).ret = .taskDone id o (some e') ∧ World.isDefError e' = true))) := by
  cases hl : w.obs.repo.lookup id with
  | none =>
    rw [round_retry_done_missing hpc hr hq hl]
    exact ⟨rfl, rfl, rfl, rfl, rfl, Or.inr ⟨fun ⟨u, h, _⟩ => (by cases h), rfl,
      Or.inr ⟨_, rfl, rfl⟩⟩⟩
  | some u =>
    by_cases hs : u.state = .dispatched
    · rw [round_retry_done hpc hr hq hl hs]
      exact ⟨rfl, rfl, rfl, rfl, rfl, Or.inl ⟨⟨u, rfl, hs⟩, rfl⟩⟩
    · obtain ⟨out, h1, h2⟩ := done_step_refused w.obs.repo w.obs.clock.now id (World.outcomeErr o) hl hs
      rw [round_retry_done_gen hpc hr hq h1]
      refine ⟨rfl, rfl, rfl, rfl, rfl, Or.inr ⟨?_, rfl, ?_⟩⟩
      · rintro ⟨u', h, h'⟩
        cases h
        exact hs h'
      · rcases h2 with h2 | ⟨e', h2, h3⟩
        · left; rw [h2]; rfl
        · rw [h2]
          by_cases he : e' = .alreadyDone
          · left; simp [doneRet, he]
          · right; exact ⟨e', by simp [doneRet, he], h3⟩

/-! ## One fault-free round leaves nothing to retry -/

/-- at the two `LastTimerUpdateError()` reads that follow a restart, the (fault-free) restart has
cleared the error -/
def TimerOk (w : World) : Prop :=
  (w.pc = .s_lastErr1 ∨ w.pc = .r_lastErr) → w.obs.hook.lastErr = none

theorem TimerOk.auto {w : World} : TimerOk (w.step (autoAct w)) := by
  unfold TimerOk
  cases hpc : w.pc
  case s_start =>
    intro _
    simp only [autoAct, hpc, World.step, World.sched]
    exact startTimer_none_lastErr _
  case r_start =>
    intro _
    simp only [autoAct, hpc, World.step, World.sched]
    exact startTimer_none_lastErr _
  all_goals
    simp only [autoAct, hpc]
    repeat' split
    all_goals simp only [World.step, World.sched, hpc, World.finish, World.afterPrologue]
    all_goals (repeat' split)
    all_goals
      intro hh
      first
        | (rcases hh with hh | hh <;> cases hh)
        | (rcases hh with hh | hh <;>
            (have hh' : w.pc = _ := hh; rw [hpc] at hh'; cases hh'))

theorem done_out_isDefError (r : Repo) (now : Time) (id : String) (err : Option String) {e : Err}
    (h : (Repo.step {} r now (.done id err)).2 = .err e) : World.isDefError e = true := by
  cases hl : r.lookup id with
  | none =>
    rw [done_step_missing _ _ _ _ hl] at h
    cases h; rfl
  | some u =>
    by_cases hs : u.state = .dispatched
    · rw [done_step_dispatched _ _ _ _ hl hs] at h
      cases h
    · obtain ⟨out, h1, h2⟩ := done_step_refused r now id err hl hs
      rw [h1] at h
      rcases h2 with h2 | ⟨e', h2, h3⟩
      · rw [h2] at h; cases h
      · have h' : out = .err e := h
        rw [h2] at h'
        cases h'
        exact h3

/-- a fault-free call never returns a state that asks for a `Retry` -/
theorem notRetryable_end {w : World} (h : NoCtx w) (hT : TimerOk w)
    (hi : (w.step (autoAct w)).pc = .idle) : retryable (w.step (autoAct w)).ret = false := by
  unfold NoCtx at h
  unfold TimerOk at hT
  cases hpc : w.pc
  case idle =>
    revert hi
    simp only [autoAct, hpc]
    split
    · simp only [World.step, World.sched, hpc, World.finish]
      repeat' split
      all_goals (intro hi; first | rfl | cases hi)
    · simp only [World.step, World.sched, hpc]
      repeat' split
      all_goals (intro hi; first | rfl | cases hi)
  case d_mark t0 r0 =>
    have hc : w.ctxDone = false := by
      rcases h with h | h
      · rw [hpc] at h; cases h
      · exact h
    revert hi
    simp only [autoAct, hpc, World.step, World.sched, World.finishDE, World.finish, hc]
    simp only [show (Fault.none == Fault.before) = false from rfl,
      show (Fault.none == Fault.after) = false from rfl, Bool.false_eq_true, ↓reduceIte]
    cases hout : (w.obs.step (Obs.OOp.dispatch t0.id) none).2 with
    | err e' =>
      intro _
      simp [retryable, dispatch_out_isDefError _ _ _ hout]
    | ok => intro hi; cases hi
    | task _ => intro hi; cases hi
    | tasks _ => intro hi; cases hi
  case s_markDone id0 o0 =>
    have hc : w.ctxDone = false := by
      rcases h with h | h
      · rw [hpc] at h; cases h
      · exact h
    simp only [autoAct, hpc, World.step, World.sched, World.finish, hc]
    simp only [show (Fault.none == Fault.before) = false from rfl,
      show (Fault.none == Fault.after) = false from rfl, Bool.false_eq_true, ↓reduceIte]
    cases hout : (Repo.step {} w.obs.repo w.obs.clock.now
        (Op.done id0 (World.outcomeErr o0))).2 with
    | err e' => simp [retryable, done_out_isDefError _ _ _ _ hout]
    | ok => rfl
    | task _ => rfl
    | tasks _ => rfl
  case r_markDone id0 o0 =>
    have hc : w.ctxDone = false := by
      rcases h with h | h
      · rw [hpc] at h; cases h
      · exact h
    simp only [autoAct, hpc, World.step, World.sched, World.finish, hc]
    simp only [show (Fault.none == Fault.before) = false from rfl,
      show (Fault.none == Fault.after) = false from rfl, Bool.false_eq_true, ↓reduceIte]
    cases hout : (Repo.step {} w.obs.repo w.obs.clock.now
        (Op.done id0 (World.outcomeErr o0))).2 with
    | err e' =>
      simp only
      split
      · simp [retryable, done_out_isDefError _ _ _ _ hout]
      · rfl
    | ok => rfl
    | task _ => rfl
    | tasks _ => rfl
  case s_lastErr1 =>
    have hle := hT (Or.inl hpc)
    revert hi
    simp only [autoAct, hpc, World.step, World.sched, hle, World.afterPrologue]
    split <;> (intro hi; cases hi)
  case r_lastErr =>
    have hle := hT (Or.inr hpc)
    simp only [autoAct, hpc, World.step, World.sched, hle, World.finish]
    rfl
  all_goals
    have hc : w.ctxDone = false := by
      rcases h with h | h
      · rw [hpc] at h; cases h
      · exact h
    revert hi
    simp only [autoAct, hpc]
    repeat' split
    all_goals simp only [World.step, World.sched, hpc, World.finish, World.afterPrologue, hc]
    all_goals (repeat' split)
    all_goals
      intro hi
      first
        | rfl
        | (cases hi; done)
        | (have hi' : w.pc = .idle := hi; rw [hpc] at hi'; cases hi')
        | (exfalso; simp_all; done)

/-- RECOVERY COMPLETES IN ONE ROUND: whatever state the driver held, the state returned by one round
of the fair fault-free driver does not ask for a `Retry` — the next round is an ordinary `Step`. -/
theorem round_not_retryable {w : World} (hpc : w.pc = .idle) :
    retryable (driveRound w).ret = false :=
  drive_induct (Q := fun w => NoCtx w ∧ TimerOk w) (R := fun w => retryable w.ret = false)
    (fun _ h => ⟨h.1.auto, TimerOk.auto⟩) (fun _ h hi => notRetryable_end h.1 h.2 hi) 12 w
    ⟨Or.inl hpc, fun h => by rcases h with h | h <;> (rw [hpc] at h; cases h)⟩ (rank_le w)

end Gk.Live
