/-
`heap.down`: frame lemmas and heap-order restoration.
-/
import Gk.Proofs.HeapUp

set_option linter.unusedSectionVars false

namespace Gk
namespace H
variable {α : Type} [DecidableEq α]

/-- The child chosen by `down` is a smallest child. -/
theorem child_min {lt : α → α → Bool} (o : LtOrder lt) (arr : Array α) (i n : Nat)
    (hn : 2 * i + 1 < n ∧ n ≤ arr.size) (j : Nat) (hj : j < arr.size) (h0 : 0 < j) (hjn : j < n)
    (hp : (j-1)/2 = i) :
    lt arr[j] (arr[child lt arr i n hn]'(by have := child_spec lt arr i n hn; omega)) = false := by
  unfold child
  split
  · next h2 =>
    split
    · next hlt =>
      by_cases e : j = 2*i+2
      · subst e; exact o.irrefl _
      · have e' : j = 2*i+1 := by omega
        subst e'; exact o.asymm hlt
    · next hlt =>
      by_cases e : j = 2*i+2
      · subst e; simpa using hlt
      · have e' : j = 2*i+1 := by omega
        subst e'; exact o.irrefl _
  · have e' : j = 2*i+1 := by omega
    subst e'; exact o.irrefl _

theorem down_step {lt : α → α → Bool} (o : LtOrder lt) {arr : Array α} {i c n : Nat}
    (hc : c < arr.size) (hcn : c < n) (h0 : 0 < c) (hci : (c-1)/2 = i)
    (he : HeapExceptP lt arr i n)
    (hmin : ∀ j (hj : j < arr.size), 0 < j → j < n → (j-1)/2 = i → lt arr[j] arr[c] = false)
    (hlt : lt arr[c] (arr[i]'(by omega)) = true) :
    HeapExceptP lt (arr.swap i c (by omega) hc) c n ∧
      ParentOk lt (arr.swap i c (by omega) hc) c n := by
  refine ⟨⟨?_, ?_⟩, ?_⟩
  · intro j hj h0j hjn hjc hpc
    have hj' : j < arr.size := by simpa using hj
    simp only [Array.getElem_swap]
    by_cases hji : j = i
    · subst hji
      have e1 : (j-1)/2 ≠ j := by omega
      simp only [hjc, e1, hpc, if_true, if_false]
      exact he.2 c hc h0 hcn hci h0j
    · by_cases hpi : (j-1)/2 = i
      · simp only [hji, hjc, hpi, if_false, if_true]
        exact hmin j hj' h0j hjn hpi
      · simp only [hji, hjc, hpi, hpc, if_false]
        exact he.1 j hj' h0j hjn hji hpi
  · intro j hj h0j hjn hpc _
    have hj' : j < arr.size := by simpa using hj
    have e1 : j ≠ i := by omega
    have e2 : j ≠ c := by omega
    simp only [Array.getElem_swap]
    simp only [e1, e2, hci, if_false, if_true]
    have := he.1 j hj' h0j hjn e1 (by omega)
    simp only [hpc] at this
    exact this
  · intro _ _ _
    have e1 : c ≠ i := by omega
    simp only [Array.getElem_swap]
    simp only [e1, hci, if_false, if_true]
    exact o.asymm hlt

theorem down_stop {lt : α → α → Bool} (o : LtOrder lt) {arr : Array α} {i c n : Nat}
    (hc : c < arr.size) (hci : (c-1)/2 = i) (h0 : 0 < c)
    (hmin : ∀ j (hj : j < arr.size), 0 < j → j < n → (j-1)/2 = i → lt arr[j] arr[c] = false)
    (hlt : lt arr[c] (arr[i]'(by omega)) = false) :
    ChildrenOk lt arr i n := by
  intro j hj h0j hjn hpi
  exact o.ntrans _ _ _ (hmin j hj h0j hjn hpi) hlt

theorem childrenOk_of_leaf {lt : α → α → Bool} {arr : Array α} {i n : Nat} (h : ¬ 2 * i + 1 < n) :
    ChildrenOk lt arr i n := by
  intro j hj h0j hjn hpi
  omega

/-! ### `down` on `H` -/

theorem down_frame (lt : α → α → Bool) (h : H α) (i n : Nat) : Frame h (down lt h i n).1 := by
  fun_induction down lt h i n with
  | case1 h i hn hc hi hj hlt ih => exact (swap_frame h _ _ hi hj).trans ih
  | case2 h i hn hc hi hj hlt => exact Frame.refl _
  | case3 h i hn => exact Frame.refl _

@[simp] theorem down_size (lt : α → α → Bool) (h : H α) (i n : Nat) :
    (down lt h i n).1.arr.size = h.arr.size := (down_frame lt h i n).size_eq

theorem down_snd_ge (lt : α → α → Bool) (h : H α) (i n : Nat) : i ≤ (down lt h i n).2 := by
  fun_induction down lt h i n with
  | case1 h i hn hc hi hj hlt ih => omega
  | case2 h i hn hc hi hj hlt => exact Nat.le_refl _
  | case3 h i hn => exact Nat.le_refl _

/-- `down` from `i` on the prefix `n` only touches positions in `[i, n)`. -/
theorem down_get_out (lt : α → α → Bool) (h : H α) (i n : Nat) (k : Nat) (hik : k < i ∨ n ≤ k)
    (hk : k < h.arr.size) (hk' : k < (down lt h i n).1.arr.size) :
    (down lt h i n).1.arr[k] = h.arr[k] := by
  fun_induction down lt h i n with
  | case1 h i hn hc hi hj hlt ih =>
    rw [ih (by omega) (by simpa using hk)]
    simp only [swap_arr, Array.getElem_swap]
    have e1 : k ≠ i := by omega
    have e2 : k ≠ child lt h.arr i n hn := by omega
    simp only [e1, e2, if_false]
  | case2 h i hn hc hi hj hlt => rfl
  | case3 h i hn => rfl

/-- `down` restores the heap order when the only possibly bad pairs are `(child of i, i)`. -/
theorem down_heap {lt : α → α → Bool} (o : LtOrder lt) (h : H α) (i n : Nat)
    (hn' : n ≤ h.arr.size) (he : HeapExceptP lt h.arr i n) (hp : ParentOk lt h.arr i n) :
    HeapP lt (down lt h i n).1.arr n := by
  fun_induction down lt h i n with
  | case1 h i hn hc hi hj hlt ih =>
    have := down_step (n := n) o hj (by omega) (by omega) (by omega) he
      (fun j hj h0 hjn hpi => child_min o h.arr i n hn j hj h0 hjn hpi) hlt
    exact ih (by simpa using hn') this.1 this.2
  | case2 h i hn hc hi hj hlt =>
    refine heapP_of_except he ?_ hp
    exact down_stop o hj (by omega) (by omega)
      (fun j hj h0 hjn hpi => child_min o h.arr i n hn j hj h0 hjn hpi) (by simpa using hlt)
  | case3 h i hn =>
    by_cases h1 : 2 * i + 1 < n
    · omega
    · exact heapP_of_except he (childrenOk_of_leaf h1) hp

/-- The sift performed by `heap.Fix` and `heap.Remove`: `down`, then `up` if `down` did not move
the element. -/
def sift (lt : α → α → Bool) (h : H α) (i n : Nat) : H α :=
  if (down lt h i n).2 > i then (down lt h i n).1 else up lt (down lt h i n).1 i

theorem sift_frame (lt : α → α → Bool) (h : H α) (i n : Nat) : Frame h (sift lt h i n) := by
  unfold sift
  split
  · exact down_frame lt h i n
  · exact (down_frame lt h i n).trans (up_frame lt _ i)

@[simp] theorem sift_size (lt : α → α → Bool) (h : H α) (i n : Nat) :
    (sift lt h i n).arr.size = h.arr.size := (sift_frame lt h i n).size_eq

theorem sift_get_ge (lt : α → α → Bool) (h : H α) (i n : Nat) (hin : i < n) (k : Nat) (hnk : n ≤ k)
    (hk : k < h.arr.size) (hk' : k < (sift lt h i n).arr.size) :
    (sift lt h i n).arr[k] = h.arr[k] := by
  unfold sift at hk' ⊢
  split
  · exact down_get_out lt h i n k (Or.inr hnk) hk _
  · rw [up_get_gt lt _ i k (by omega) (by simpa using hk)]
    exact down_get_out lt h i n k (Or.inr hnk) hk _

theorem sift_heap {lt : α → α → Bool} (o : LtOrder lt) (h : H α) (i n : Nat)
    (hin : i < n) (hn : n ≤ h.arr.size) (he : HeapExceptP lt h.arr i n) :
    HeapP lt (sift lt h i n).arr n := by
  unfold sift
  rw [down]
  split
  · next hcn =>
    have hcs := child_spec lt h.arr i n hcn
    have hmin := fun j hj h0 hjn hpi => child_min o h.arr i n hcn j hj h0 hjn hpi
    simp only
    split
    · next hlt =>
      have hge := down_snd_ge lt (h.swap i (child lt h.arr i n hcn) (by omega) (by omega))
        (child lt h.arr i n hcn) n
      rw [if_pos (by omega)]
      have := down_step (n := n) o (by omega) (by omega) (by omega) (by omega) he hmin hlt
      exact down_heap o _ _ _ (by simpa using hn) this.1 this.2
    · next hlt =>
      rw [if_neg (by simp)]
      refine up_heap o h i n hin hn he ?_
      exact down_stop o (by omega) (by omega) (by omega) hmin (by simpa using hlt)
  · next hcn =>
    rw [if_neg (by simp)]
    exact up_heap o h i n hin hn he (childrenOk_of_leaf (by omega))

end H
end Gk
