/-
Invariants of the scheduler automaton `Gk.World` (C03, C04, C06, C20).

Layer 1: how one repository write changes the task stored under each id (`stepTask`).
Layer 2: what a `World.step` does to the repository / the clock (`repoOp`, `step_repo`, `step_now`).
Layer 3: the control invariant `Inv` (at most once, marked before entry, completion bookkeeping),
         the timing invariant `TInv` (C03 under "no postponement of the held task") and the ghost
         invariant `GInv` (every started task was marked by this run).
-/
import Gk.World
import Gk.Proofs.Repo
import Gk.Props.C01
namespace Gk

/-! ## Setting -/

/-- users only add / update / cancel and start / stop the repository's timer (the scheduler is the
only caller of MarkAsDispatched / MarkAsDone); ids given to add are fresh.

`start` / `stop` (`Repository.StartTimer` / `StopTimer`, called by the application, see
`example/main.go`) are allowed because from `World.init` the timer is not started and without a
started timer no task is ever announced: without them every theorem below would be vacuous. -/
def World.UserOk (w : World) : Act → Prop
  | .user (.add id _) _ => ∀ t ∈ w.obs.repo.tasks, t.id ≠ id
  | .user (.update ..) _ | .user (.cancel _) _ | .user .start _ | .user .stop _ => True
  | .user _ _ => False
  | _ => True

instance World.decUserOk (w : World) (a : Act) : Decidable (w.UserOk a) := by
  cases a with
  | user op hf => cases op <;> unfold World.UserOk <;> infer_instance
  | sched a => exact isTrue trivial
  | advance t => exact isTrue trivial
  | complete id o => exact isTrue trivial

/-- every action is `UserOk` in the state where it happens -/
def World.Script (w : World) : List Act → Prop
  | [] => True
  | a :: rest => w.UserOk a ∧ World.Script (w.step a) rest

instance World.decScript : (w : World) → (acts : List Act) → Decidable (w.Script acts)
  | _, [] => isTrue trivial
  | w, a :: rest =>
    have := World.decScript (w.step a) rest
    inferInstanceAs (Decidable (w.UserOk a ∧ World.Script (w.step a) rest))

/-- all fixes on, `hook.fixed = true`, empty repository, timer not started -/
def World.init (t0 : Time) : World := { obs := { clock := { now := t0 } } }

/-- the copy of a task the scheduler currently holds between reading it (`GetNext` / `GetById`) and
marking it dispatched: carried by the program counter, remembered in `lastTask`, or returned in a
`DispatchErr` state that awaits `Retry` -/
def World.held (w : World) : Option Task :=
  match w.pc with
  | .s_nextSched t | .d_wait t _ | .d_mark t _ | .d_get t | .r_getById t => some t
  | .idle =>
    match w.lastTask, w.ret with
    | some t, _ => some t
    | none, .dispatchErr t _ => some t
    | none, _ => none
  | _ => w.lastTask

def World.heldId (w : World) : Option String := w.held.map (·.id)

/-- the action changes the scheduled time of the task whose copy the scheduler holds
(the trigger of the open finding D3i) -/
def Act.postponesHeld (w : World) : Act → Bool
  | .user (.update id p) _ => w.heldId == some id && p.scheduledAt.isSome
  | _ => false

/-- no action of the script changes the scheduled time of the held task, in the state where it happens -/
def World.NoPostpone (w : World) : List Act → Prop
  | [] => True
  | a :: rest => a.postponesHeld w = false ∧ World.NoPostpone (w.step a) rest

instance World.decNoPostpone : (w : World) → (acts : List Act) → Decidable (w.NoPostpone acts)
  | _, [] => isTrue trivial
  | w, a :: rest =>
    have := World.decNoPostpone (w.step a) rest
    inferInstanceAs (Decidable (a.postponesHeld w = false ∧ World.NoPostpone (w.step a) rest))

theorem World.run_append (w : World) (xs ys : List Act) : w.run (xs ++ ys) = (w.run xs).run ys := by
  simp [World.run, List.foldl_append]

theorem World.run_cons (w : World) (a : Act) (rest : List Act) :
    w.run (a :: rest) = (w.step a).run rest := rfl

theorem World.script_append {w : World} {xs ys : List Act} :
    w.Script (xs ++ ys) ↔ w.Script xs ∧ (w.run xs).Script ys := by
  induction xs generalizing w with
  | nil => simp [World.Script, World.run]
  | cons a rest ih =>
    simp only [List.cons_append, World.Script, World.run_cons, ih, and_assoc]

theorem World.noPostpone_append {w : World} {xs ys : List Act} :
    w.NoPostpone (xs ++ ys) ↔ w.NoPostpone xs ∧ (w.run xs).NoPostpone ys := by
  induction xs generalizing w with
  | nil => simp [World.NoPostpone, World.run]
  | cons a rest ih =>
    simp only [List.cons_append, World.NoPostpone, World.run_cons, ih, and_assoc]

/-- the driver's retry discipline, per action: a `Step` is not begun while the last returned state is
a `TaskDone` whose `MarkAsDone` failed (it must be handed to `Retry`), and the non-error state
`TaskDone(id, context.Canceled, _)` is not handed to `Retry` -/
def World.retryOk (w : World) : Act → Bool
  | .sched .beginStep =>
    w.pc != .idle || (match w.ret with | .taskDone _ _ (some _) => false | _ => true)
  | .sched .beginRetry =>
    w.pc != .idle || (match w.ret with | .taskDone _ .ctxCanceled _ => false | _ => true)
  | _ => true

def World.RetryDiscipline (w : World) : List Act → Prop
  | [] => True
  | a :: rest => w.retryOk a = true ∧ World.RetryDiscipline (w.step a) rest

instance World.decRetryDiscipline : (w : World) → (acts : List Act) → Decidable (w.RetryDiscipline acts)
  | _, [] => isTrue trivial
  | w, a :: rest =>
    have := World.decRetryDiscipline (w.step a) rest
    inferInstanceAs (Decidable (w.retryOk a = true ∧ World.RetryDiscipline (w.step a) rest))

namespace WP

/-! ## Layer 1: lookups after a repository write -/

theorem find_map_replace (l : List Task) (i : String) (f : Task → Task) (hf : ∀ t, (f t).id = t.id)
    (id : String) :
    (l.map (fun t => if t.id == i then f t else t)).find? (·.id == id) =
      if id = i then (l.find? (·.id == i)).map f else l.find? (·.id == id) := by
  induction l with
  | nil => simp
  | cons x xs ih =>
    simp only [List.map_cons, List.find?_cons, ih]
    by_cases hx : x.id = i <;> by_cases hid : id = i
    · subst hid; simp [hx, hf]
    · have hb : (i == id) = false := by simpa using fun h : i = id => hid h.symm
      simp [hx, hid, hf, hb]
    · subst hid
      have hb : (x.id == id) = false := by simpa using hx
      simp [hb]
    · by_cases hxi : x.id = id <;> simp [hx, hid, hxi]

theorem lookup_replace (r : Repo) (i : String) (f : Task → Task) (hf : ∀ t, (f t).id = t.id)
    (id : String) :
    (r.replace i f).lookup id = if id = i then (r.lookup i).map f else r.lookup id :=
  find_map_replace r.tasks i f hf id

/-- a state in which the work function has been (or is about to be) started -/
def started (s : St) : Prop := s = .dispatched ∨ s = .done ∨ s = .err

def doneTask (now : Time) (e : Option String) (t : Task) : Task :=
  match e with
  | none => { t with state := .done, doneAt := some (normalize now) }
  | some msg => { t with state := .err, err := msg, doneAt := some (normalize now) }

/-- pointwise effect of a lifecycle write on a stored task, `id` is the id it is stored under -/
def stepOne (now : Time) (op : Op) (id : String) (t : Task) : Task :=
  match op with
  | .update i p =>
    if id = i ∧ p.validForUpdate = true ∧ t.state = .scheduled then t.update p.normalize else t
  | .cancel i =>
    if id = i ∧ t.state = .scheduled then
      { t with state := .cancelled, cancelledAt := some (normalize now) } else t
  | .dispatch i =>
    if id = i ∧ t.state = .scheduled then
      { t with state := .dispatched, dispatchedAt := some (normalize now) } else t
  | .done i e => if id = i ∧ t.state = .dispatched then doneTask now e t else t
  | _ => t

/-- what `add` stores under an id that was not stored -/
def stepNew (now : Time) (op : Op) (id : String) : Option Task :=
  match op with
  | .add i p =>
    if id = i ∧ (p.normalize.toTask i now).isValid = true then some (p.normalize.toTask i now) else none
  | _ => none

/-- pointwise effect of a lifecycle write on the lookup of `id` -/
def stepTask (now : Time) (op : Op) (id : String) : Option Task → Option Task
  | some t => some (stepOne now op id t)
  | none => stepNew now op id

/-- the five writes and the three reads -/
def plainOp : Op → Bool
  | .revert | .cancelDispatched | .deleteEnded => false
  | _ => true

theorem lookup_mutate {r : Repo} (h : r.WF) (i : String) (f : Task → Task) (hf : ∀ t, (f t).id = t.id)
    (id : String) :
    (r.mutateScheduled i f).1.lookup id =
      match r.lookup id with
      | some t => if id = i ∧ t.state = .scheduled then some (f t) else some t
      | none => none := by
  rw [mutateScheduled_spec h]
  cases hi : r.lookup i with
  | none =>
    simp only
    cases hl : r.lookup id with
    | none => rfl
    | some t =>
      have : id ≠ i := by rintro rfl; simp [hi] at hl
      simp [this]
  | some t0 =>
    by_cases hid : id = i
    · subst hid
      cases hs : t0.state <;> simp [hs, hi, lookup_replace, hf]
    · cases hs : t0.state <;> simp [hs, lookup_replace, hf, hid] <;> (cases r.lookup id <;> rfl)

theorem done_spec' {r : Repo} (h : r.WF) (now : Time) (id : String) (e : Option String) :
    Repo.step {} r now (.done id e) =
      match r.lookup id with
      | none => (r, .err .idNotFound)
      | some t =>
        match t.state with
        | .dispatched => (r.replace id (doneTask now e), .ok)
        | .scheduled => (r, .err .notDispatched)
        | .cancelled => (r, .err .alreadyCancelled)
        | .done | .err => (r, .err .alreadyDone) :=
  step_done_spec h now id e

theorem step_lookup {r : Repo} (h : r.WF) (now : Time) (op : Op) (hop : plainOp op = true) (id : String) :
    (Repo.step {} r now op).1.lookup id = stepTask now op id (r.lookup id) := by
  cases op with
  | add i p =>
    simp only [Repo.step]
    split
    · rename_i hv
      simp only [Bool.not_eq_true'] at hv
      cases hl : r.lookup id <;> simp [stepTask, stepOne, stepNew, hv]
    · rename_i hv
      simp only [Bool.not_eq_true', Bool.not_eq_false] at hv
      simp only [Repo.lookup, List.find?_append]
      cases hl : r.tasks.find? (fun x => x.id == id) with
      | some t => simp [stepTask, stepOne]
      | none =>
        by_cases hid : id = i
        · subst hid; simp [stepTask, stepNew, hv]
        · have : ¬ i = id := fun h => hid h.symm
          simp [stepTask, stepNew, hid, this]
  | get i => simp only [Repo.step]; split <;> (cases r.lookup id <;> rfl)
  | update i p =>
    simp only [Repo.step]
    split
    · rename_i hv
      simp only [Bool.not_eq_true'] at hv
      cases r.lookup id <;> simp [stepTask, stepOne, stepNew, hv]
    · rename_i hv
      simp only [Bool.not_eq_true', Bool.not_eq_false] at hv
      rw [lookup_mutate h i (fun t => t.update p.normalize) (fun _ => rfl) id]
      cases r.lookup id with
      | none => rfl
      | some t => simp only [stepTask, stepOne, hv, true_and]; split <;> rfl
  | cancel i =>
    simp only [Repo.step]
    rw [lookup_mutate h i (fun t => { t with state := .cancelled, cancelledAt := some (normalize now) })
      (fun _ => rfl) id]
    cases r.lookup id with
    | none => rfl
    | some t => simp only [stepTask, stepOne]; split <;> rfl
  | dispatch i =>
    simp only [Repo.step]
    rw [lookup_mutate h i (fun t => { t with state := .dispatched, dispatchedAt := some (normalize now) })
      (fun _ => rfl) id]
    cases r.lookup id with
    | none => rfl
    | some t => simp only [stepTask, stepOne]; split <;> rfl
  | done i e =>
    rw [done_spec' h]
    have hf : ∀ t : Task, (doneTask now e t).id = t.id := by intro t; cases e <;> rfl
    cases hi : r.lookup i with
    | none =>
      simp only
      cases hl : r.lookup id with
      | none => rfl
      | some t =>
        have : id ≠ i := by rintro rfl; simp [hi] at hl
        simp [stepTask, stepOne, this]
    | some t0 =>
      by_cases hid : id = i
      · subst hid
        cases hs : t0.state <;> simp [hs, hi, stepTask, stepOne, lookup_replace, hf]
      · cases hs : t0.state <;> simp only [hs, lookup_replace _ _ _ hf, hid, if_false] <;>
          (cases r.lookup id <;> simp [stepTask, stepOne, stepNew, hid])
  | find q o l => simp only [Repo.step]; cases r.lookup id <;> rfl
  | next => simp only [Repo.step]; split <;> (cases r.lookup id <;> rfl)
  | revert => cases hop
  | cancelDispatched => cases hop
  | deleteEnded => cases hop

/-! ## Layer 2: the hook never touches the repository or the reading of the clock -/

theorem stopAndDrain_now (c : Clock) : c.stopAndDrain.now = c.now := by
  unfold Clock.stopAndDrain; split <;> rfl

theorem fire_now (c : Clock) : c.fire.now = c.now := by
  unfold Clock.fire
  split
  · split <;> rfl
  · rfl

theorem update_now (o : Obs) (f : Option Err) : (o.update f).clock.now = o.clock.now := by
  unfold Obs.update
  split
  · rfl
  · simp only
    split
    · exact stopAndDrain_now _
    · split
      · simp only [Clock.reset, fire_now, stopAndDrain_now]
      · exact stopAndDrain_now _

theorem update_repo (o : Obs) (f : Option Err) : (o.update f).repo = o.repo := by
  unfold Obs.update
  split
  · rfl
  · simp only
    split
    · rfl
    · split <;> rfl

theorem hook_frame (o : Obs) (fault : Option Err) :
    (∀ p, (o.hookAdd p fault).repo = o.repo ∧ (o.hookAdd p fault).clock.now = o.clock.now) ∧
    (∀ id p, (o.hookUpdate id p fault).repo = o.repo ∧ (o.hookUpdate id p fault).clock.now = o.clock.now) ∧
    (∀ id, (o.hookCancel id fault).repo = o.repo ∧ (o.hookCancel id fault).clock.now = o.clock.now) ∧
    (∀ id, (o.hookDispatch id fault).repo = o.repo ∧ (o.hookDispatch id fault).clock.now = o.clock.now) := by
  refine ⟨fun p => ?_, fun id p => ?_, fun id => ?_, fun id => ?_⟩
  · unfold Obs.hookAdd
    repeat' split
    all_goals first | exact ⟨update_repo o fault, update_now o fault⟩ | exact ⟨rfl, rfl⟩
  · unfold Obs.hookUpdate
    simp only
    repeat' split
    all_goals first | exact ⟨update_repo o fault, update_now o fault⟩ | exact ⟨rfl, rfl⟩
  · unfold Obs.hookCancel
    repeat' split
    all_goals first | exact ⟨update_repo o fault, update_now o fault⟩ | exact ⟨rfl, rfl⟩
  · unfold Obs.hookDispatch
    repeat' split
    all_goals first | exact ⟨update_repo o fault, update_now o fault⟩ | exact ⟨rfl, rfl⟩

theorem startTimer_frame (o : Obs) (f : Option Err) :
    (o.startTimer f).repo = o.repo ∧ (o.startTimer f).clock.now = o.clock.now := by
  unfold Obs.startTimer
  exact ⟨update_repo _ f, update_now _ f⟩

theorem stopTimer_frame (o : Obs) : o.stopTimer.repo = o.repo ∧ o.stopTimer.clock.now = o.clock.now :=
  ⟨rfl, stopAndDrain_now _⟩

/-- the repository write behind an observable-repository mutation -/
def toOp : Obs.OOp → Option Op
  | .add id p => some (.add id p)
  | .update id p => some (.update id p)
  | .cancel id => some (.cancel id)
  | .dispatch id => some (.dispatch id)
  | _ => none

theorem obs_step (o : Obs) (op : Obs.OOp) (hf : Option Err) {rop : Op} (h : toOp op = some rop) :
    (o.step op hf).1.repo = (Repo.step {} o.repo o.clock.now rop).1 ∧
    (o.step op hf).2 = (Repo.step {} o.repo o.clock.now rop).2 ∧
    (o.step op hf).1.clock.now = o.clock.now := by
  obtain ⟨ha, hu, hc, hd⟩ := hook_frame
    { o with repo := (Repo.step {} o.repo o.clock.now rop).1 } hf
  cases op <;> simp only [toOp, Option.some.injEq, reduceCtorEq] at h <;> subst h <;>
    simp only [Obs.step] <;> split <;> rename_i he
  all_goals first
    | exact ⟨(C01_error_is_noop he).symm, rfl, rfl⟩
    | exact ⟨(ha _).1, rfl, (ha _).2⟩
    | exact ⟨(hu _ _).1, rfl, (hu _ _).2⟩
    | exact ⟨(hc _).1, rfl, (hc _).2⟩
    | exact ⟨(hd _).1, rfl, (hd _).2⟩

/-! ## Layer 2b: a relational presentation of `World.step`

Every branch of the big `match` of `World.sched` is an instance of one of the constructors below;
branches that differ only in fields no invariant looks at are merged. -/

/-- the task copy a program counter carries -/
def heldPc : Pc → Option Task
  | .s_nextSched t | .d_wait t _ | .d_mark t _ | .d_get t | .r_getById t => some t
  | _ => none

/-- control states in which the scheduler may be remembering an announced task (`lastTask`) -/
def mayRemember : Pc → Bool
  | .idle | .s_lastErr0 | .s_stop | .s_start | .s_lastErr1 | .r_stop | .r_start | .r_lastErr
  | .r_markDone .. => true
  | _ => false

def isDispatchErr : SS → Bool
  | .dispatchErr .. => true
  | _ => false

/-- side information of a `quiet` move that only the completion-bookkeeping invariant needs -/
def QuietQ (w : World) (a : SAct) (p : Pc) : Prop :=
  (∀ id o, w.pc ≠ .s_markDone id o ∧ w.pc ≠ .r_markDone id o ∧ p ≠ .s_markDone id o) ∧
  (w.pc = .idle → a = .beginStep ∨ (a = .beginRetry ∧
    ((∃ id o e, w.ret = .taskDone id o e ∧ p = .r_markDone id o) ∨ ∃ e, w.ret = .timerUpdateError e))) ∧
  (∀ id o, p = .r_markDone id o → w.pc = .idle ∧ a = .beginRetry ∧ ∃ e, w.ret = .taskDone id o e)

/-- side information of a `fin` move: a failed `MarkAsDone` returns `TaskDone(id, o, some _)` -/
def FinQ (w : World) (a : SAct) (s : SS) : Prop :=
  (∀ id o, (w.pc = .s_markDone id o ∨ w.pc = .r_markDone id o) → ∃ e, s = .taskDone id o (some e)) ∧
  (∀ id o e, s = .taskDone id o e → (w.pc = .s_markDone id o ∨ w.pc = .r_markDone id o)) ∧
  (w.pc = .idle → a = .beginRetry ∧ ∀ id o e, w.ret ≠ .taskDone id o e)

inductive WStep (w : World) : Act → World → Prop
  /-- a disabled action, or an action that only sets `stuck` -/
  | stuck (a : Act) : WStep w a { w with stuck := true }
  | cancelCtx : WStep w (.sched .cancelCtx) { w with ctxDone := true }
  /-- moves between control states that carry no task; the hook / timer may be touched -/
  | quiet (a : SAct) (o' : Obs) (p : Pc) (cd g : Bool)
      (ho : o'.repo = w.obs.repo) (hn : o'.clock.now = w.obs.clock.now)
      (hp : heldPc p = none) (hp' : p ≠ .idle)
      (hmr : mayRemember p = true ∨ w.lastTask = none ∨ mayRemember w.pc = false)
      (hq : QuietQ w a p) :
      WStep w (.sched a) { w with obs := o', pc := p, ctxDone := cd, getNextErr := g }
  /-- the prologue of `Step` finds the remembered task and goes on to dispatch it -/
  | prologue (a : SAct) (t : Task) (hl : w.lastTask = some t) (hp : heldPc w.pc = none)
      (hfrom : w.pc = .s_lastErr0 ∨ w.pc = .s_lastErr1) :
      WStep w (.sched a) { w with getNextErr := false, lastTask := none, pc := .d_wait t false }
  /-- `Step` / `Retry` return a state other than `DispatchErr`, no repository write -/
  | fin (a : SAct) (s : SS) (lt : Option Task) (g cd : Bool) (hlt : lt = w.lastTask ∨ lt = none)
      (hs : isDispatchErr s = false) (hq : FinQ w a s) :
      WStep w (.sched a) { w with lastTask := lt, getNextErr := g, ret := s, pc := .idle, ctxDone := cd }
  /-- the result branch of `Step` receives a completion -/
  | res (id : String) (o : Outcome) (x : String) (p : Pc) (s : SS)
      (hpc : w.pc = .s_select)
      (hfind : w.completed.find? (·.1 == id) = some (x, o))
      (hps : (p = .idle ∧ s = .taskDone id o none ∧ o = .ctxCanceled) ∨
             (p = .s_markDone id o ∧ s = w.ret ∧ o ≠ .ctxCanceled)) :
      WStep w (.sched (.selResult id))
        { w with completed := w.completed.filter (·.1 != id), reported := w.reported ++ [(id, o)],
                 ret := s, pc := p }
  | getNext (t : Task) (hpc : w.pc = .s_getNext) (hg : w.obs.repo.getNext = some t) :
      WStep w (.sched (.getNext .none)) { w with pc := .s_nextSched t }
  /-- `NextTask(t)` is announced: the due check passed -/
  | announce (t : Task) (hpc : w.pc = .s_nextSched t)
      (hdue : w.fix.dueCheck = true → t.scheduledAt ≤ w.obs.clock.now) :
      WStep w (.sched .nextScheduled)
        { w with lastTask := some t, getNextErr := false, ret := .nextTask (some t) none, pc := .idle }
  /-- `MarkAsDone` reached the repository (`Step`'s result branch or `Retry`) -/
  | markDone (f : Fault) (id : String) (o : Outcome) (s : SS)
      (hpc : w.pc = .s_markDone id o ∨ w.pc = .r_markDone id o)
      (hs : isDispatchErr s = false) (hs3 : s = .zero ∨ ∃ e, s = .taskDone id o e) :
      WStep w (.sched (.markDone f))
        { w with obs := { w.obs with repo :=
                   (Repo.step {} w.obs.repo w.obs.clock.now (.done id (World.outcomeErr o))).1 },
                 ret := s, pc := .idle }
  /-- `dispatchTask` / `Retry` fail before the work function is started, no repository write -/
  | derr (a : SAct) (t : Task) (e : Err) (g : Bool) (hpc : heldPc w.pc = some t) (hns : w.pc ≠ .s_nextSched t) :
      WStep w (.sched a) { w with ret := .dispatchErr t e, pc := .idle, getNextErr := g }
  | waitGet (t : Task) (hpc : w.pc = .d_wait t true) :
      WStep w (.sched (.waitWorker true)) { w with pc := .d_get t }
  | waitMark (t : Task) (hpc : w.pc = .d_wait t false) :
      WStep w (.sched (.waitWorker true)) { w with pc := .d_mark t false }
  /-- `MarkAsDispatched` reached the repository and refused / failed after taking effect -/
  | markErr (f : Fault) (hf : Option Err) (t : Task) (r : Bool) (e : Err) (hpc : w.pc = .d_mark t r)
      (hnb : f ≠ .before) (hcd : w.ctxDone = false)
      (he : f = .after ∨ (w.obs.step (.dispatch t.id) hf).2 = .err e) :
      WStep w (.sched (.markDispatched f hf))
        { w with obs := (w.obs.step (.dispatch t.id) hf).1, ret := .dispatchErr t e, pc := .idle,
                 getNextErr := true }
  | markOk (f : Fault) (hf : Option Err) (t : Task) (r : Bool) (hpc : w.pc = .d_mark t r)
      (hnb : f ≠ .before) (hcd : w.ctxDone = false)
      (hok : (w.obs.step (.dispatch t.id) hf).2.isErr = false) :
      WStep w (.sched (.markDispatched f hf))
        { w with obs := (w.obs.step (.dispatch t.id) hf).1, pc := .d_get t }
  /-- D21's trigger: `MarkAsDispatched` reached the CORE repository (which applied or refused it) and was reported
  as failed; the observable wrapper's hook was not called: only the store changes, neither hook nor clock -/
  | markCore (t : Task) (r : Bool) (e : Err) (hpc : w.pc = .d_mark t r) (hcd : w.ctxDone = false) :
      WStep w (.sched .markDispatchedCore)
        { w with obs := { w.obs with repo := (Repo.step {} w.obs.repo w.obs.clock.now (.dispatch t.id)).1 },
                 ret := .dispatchErr t e, pc := .idle, getNextErr := true }
  /-- the work function is started -/
  | start (t cur : Task) (hpc : w.pc = .d_get t) (hl : w.obs.repo.lookup t.id = some cur) :
      WStep w (.sched (.getById .none))
        { w with running := w.running ++ [(t.id, cur)],
                 log := w.log ++ [({ id := t.id, at_ := w.obs.clock.now, task := cur } : RunEntry)],
                 ret := .dispatched t.id, pc := .idle }
  | retryDispatch (t : Task) (e : Err) (hpc : w.pc = .idle) (hr : w.ret = .dispatchErr t e) :
      WStep w (.sched .beginRetry) { w with ctxDone := false, pc := .r_getById t }
  | refetchNone (t : Task) (hpc : w.pc = .r_getById t) (hl : w.obs.repo.lookup t.id = none) :
      WStep w (.sched (.getById .none)) { w with pc := .d_wait World.zeroTask (!w.fix.retryMarks) }
  | refetch (t cur : Task) (hpc : w.pc = .r_getById t) (hl : w.obs.repo.lookup t.id = some cur) :
      WStep w (.sched (.getById .none))
        { w with pc := .d_wait t (if w.fix.retryMarks then cur.state == .dispatched else true) }
  | user (op : Obs.OOp) (hf : Option Err) : WStep w (.user op hf) { w with obs := (w.obs.step op hf).1 }
  | advance (t : Time) :
      WStep w (.advance t) { w with obs := { w.obs with clock := w.obs.clock.advance t } }
  | complete (id : String) (o : Outcome) (x : String × Task)
      (hfind : w.running.find? (·.1 == id) = some x) :
      WStep w (.complete id o)
        { w with running := w.running.filter (·.1 != id), completed := w.completed ++ [(id, o)] }

theorem quietq_of {w : World} {a : SAct} {p : Pc} (h : w.pc ≠ .idle)
    (hnm : ∀ id o, w.pc ≠ .s_markDone id o ∧ w.pc ≠ .r_markDone id o)
    (hp : ∀ id o, p ≠ .s_markDone id o ∧ p ≠ .r_markDone id o) : QuietQ w a p :=
  ⟨fun id o => ⟨(hnm id o).1, (hnm id o).2, (hp id o).1⟩, fun h' => absurd h' h,
    fun id o h' => absurd h' (hp id o).2⟩

theorem finq_of {w : World} {a : SAct} {s : SS} (h : w.pc ≠ .idle)
    (hnm : ∀ id o, w.pc ≠ .s_markDone id o ∧ w.pc ≠ .r_markDone id o)
    (hs : ∀ id o e, s ≠ .taskDone id o e) : FinQ w a s :=
  ⟨fun id o h' => by rcases h' with h' | h'; exact absurd h' (hnm id o).1; exact absurd h' (hnm id o).2,
    fun id o e h' => absurd h' (hs id o e), fun h' => absurd h' h⟩

theorem finqd_of {w : World} {a : SAct} {id : String} {o : Outcome} {e : Err}
    (hpc : w.pc = .s_markDone id o ∨ w.pc = .r_markDone id o) : FinQ w a (.taskDone id o (some e)) := by
  refine ⟨fun id' o' h' => ?_, fun id' o' e' h' => ?_, fun h' => ?_⟩
  · have : id' = id ∧ o' = o := by
      rcases hpc with hpc | hpc <;> rcases h' with h' | h' <;> rw [hpc] at h' <;> simp at h' <;>
        exact ⟨h'.1.symm, h'.2.symm⟩
    rw [this.1, this.2]; exact ⟨e, rfl⟩
  · simp only [SS.taskDone.injEq] at h'
    rw [← h'.1, ← h'.2.1]; exact hpc
  · rcases hpc with hpc | hpc <;> rw [hpc] at h' <;> cases h'

theorem afterPrologue_spec (w : World) (a : SAct) (hfrom : w.pc = .s_lastErr0 ∨ w.pc = .s_lastErr1) :
    WStep w (.sched a) w.afterPrologue := by
  have hp : heldPc w.pc = none := by rcases hfrom with h | h <;> (rw [h]; rfl)
  unfold World.afterPrologue
  simp only
  split
  · rename_i t ht
    exact .prologue a t ht hp hfrom
  · rename_i hn
    refine .quiet a w.obs .s_select w.ctxDone false rfl rfl rfl (by decide) (.inr (.inl hn)) ?_
    rcases hfrom with h | h <;>
      exact quietq_of (by rw [h]; simp) (by rw [h]; simp) (by simp)

theorem sched_spec (w : World) (a : SAct) : WStep w (.sched a) (w.sched a).1 := by
  unfold World.sched
  split
  next => exact .cancelCtx
  next hpc =>
    simp only
    split
    · exact .quiet _ w.obs .s_stop false w.getNextErr rfl rfl rfl (by decide) (.inl rfl)
        ⟨fun id o => (by rw [hpc]; simp), fun _ => .inl rfl, fun id o h' => (by cases h')⟩
    · exact .quiet _ w.obs .s_lastErr0 false w.getNextErr rfl rfl rfl (by decide) (.inl rfl)
        ⟨fun id o => (by rw [hpc]; simp), fun _ => .inl rfl, fun id o h' => (by cases h')⟩
  next hpc =>
    simp only
    split
    · exact .quiet _ w.obs .s_stop w.ctxDone w.getNextErr rfl rfl rfl (by decide) (.inl rfl)
        (quietq_of (by rw [hpc]; simp) (by rw [hpc]; simp) (by simp))
    · exact afterPrologue_spec w _ (.inl hpc)
  next hpc => exact .quiet _ w.obs.stopTimer .s_start w.ctxDone w.getNextErr (stopTimer_frame _).1 (stopTimer_frame _).2 rfl (by decide) (.inl rfl) (quietq_of (by rw [hpc]; simp) (by rw [hpc]; simp) (by simp))
  next hf hpc => exact .quiet _ (w.obs.startTimer hf) .s_lastErr1 w.ctxDone w.getNextErr (startTimer_frame _ _).1 (startTimer_frame _ _).2 rfl (by decide) (.inl rfl) (quietq_of (by rw [hpc]; simp) (by rw [hpc]; simp) (by simp))
  next hpc =>
    simp only
    split
    · exact .fin _ _ w.lastTask w.getNextErr w.ctxDone (.inl rfl) rfl (finq_of (by rw [hpc]; simp) (by rw [hpc]; simp) (by simp))
    · exact afterPrologue_spec w _ (.inr hpc)
  next hpc => exact .fin _ _ w.lastTask w.getNextErr w.ctxDone (.inl rfl) rfl (finq_of (by rw [hpc]; simp) (by rw [hpc]; simp) (by simp))
  next hpc =>
    cases hp : w.obs.clock.pending <;>
      simp only [Clock.consume, hp, Bool.false_eq_true, if_false, if_true]
    · exact .stuck _
    · exact .quiet _ { w.obs with clock := { w.obs.clock with pending := false } } .s_getNext w.ctxDone w.getNextErr rfl rfl rfl (by decide) (.inr (.inr (by rw [hpc]; rfl))) (quietq_of (by rw [hpc]; simp) (by rw [hpc]; simp) (by simp))
  next id hpc =>
    simp only
    split
    · exact .stuck _
    · rename_i x o hfind
      split
      · rename_i ho
        exact .res id o x .idle _ hpc hfind (.inl ⟨rfl, rfl, by simpa using ho⟩)
      · rename_i ho
        exact .res id o x (.s_markDone id o) w.ret hpc hfind (.inr ⟨rfl, rfl, by simpa using ho⟩)
  next f hpc =>
    simp only
    split
    · exact .fin _ _ none true w.ctxDone (.inr rfl) rfl (finq_of (by rw [hpc]; simp) (by rw [hpc]; simp) (by simp))
    · rename_i hf
      split
      · exact .fin _ _ none true w.ctxDone (.inr rfl) rfl (finq_of (by rw [hpc]; simp) (by rw [hpc]; simp) (by simp))
      · rename_i t hg
        have : f = .none := by simpa using hf
        subst this
        exact .getNext t hpc hg
  next t hpc =>
    simp only
    split
    · exact .fin _ _ w.lastTask w.fix.restartOnChanged w.ctxDone (.inl rfl) rfl (finq_of (by rw [hpc]; simp) (by rw [hpc]; simp) (by simp))
    · rename_i hc
      refine .announce t hpc ?_
      intro hd
      simp only [hd, Bool.not_true, Bool.false_or, Bool.or_eq_true, Bool.not_eq_true', not_or,
        Bool.not_eq_true, decide_eq_false_iff_not, Decidable.not_not] at hc
      exact hc.2
  next id o f hpc =>
    simp only
    split
    · exact .fin _ _ w.lastTask w.getNextErr w.ctxDone (.inl rfl) rfl (finqd_of (by simp [hpc]))
    · split
      · exact .fin _ _ w.lastTask w.getNextErr w.ctxDone (.inl rfl) rfl (finqd_of (by simp [hpc]))
      · exact .markDone f id o _ (.inl hpc) rfl (.inr ⟨_, rfl⟩)
  next t retry acq hpc =>
    simp only
    split
    · exact .derr _ t _ true (by rw [hpc]; rfl) (by rw [hpc]; simp)
    · rename_i hacq
      have : acq = true := by simpa using hacq
      subst this
      split
      · rename_i hr; subst hr; exact .waitGet t hpc
      · rename_i hr
        have : retry = false := by simpa using hr
        subst this; exact .waitMark t hpc
  next t retry f hf hpc =>
    simp only
    split
    · exact .derr _ t _ true (by rw [hpc]; rfl) (by rw [hpc]; simp)
    · rename_i hnb
      have hnb : f ≠ .before := by simpa using hnb
      split
      · exact .derr _ t _ true (by rw [hpc]; rfl) (by rw [hpc]; simp)
      · rename_i hcd
        have hcd : w.ctxDone = false := by simpa using hcd
        by_cases hfa : f = .after
        · subst hfa
          simp only [beq_self_eq_true, if_true]
          exact .markErr _ hf t retry .other hpc hnb hcd (.inl rfl)
        · have hfa' : (f == Fault.after) = false := by simpa using hfa
          simp only [hfa', Bool.false_eq_true, if_false]
          cases hout : (w.obs.step (.dispatch t.id) hf).2 with
          | err e => exact .markErr f hf t retry e hpc hnb hcd (.inr hout)
          | ok => exact .markOk f hf t retry hpc hnb hcd (by rw [hout]; rfl)
          | task _ => exact .markOk f hf t retry hpc hnb hcd (by rw [hout]; rfl)
          | tasks _ => exact .markOk f hf t retry hpc hnb hcd (by rw [hout]; rfl)
  next t retry hpc =>
    simp only
    split
    · exact .derr _ t _ true (by rw [hpc]; rfl) (by rw [hpc]; simp)
    · rename_i hcd
      have hcd : w.ctxDone = false := by simpa using hcd
      exact .markCore t retry _ hpc hcd
  next t f hpc =>
    simp only
    split
    · exact .derr _ t _ true (by rw [hpc]; rfl) (by rw [hpc]; simp)
    · rename_i hf
      split
      · exact .derr _ t _ true (by rw [hpc]; rfl) (by rw [hpc]; simp)
      · split
        · exact .derr _ t _ true (by rw [hpc]; rfl) (by rw [hpc]; simp)
        · rename_i cur hl
          have : f = .none := by simpa using hf
          subst this
          exact .start t cur hpc hl
  next hpc =>
    simp only
    split
    · rename_i e hr
      exact .quiet _ w.obs .r_stop false w.getNextErr rfl rfl rfl (by decide) (.inl rfl)
        ⟨fun id o => (by rw [hpc]; simp), fun _ => .inr ⟨rfl, .inr ⟨e, hr⟩⟩, fun id o h' => (by cases h')⟩
    · rename_i t e hr
      exact .retryDispatch t e hpc hr
    · rename_i id o e hr
      exact .quiet _ w.obs (.r_markDone id o) false w.getNextErr rfl rfl rfl (by simp) (.inl rfl)
        ⟨fun id o => (by rw [hpc]; simp), fun _ => .inr ⟨rfl, .inl ⟨id, o, e, hr, rfl⟩⟩,
          fun id' o' h' => (by cases h'; exact ⟨hpc, rfl, e, hr⟩)⟩
    · rename_i h1 h2 h3
      exact .fin _ _ w.lastTask w.getNextErr false (.inl rfl) rfl
        ⟨fun id o h' => (by rw [hpc] at h'; simp at h'), fun id o e h' => (by cases h'),
          fun _ => ⟨rfl, fun id o e h' => h3 id o e h'⟩⟩
  next hpc => exact .quiet _ w.obs.stopTimer .r_start w.ctxDone w.getNextErr (stopTimer_frame _).1 (stopTimer_frame _).2 rfl (by decide) (.inl rfl) (quietq_of (by rw [hpc]; simp) (by rw [hpc]; simp) (by simp))
  next hf hpc => exact .quiet _ (w.obs.startTimer hf) .r_lastErr w.ctxDone w.getNextErr (startTimer_frame _ _).1 (startTimer_frame _ _).2 rfl (by decide) (.inl rfl) (quietq_of (by rw [hpc]; simp) (by rw [hpc]; simp) (by simp))
  next hpc =>
    simp only
    split
    · exact .fin _ _ w.lastTask w.getNextErr w.ctxDone (.inl rfl) (by rfl) (finq_of (by rw [hpc]; simp) (by rw [hpc]; simp) (by simp))
    · exact .fin _ _ w.lastTask w.getNextErr w.ctxDone (.inl rfl) (by rfl) (finq_of (by rw [hpc]; simp) (by rw [hpc]; simp) (by simp))
  next t f hpc =>
    simp only
    split
    · exact .derr _ t _ w.getNextErr (by rw [hpc]; rfl) (by rw [hpc]; simp)
    · rename_i hf
      have : f = .none := by simpa using hf
      subst this
      split
      · exact .derr _ t _ w.getNextErr (by rw [hpc]; rfl) (by rw [hpc]; simp)
      · split
        · rename_i hl; exact .refetchNone t hpc hl
        · rename_i cur hl; exact .refetch t cur hpc hl
  next id o f hpc =>
    simp only
    split
    · exact .fin _ _ w.lastTask w.getNextErr w.ctxDone (.inl rfl) rfl (finqd_of (by simp [hpc]))
    · split
      · exact .fin _ _ w.lastTask w.getNextErr w.ctxDone (.inl rfl) rfl (finqd_of (by simp [hpc]))
      · repeat' split
        all_goals first
          | (refine .markDone f id o _ (.inr hpc) ?_ (.inl rfl); rfl)
          | (refine .markDone f id o _ (.inr hpc) ?_ (.inr ⟨_, rfl⟩); rfl)
  next => exact .stuck _

theorem step_spec (w : World) (a : Act) : WStep w a (w.step a) := by
  cases a with
  | sched a => exact sched_spec w a
  | user op hf => exact .user op hf
  | advance t => exact .advance t
  | complete id o =>
    simp only [World.step]
    split
    · exact .stuck _
    · rename_i x hfind
      exact .complete id o x hfind

/-! ## Counting ids in the lists of running / completed / reported work -/

def cnt {α : Type} (l : List (String × α)) (x : String) : Nat := (l.map (·.1)).count x

theorem cnt_nil {α : Type} (x : String) : cnt ([] : List (String × α)) x = 0 := rfl

theorem cnt_append_one {α : Type} (l : List (String × α)) (id : String) (o : α) (x : String) :
    cnt (l ++ [(id, o)]) x = cnt l x + if x = id then 1 else 0 := by
  unfold cnt
  simp only [List.map_append, List.map_cons, List.map_nil, List.count_append, List.count_cons,
    List.count_nil, Nat.zero_add, beq_iff_eq]
  by_cases h : x = id
  · subst h; simp
  · have : ¬ id = x := fun h' => h h'.symm
    simp [h, this]

theorem cnt_filter {α : Type} (l : List (String × α)) (id : String) (x : String) :
    cnt (l.filter (·.1 != id)) x = if x = id then 0 else cnt l x := by
  unfold cnt
  induction l with
  | nil => simp
  | cons y ys ih =>
    simp only [List.filter_cons]
    by_cases hy : y.1 = id
    · have : (y.1 != id) = false := by simp [hy]
      simp only [this, Bool.false_eq_true, if_false, ih]
      by_cases hx : x = id
      · simp [hx]
      · have : ¬ y.1 = x := by rw [hy]; exact fun h' => hx h'.symm
        simp [hx, this]
    · have : (y.1 != id) = true := by simp [hy]
      simp only [this, if_true, List.map_cons, List.count_cons, ih]
      by_cases hx : x = id
      · subst hx; simp [hy]
      · simp [hx]

theorem cnt_pos_of_find {α : Type} {l : List (String × α)} {id : String} {y : String × α}
    (h : l.find? (·.1 == id) = some y) : 1 ≤ cnt l id := by
  unfold cnt
  have h1 := List.mem_of_find?_eq_some h
  have h2 := List.find?_some h
  simp only [beq_iff_eq] at h2
  apply List.count_pos_iff.mpr
  rw [← h2]
  exact List.mem_map_of_mem h1

/-! ## Frame: what a repository write preserves for every stored task -/

def notDone : Op → Bool
  | .done .. => false
  | _ => true

theorem frame {r : Repo} (h : r.WF) (now : Time) (op : Op) (hp : plainOp op = true) (id : String)
    (cur : Task) (hl : r.lookup id = some cur) :
    ∃ cur', (Repo.step {} r now op).1.lookup id = some cur' ∧
      (started cur.state → started cur'.state) ∧
      (notDone op = true → cur.state = .dispatched → cur'.state = .dispatched) ∧
      (cur.state ≠ .scheduled → notDone op = true → cur' = cur) := by
  rw [step_lookup h now op hp id, hl]
  refine ⟨_, rfl, ?_, ?_, ?_⟩
  · intro hs
    cases op <;> simp only [stepOne] <;> try exact hs
    all_goals split
    all_goals first
      | exact hs
      | (rename_i hc; rw [hc.2] at hs; simp [started] at hs; done)
      | (simp only [doneTask]; split <;> simp [started])
  · intro hnd hs
    cases op <;> simp only [stepOne] <;> try exact hs
    all_goals split
    all_goals first
      | exact hs
      | rfl
      | (rename_i hc; rw [hc.2] at hs; cases hs; done)
      | cases hnd
  · intro hs hnd
    cases op <;> simp only [stepOne] <;> try rfl
    all_goals split
    all_goals first
      | rfl
      | (rename_i hc; exact absurd hc.2.2 hs)
      | (rename_i hc; exact absurd hc.2 hs)
      | cases hnd

/-! ## Layer 3: the control invariant -/

/-- the task with this id is stored and its work function has not been started -/
def HeldOk (r : Repo) (log : List RunEntry) (id : String) : Prop :=
  (∃ cur, r.lookup id = some cur) ∧ id ∉ log.map (·.id)

structure Inv (w : World) : Prop where
  fix : w.fix = {}
  wf : w.obs.repo.WF
  pcHeld : ∀ t, heldPc w.pc = some t → HeldOk w.obs.repo w.log t.id
  lastHeld : ∀ t, w.lastTask = some t →
    HeldOk w.obs.repo w.log t.id ∧ mayRemember w.pc = true ∧ isDispatchErr w.ret = false
  retHeld : ∀ t e, w.pc = .idle → w.ret = .dispatchErr t e → HeldOk w.obs.repo w.log t.id
  marked : ∀ t, (w.pc = .d_get t ∨ w.pc = .d_wait t true) →
    ∃ cur, w.obs.repo.lookup t.id = some cur ∧ cur.state = .dispatched
  logged : ∀ e ∈ w.log, e.task.state = .dispatched ∧ e.task.id = e.id ∧
    ∃ t, w.obs.repo.lookup e.id = some t ∧ started t.state
  nodup : (w.log.map (·.id)).Nodup
  counts : ∀ x, cnt w.running x + cnt w.completed x + cnt w.reported x ≤ 1 ∧
    (x ∉ w.log.map (·.id) → cnt w.running x + cnt w.completed x + cnt w.reported x = 0)

theorem held_mr {p : Pc} {t : Task} (h : heldPc p = some t) : mayRemember p = false := by
  cases p <;> simp [heldPc] at h <;> rfl

theorem Inv.last_none {w : World} (hI : Inv w) (h : mayRemember w.pc = false) : w.lastTask = none := by
  cases hl : w.lastTask with
  | none => rfl
  | some t => have := (hI.lastHeld t hl).2.1; rw [h] at this; cases this

/-- what a repository write preserves -/
def FrameP (r r' : Repo) (keep : Bool) : Prop :=
  ∀ id cur, r.lookup id = some cur → ∃ cur', r'.lookup id = some cur' ∧
    (started cur.state → started cur'.state) ∧
    (keep = true → cur.state = .dispatched → cur'.state = .dispatched)

theorem FrameP.refl (r : Repo) (k : Bool) : FrameP r r k :=
  fun _ cur h => ⟨cur, h, id, fun _ => id⟩

theorem FrameP.of_step {r : Repo} (h : r.WF) (now : Time) (op : Op) (hp : plainOp op = true) :
    FrameP r (Repo.step {} r now op).1 (notDone op) := by
  intro id cur hl
  obtain ⟨cur', h1, h2, h3, _⟩ := frame h now op hp id cur hl
  exact ⟨cur', h1, h2, h3⟩

theorem HeldOk.frame {r r' : Repo} {k : Bool} {log : List RunEntry} {id : String}
    (h : HeldOk r log id) (hf : FrameP r r' k) : HeldOk r' log id := by
  obtain ⟨⟨cur, hc⟩, hn⟩ := h
  obtain ⟨cur', h1, _⟩ := hf id cur hc
  exact ⟨⟨cur', h1⟩, hn⟩

/-- replace the observable repository by one whose store is a frame-extension of the old one -/
theorem Inv.repo {w : World} (hI : Inv w) (o' : Obs) (k : Bool) (hwf : o'.repo.WF)
    (hf : FrameP w.obs.repo o'.repo k)
    (hk : k = true ∨ ∀ t, w.pc ≠ .d_get t ∧ w.pc ≠ .d_wait t true) :
    Inv { w with obs := o' } where
  fix := hI.fix
  wf := hwf
  pcHeld := fun t h => (hI.pcHeld t h).frame hf
  lastHeld := fun t h => ⟨(hI.lastHeld t h).1.frame hf, (hI.lastHeld t h).2⟩
  retHeld := fun t e h1 h2 => (hI.retHeld t e h1 h2).frame hf
  marked := by
    intro t ht
    obtain ⟨cur, hc, hs⟩ := hI.marked t ht
    obtain ⟨cur', h1, _, h3⟩ := hf t.id cur hc
    rcases hk with hk | hk
    · exact ⟨cur', h1, h3 hk hs⟩
    · rcases ht with ht | ht
      · exact absurd ht (hk t).1
      · exact absurd ht (hk t).2
  logged := by
    intro e he
    obtain ⟨h1, h2, t, ht, hs⟩ := hI.logged e he
    obtain ⟨t', ht', hs', _⟩ := hf e.id t ht
    exact ⟨h1, h2, t', ht', hs' hs⟩
  nodup := hI.nodup
  counts := hI.counts

/-- `Step` / `Retry` return a state that is not `DispatchErr` -/
theorem Inv.fin {w : World} (hI : Inv w) (s : SS) (lt : Option Task) (g cd : Bool)
    (hlt : lt = w.lastTask ∨ lt = none) (hs : isDispatchErr s = false) :
    Inv { w with lastTask := lt, getNextErr := g, ret := s, pc := .idle, ctxDone := cd } where
  fix := hI.fix
  wf := hI.wf
  pcHeld := fun t h => by simp [heldPc] at h
  lastHeld := by
    intro t h
    rcases hlt with rfl | rfl
    · exact ⟨(hI.lastHeld t h).1, rfl, hs⟩
    · cases h
  retHeld := by
    intro t e _ h2
    simp only at h2
    rw [h2] at hs; cases hs
  marked := by intro t ht; simp at ht
  logged := hI.logged
  nodup := hI.nodup
  counts := hI.counts

/-- `dispatchTask` / `Retry` fail with the task they carry -/
theorem Inv.derr {w : World} (hI : Inv w) (t : Task) (e : Err) (g : Bool) (hpc : heldPc w.pc = some t) :
    Inv { w with ret := .dispatchErr t e, pc := .idle, getNextErr := g } where
  fix := hI.fix
  wf := hI.wf
  pcHeld := fun t h => by simp [heldPc] at h
  lastHeld := by
    intro t' h
    have := hI.last_none (held_mr hpc)
    simp only at h
    rw [this] at h; cases h
  retHeld := by
    intro t' e' _ h2
    simp only [SS.dispatchErr.injEq] at h2
    rw [← h2.1]
    exact hI.pcHeld t hpc
  marked := by intro t ht; simp at ht
  logged := hI.logged
  nodup := hI.nodup
  counts := hI.counts

theorem dispatch_ok {r : Repo} (h : r.WF) (now : Time) (id : String)
    (hok : (Repo.step {} r now (.dispatch id)).2.isErr = false) :
    ∃ t0, r.lookup id = some t0 ∧ t0.state = .scheduled := by
  simp only [Repo.step] at hok
  rw [mutateScheduled_spec h] at hok
  cases hl : r.lookup id with
  | none => simp [hl, Out.isErr] at hok
  | some t0 =>
    refine ⟨t0, rfl, ?_⟩
    cases hs : t0.state <;> simp [hl, hs, Out.isErr] at hok
    rfl

theorem fresh_of_userOk {w : World} {id : String} {p : Param} {hf : Option Err}
    (hu : w.UserOk (.user (.add id p) hf)) : (Op.add id p).fresh w.obs.repo := by
  intro h
  obtain ⟨t, ht, he⟩ := List.mem_map.mp h
  exact hu t ht he

/-- the repository write of a user action keeps the invariant -/
theorem Inv.user {w : World} (hI : Inv w) (op : Obs.OOp) (hf : Option Err) (rop : Op)
    (hop : toOp op = some rop) (hfr : rop.fresh w.obs.repo) (hp : plainOp rop = true)
    (hnd : notDone rop = true) : Inv { w with obs := (w.obs.step op hf).1 } := by
  obtain ⟨hr, _, _⟩ := obs_step w.obs op hf hop
  refine hI.repo _ true ?_ ?_ (.inl rfl)
  · rw [hr]; exact C12_inv_step hI.wf hfr
  · rw [hr]
    have := FrameP.of_step hI.wf w.obs.clock.now rop hp
    rwa [hnd] at this

theorem Inv_wstep {w w' : World} {a : Act} (hs : WStep w a w') (hI : Inv w) (hu : w.UserOk a) :
    Inv w' := by
  cases hs with
  | stuck a =>
    exact ⟨hI.fix, hI.wf, hI.pcHeld, hI.lastHeld, hI.retHeld, hI.marked, hI.logged, hI.nodup, hI.counts⟩
  | cancelCtx =>
    exact ⟨hI.fix, hI.wf, hI.pcHeld, hI.lastHeld, hI.retHeld, hI.marked, hI.logged, hI.nodup, hI.counts⟩
  | quiet a o' p cd g ho hn hp hp' hmr =>
    have h1 := hI.repo o' true (by rw [ho]; exact hI.wf) (by rw [ho]; exact FrameP.refl _ _) (.inl rfl)
    refine ⟨h1.fix, h1.wf, ?_, ?_, ?_, ?_, h1.logged, h1.nodup, h1.counts⟩
    · intro t h; simp only at h; rw [hp] at h; cases h
    · intro t h
      refine ⟨(h1.lastHeld t h).1, ?_, (h1.lastHeld t h).2.2⟩
      rcases hmr with hmr | hmr | hmr
      · exact hmr
      · simp only at h; rw [hmr] at h; cases h
      · have := (hI.lastHeld t h).2.1; rw [hmr] at this; cases this
    · intro t e h; exact absurd h hp'
    · intro t ht
      simp only at ht
      rcases ht with ht | ht <;> (rw [ht] at hp; simp [heldPc] at hp)
  | prologue a t hl hp =>
    refine ⟨hI.fix, hI.wf, ?_, ?_, ?_, ?_, hI.logged, hI.nodup, hI.counts⟩
    · intro t' h
      simp only [heldPc, Option.some.injEq] at h
      subst h
      exact (hI.lastHeld t hl).1
    · intro t' h; cases h
    · intro t' e h; cases h
    · intro t' ht; simp at ht
  | fin a s lt g cd hlt hs => exact hI.fin s lt g cd hlt hs
  | res id o x p s hpc hfind hps =>
    have hn := hI.last_none (by rw [hpc]; rfl)
    refine ⟨hI.fix, hI.wf, ?_, ?_, ?_, ?_, hI.logged, hI.nodup, ?_⟩
    · intro t h
      rcases hps with ⟨rfl, _⟩ | ⟨rfl, _⟩ <;> simp [heldPc] at h
    · intro t h; simp only at h; rw [hn] at h; cases h
    · intro t e h1 h2
      rcases hps with ⟨_, rfl, _⟩ | ⟨rfl, _⟩
      · cases h2
      · cases h1
    · intro t ht
      rcases hps with ⟨rfl, _⟩ | ⟨rfl, _⟩ <;> simp at ht
    · intro y
      have h1 := hI.counts y
      have h2 := cnt_pos_of_find hfind
      simp only [cnt_filter, cnt_append_one]
      by_cases hy : y = id
      · subst hy
        simp only [if_true]
        constructor
        · omega
        · intro hlog; have := h1.2 hlog; omega
      · simp only [hy, if_false]
        exact h1
  | getNext t hpc hg =>
    have hn := hI.last_none (by rw [hpc]; rfl)
    refine ⟨hI.fix, hI.wf, ?_, ?_, ?_, ?_, hI.logged, hI.nodup, hI.counts⟩
    · intro t' h
      simp only [heldPc, Option.some.injEq] at h
      subst h
      obtain ⟨hm, hsch⟩ := Repo.getNext_mem hg
      have hl := hI.wf.lookup_mem hm
      refine ⟨⟨t, hl⟩, ?_⟩
      intro hin
      obtain ⟨e, he, hid⟩ := List.mem_map.mp hin
      obtain ⟨_, _, t2, ht2, hst⟩ := hI.logged e he
      rw [hid, hl] at ht2
      cases ht2
      rw [hsch] at hst
      simp [started] at hst
    · intro t' h; simp only at h; rw [hn] at h; cases h
    · intro t' e h; cases h
    · intro t' ht; simp at ht
  | announce t hpc hdue =>
    refine ⟨hI.fix, hI.wf, ?_, ?_, ?_, ?_, hI.logged, hI.nodup, hI.counts⟩
    · intro t' h; simp [heldPc] at h
    · intro t' h
      simp only [Option.some.injEq] at h
      subst h
      exact ⟨hI.pcHeld t (by rw [hpc]; rfl), rfl, rfl⟩
    · intro t' e _ h; cases h
    · intro t' ht; simp at ht
  | markDone f id o s hpc hs =>
    have h1 := hI.repo { w.obs with repo :=
        (Repo.step {} w.obs.repo w.obs.clock.now (.done id (World.outcomeErr o))).1 } false
      (C12_inv_step hI.wf trivial) (FrameP.of_step hI.wf _ _ rfl)
      (.inr (fun t => by rcases hpc with hpc | hpc <;> (rw [hpc]; simp)))
    exact h1.fin s w.lastTask w.getNextErr w.ctxDone (.inl rfl) hs
  | derr a t e g hpc hns => exact hI.derr t e g hpc
  | waitGet t hpc =>
    have hn := hI.last_none (by rw [hpc]; rfl)
    refine ⟨hI.fix, hI.wf, ?_, ?_, ?_, ?_, hI.logged, hI.nodup, hI.counts⟩
    · intro t' h
      simp only [heldPc, Option.some.injEq] at h
      subst h
      exact hI.pcHeld t (by rw [hpc]; rfl)
    · intro t' h; simp only at h; rw [hn] at h; cases h
    · intro t' e h; cases h
    · intro t' ht
      rcases ht with ht | ht
      · simp only [Pc.d_get.injEq] at ht
        subst ht
        exact hI.marked t (.inr hpc)
      · simp at ht
  | waitMark t hpc =>
    have hn := hI.last_none (by rw [hpc]; rfl)
    refine ⟨hI.fix, hI.wf, ?_, ?_, ?_, ?_, hI.logged, hI.nodup, hI.counts⟩
    · intro t' h
      simp only [heldPc, Option.some.injEq] at h
      subst h
      exact hI.pcHeld t (by rw [hpc]; rfl)
    · intro t' h; simp only at h; rw [hn] at h; cases h
    · intro t' e h; cases h
    · intro t' ht; simp at ht
  | markErr f hf t r e hpc hnb hcd he =>
    have h1 := hI.user (.dispatch t.id) hf (.dispatch t.id) rfl trivial rfl rfl
    exact h1.derr t e true (by show heldPc w.pc = some t; rw [hpc]; rfl)
  | markOk f hf t r hpc hnb hcd hok =>
    have h1 := hI.user (.dispatch t.id) hf (.dispatch t.id) rfl trivial rfl rfl
    have hn := hI.last_none (by rw [hpc]; rfl)
    obtain ⟨hr, hout, _⟩ := obs_step w.obs (.dispatch t.id) hf (rop := .dispatch t.id) rfl
    refine ⟨h1.fix, h1.wf, ?_, ?_, ?_, ?_, h1.logged, h1.nodup, h1.counts⟩
    · intro t' h
      simp only [heldPc, Option.some.injEq] at h
      subst h
      exact h1.pcHeld t (by show heldPc w.pc = some t; rw [hpc]; rfl)
    · intro t' h; simp only at h; rw [hn] at h; cases h
    · intro t' e h; cases h
    · intro t' ht
      rcases ht with ht | ht
      · simp only [Pc.d_get.injEq] at ht
        subst ht
        rw [hout] at hok
        obtain ⟨t0, hl0, hs0⟩ := dispatch_ok hI.wf _ _ hok
        simp only [hr, step_lookup hI.wf _ _ (show plainOp (.dispatch t.id) = true from rfl), hl0,
          stepTask, stepOne, hs0, and_self, if_true]
        exact ⟨_, rfl, rfl⟩
      · simp at ht
  | markCore t r e hpc hcd =>
    have h1 := hI.repo { w.obs with repo := (Repo.step {} w.obs.repo w.obs.clock.now (.dispatch t.id)).1 } true
      (C12_inv_step hI.wf trivial) (FrameP.of_step hI.wf _ _ rfl) (.inl rfl)
    exact h1.derr t e true (by show heldPc w.pc = some t; rw [hpc]; rfl)
  | start t cur hpc hl =>
    have hn := hI.last_none (by rw [hpc]; rfl)
    have hheld := hI.pcHeld t (by rw [hpc]; rfl)
    obtain ⟨cur', hl', hsd⟩ := hI.marked t (.inl hpc)
    rw [hl] at hl'
    cases hl'
    refine ⟨hI.fix, hI.wf, ?_, ?_, ?_, ?_, ?_, ?_, ?_⟩
    · intro t' h; simp [heldPc] at h
    · intro t' h; simp only at h; rw [hn] at h; cases h
    · intro t' e _ h; cases h
    · intro t' ht; simp at ht
    · intro e he
      rcases List.mem_append.mp he with he | he
      · exact hI.logged e he
      · simp only [List.mem_singleton] at he
        subst he
        exact ⟨hsd, (Repo.lookup_some hl).2, cur, hl, .inl hsd⟩
    · simp only [List.map_append, List.map_cons, List.map_nil]
      rw [List.nodup_append]
      refine ⟨hI.nodup, by simp, ?_⟩
      intro a ha b hb
      simp only [List.mem_singleton] at hb
      subst hb
      rintro rfl
      exact hheld.2 ha
    · intro y
      have h1 := hI.counts y
      have h0 := (hI.counts t.id).2 hheld.2
      simp only [cnt_append_one, List.map_append, List.map_cons, List.map_nil, List.mem_append,
        List.mem_singleton, not_or]
      by_cases hy : y = t.id
      · subst hy
        simp only [if_true]
        constructor
        · omega
        · intro hlog; exact absurd trivial hlog.2
      · simp only [hy, if_false, Nat.add_zero]
        exact ⟨h1.1, fun hlog => h1.2 hlog.1⟩
  | retryDispatch t e hpc hr =>
    refine ⟨hI.fix, hI.wf, ?_, ?_, ?_, ?_, hI.logged, hI.nodup, hI.counts⟩
    · intro t' h
      simp only [heldPc, Option.some.injEq] at h
      subst h
      exact hI.retHeld t e hpc hr
    · intro t' h
      have := (hI.lastHeld t' h).2.2
      rw [hr] at this; cases this
    · intro t' e h; cases h
    · intro t' ht; simp at ht
  | refetchNone t hpc hl =>
    obtain ⟨⟨cur, hc⟩, _⟩ := hI.pcHeld t (by rw [hpc]; rfl)
    rw [hl] at hc; cases hc
  | refetch t cur hpc hl =>
    have hn := hI.last_none (by rw [hpc]; rfl)
    refine ⟨hI.fix, hI.wf, ?_, ?_, ?_, ?_, hI.logged, hI.nodup, hI.counts⟩
    · intro t' h
      simp only [heldPc, Option.some.injEq] at h
      subst h
      exact hI.pcHeld t (by rw [hpc]; rfl)
    · intro t' h; simp only at h; rw [hn] at h; cases h
    · intro t' e h; cases h
    · intro t' ht
      rcases ht with ht | ht
      · simp at ht
      · simp only [Pc.d_wait.injEq, hI.fix, if_true, beq_iff_eq] at ht
        obtain ⟨rfl, hb⟩ := ht
        exact ⟨cur, hl, hb⟩
  | user op hf =>
    cases op with
    | add id p => exact hI.user _ hf (.add id p) rfl (fresh_of_userOk hu) rfl rfl
    | update id p => exact hI.user _ hf (.update id p) rfl trivial rfl rfl
    | cancel id => exact hI.user _ hf (.cancel id) rfl trivial rfl rfl
    | dispatch id => exact hu.elim
    | start =>
      exact hI.repo (w.obs.startTimer hf) true (by rw [(startTimer_frame _ _).1]; exact hI.wf)
        (by rw [(startTimer_frame _ _).1]; exact FrameP.refl _ _) (.inl rfl)
    | stop => exact hI.repo w.obs.stopTimer true hI.wf (FrameP.refl _ _) (.inl rfl)
    | advance t => exact hu.elim
    | fire => exact hu.elim
  | advance t =>
    exact hI.repo { w.obs with clock := w.obs.clock.advance t } true hI.wf (FrameP.refl _ _) (.inl rfl)
  | complete id o x hfind =>
    refine ⟨hI.fix, hI.wf, hI.pcHeld, hI.lastHeld, hI.retHeld, hI.marked, hI.logged, hI.nodup, ?_⟩
    intro y
    have h1 := hI.counts y
    have h2 := cnt_pos_of_find hfind
    simp only [cnt_filter, cnt_append_one]
    by_cases hy : y = id
    · subst hy
      simp only [if_true]
      constructor
      · omega
      · intro hlog; have := h1.2 hlog; omega
    · simp only [hy, if_false, Nat.add_zero]
      exact h1

theorem Inv_step {w : World} {a : Act} (hI : Inv w) (hu : w.UserOk a) : Inv (w.step a) :=
  Inv_wstep (step_spec w a) hI hu

theorem Inv_init (t0 : Time) : Inv (World.init t0) where
  fix := rfl
  wf := Repo.WF_empty
  pcHeld := fun t h => by simp [World.init, heldPc] at h
  lastHeld := fun t h => by simp [World.init] at h
  retHeld := fun t e _ h => by simp [World.init] at h
  marked := fun t h => by simp [World.init] at h
  logged := fun e he => by simp [World.init] at he
  nodup := by simp [World.init]
  counts := fun x => by simp [World.init, cnt]

theorem Inv_run {w : World} {acts : List Act} (hI : Inv w) (hs : w.Script acts) : Inv (w.run acts) := by
  induction acts generalizing w with
  | nil => exact hI
  | cons a rest ih => exact ih (Inv_step hI hs.1) hs.2

/-! ## Where the log grows -/

theorem log_wstep {w w' : World} {a : Act} (hs : WStep w a w') :
    w'.log = w.log ∨
    ∃ t cur, w.pc = .d_get t ∧ a = .sched (.getById .none) ∧ w.obs.repo.lookup t.id = some cur ∧
      w'.log = w.log ++ [({ id := t.id, at_ := w.obs.clock.now, task := cur } : RunEntry)] := by
  cases hs
  case start t cur hpc hl => exact .inr ⟨t, cur, hpc, rfl, hl, rfl⟩
  all_goals exact .inl rfl

/-- the log only grows -/
theorem log_mono_step (w : World) (a : Act) : ∀ e ∈ w.log, e ∈ (w.step a).log := by
  intro e he
  rcases log_wstep (step_spec w a) with h | ⟨_, _, _, _, _, h⟩ <;> rw [h]
  · exact he
  · exact List.mem_append_left _ he

theorem log_mono_run (w : World) (acts : List Act) : ∀ e ∈ w.log, e ∈ (w.run acts).log := by
  induction acts generalizing w with
  | nil => exact fun e he => he
  | cons a rest ih => exact fun e he => ih _ e (log_mono_step w a e he)

/-! ## The ghost invariant: every started task was marked as dispatched by this run -/

/-- the id for which this step's `MarkAsDispatched` took effect in the repository, if any: through the observable
wrapper (`markDispatched`), or in the core repository only, reported as failed (`markDispatchedCore`, D21) -/
def marksNow (w : World) : Act → Option String
  | .sched (.markDispatched f hf) =>
    match w.pc with
    | .d_mark t _ =>
      if f != .before && !w.ctxDone && !(w.obs.step (.dispatch t.id) hf).2.isErr then some t.id else none
    | _ => none
  | .sched .markDispatchedCore =>      -- the mark took effect in the core repository although the call reported an error
    match w.pc with
    | .d_mark t _ =>
      if !w.ctxDone && !(Repo.step {} w.obs.repo w.obs.clock.now (.dispatch t.id)).2.isErr then some t.id else none
    | _ => none
  | _ => none

/-- the ids the scheduler successfully marked as dispatched along the run of `acts` from `w`, in order -/
def marksOf (w : World) : List Act → List String
  | [] => []
  | a :: rest => (marksNow w a).toList ++ marksOf (w.step a) rest

theorem marksOf_append (w : World) (xs ys : List Act) :
    marksOf w (xs ++ ys) = marksOf w xs ++ marksOf (w.run xs) ys := by
  induction xs generalizing w with
  | nil => rfl
  | cons a rest ih => simp [marksOf, ih, World.run_cons]

def GInv (w : World) (G : List String) : Prop :=
  ∀ id t, w.obs.repo.lookup id = some t → started t.state → id ∈ G

theorem frame_rev {r : Repo} (h : r.WF) (now : Time) (op : Op) (hp : plainOp op = true) (id : String)
    (t' : Task) (hl : (Repo.step {} r now op).1.lookup id = some t') (hs : started t'.state) :
    (∃ t, r.lookup id = some t ∧ started t.state) ∨ op = .dispatch id := by
  rw [step_lookup h now op hp id] at hl
  cases hr : r.lookup id with
  | none =>
    rw [hr] at hl
    simp only [stepTask] at hl
    cases op <;> simp only [stepNew, reduceCtorEq] at hl
    split at hl
    · cases hl; simp [started] at hs
    · cases hl
  | some t =>
    rw [hr] at hl
    simp only [stepTask, Option.some.injEq] at hl
    subst hl
    cases op <;> simp only [stepOne] at hs
    case update i p => exact .inl ⟨t, rfl, by split at hs <;> exact hs⟩
    case cancel i =>
      split at hs
      · simp [started] at hs
      · exact .inl ⟨t, rfl, hs⟩
    case dispatch i =>
      split at hs
      · rename_i hc; rw [hc.1]; exact .inr rfl
      · exact .inl ⟨t, rfl, hs⟩
    case done i e =>
      split at hs
      · rename_i hc; exact .inl ⟨t, rfl, .inl hc.2⟩
      · exact .inl ⟨t, rfl, hs⟩
    all_goals exact .inl ⟨t, rfl, hs⟩

theorem GInv.mono {w : World} {G G' : List String} (h : GInv w G) (hsub : ∀ x ∈ G, x ∈ G') : GInv w G' :=
  fun id t hl hs => hsub _ (h id t hl hs)

theorem GInv_wstep {w w' : World} {a : Act} {G : List String} (hs : WStep w a w') (hI : Inv w)
    (hu : w.UserOk a) (hG : GInv w G) (hw' : w' = w.step a) :
    GInv w' (G ++ (marksNow w a).toList) := by
  have hsub : ∀ x ∈ G, x ∈ G ++ (marksNow w a).toList := fun x hx => List.mem_append_left _ hx
  have same : ∀ {w1 : World}, w1.obs.repo = w.obs.repo → GInv w1 (G ++ (marksNow w a).toList) := by
    intro w1 h id t hl hst
    rw [h] at hl
    exact hsub _ (hG id t hl hst)
  have viaOp : ∀ {w1 : World} (rop : Op), plainOp rop = true → (∀ i, rop ≠ .dispatch i) →
      w1.obs.repo = (Repo.step {} w.obs.repo w.obs.clock.now rop).1 →
      GInv w1 (G ++ (marksNow w a).toList) := by
    intro w1 rop hp hnd h id t hl hst
    rw [h] at hl
    rcases frame_rev hI.wf _ rop hp id t hl hst with ⟨t0, h0, hs0⟩ | hd
    · exact hsub _ (hG id t0 h0 hs0)
    · exact absurd hd (hnd id)
  have viaMark : ∀ (f : Fault) (hf : Option Err) (t : Task) (r : Bool), w.pc = .d_mark t r →
      f ≠ .before → w.ctxDone = false → a = .sched (.markDispatched f hf) →
      ∀ {w1 : World}, w1.obs.repo = (w.obs.step (.dispatch t.id) hf).1.repo →
      GInv w1 (G ++ (marksNow w a).toList) := by
    intro f hf t r hpc hnb hcd ha w1 h id t' hl hst
    obtain ⟨hr, hout, _⟩ := obs_step w.obs (.dispatch t.id) hf (rop := .dispatch t.id) rfl
    rw [h, hr] at hl
    rcases frame_rev hI.wf _ _ rfl id t' hl hst with ⟨t0, h0, hs0⟩ | hd
    · exact hsub _ (hG id t0 h0 hs0)
    · cases hd
      cases hok : (w.obs.step (.dispatch t.id) hf).2.isErr
      · apply List.mem_append_right
        have hb : (f != Fault.before) = true := by simpa using hnb
        simp [ha, marksNow, hpc, hb, hcd, hok]
      · rw [hout] at hok
        rw [C01_error_is_noop hok] at hl
        exact hsub _ (hG _ t' hl hst)
  cases hs
  case user op hf =>
    cases op with
    | add id p => exact viaOp (.add id p) rfl (fun _ => by simp) (obs_step w.obs _ hf rfl).1
    | update id p => exact viaOp (.update id p) rfl (fun _ => by simp) (obs_step w.obs _ hf rfl).1
    | cancel id => exact viaOp (.cancel id) rfl (fun _ => by simp) (obs_step w.obs _ hf rfl).1
    | dispatch id => exact hu.elim
    | start => exact same (startTimer_frame _ _).1
    | stop => exact same rfl
    | advance t => exact hu.elim
    | fire => exact hu.elim
  case markDone f id o s hpc hs hs3 => exact viaOp (.done id (World.outcomeErr o)) rfl (fun _ => by simp) rfl
  case markErr f hf t r e hpc hnb hcd he => exact viaMark f hf t r hpc hnb hcd rfl rfl
  case markOk f hf t r hpc hnb hcd hok => exact viaMark f hf t r hpc hnb hcd rfl rfl
  case markCore t r e hpc hcd =>
    intro id t' hl hst
    change (Repo.step {} w.obs.repo w.obs.clock.now (.dispatch t.id)).1.lookup id = some t' at hl
    rcases frame_rev hI.wf _ _ rfl id t' hl hst with ⟨t0, h0, hs0⟩ | hd
    · exact hsub _ (hG id t0 h0 hs0)
    · cases hd
      cases hok : (Repo.step {} w.obs.repo w.obs.clock.now (.dispatch t.id)).2.isErr
      · apply List.mem_append_right
        simp [marksNow, hpc, hcd, hok]
      · rw [C01_error_is_noop hok] at hl
        exact hsub _ (hG _ t' hl hst)
  case quiet a o' p cd g ho hn hp hp' hmr hq => exact same ho
  all_goals exact same rfl

theorem GInv_run {w : World} {acts : List Act} {G : List String} (hI : Inv w) (hs : w.Script acts)
    (hG : GInv w G) : GInv (w.run acts) (G ++ marksOf w acts) := by
  induction acts generalizing w G with
  | nil => simpa [marksOf, World.run] using hG
  | cons a rest ih =>
    have := ih (Inv_step hI hs.1) hs.2 (GInv_wstep (step_spec w a) hI hs.1 hG rfl)
    simpa [marksOf, World.run_cons, List.append_assoc] using this

theorem GInv_init (t0 : Time) : GInv (World.init t0) [] := by
  intro id t hl
  simp [World.init, Repo.lookup] at hl

/-! ## The timing invariant (C03): whatever the scheduler holds is due, unless it was postponed -/

theorem held_of_pc {w : World} {t : Task} (h : heldPc w.pc = some t) : w.held = some t := by
  unfold World.held
  cases hp : w.pc <;> rw [hp] at h <;> simp [heldPc] at h <;> simp [h]

theorem held_of_last {w : World} (hI : Inv w) {t : Task} (h : w.lastTask = some t) :
    w.held = some t := by
  have hm := (hI.lastHeld t h).2.1
  unfold World.held
  cases hp : w.pc <;> rw [hp] at hm <;> simp [mayRemember] at hm <;> simp [h]

theorem held_of_ret {w : World} (hI : Inv w) {t : Task} {e : Err} (hpc : w.pc = .idle)
    (hr : w.ret = .dispatchErr t e) : w.held = some t := by
  have hn : w.lastTask = none := by
    cases hl : w.lastTask with
    | none => rfl
    | some t' => have := (hI.lastHeld t' hl).2.2; rw [hr] at this; cases this
  unfold World.held
  simp [hpc, hn, hr]

/-- every stored task with this id is scheduled no later than `b` -/
def Due (r : Repo) (b : Time) (id : String) : Prop :=
  ∀ cur, r.lookup id = some cur → cur.scheduledAt ≤ b

/-- the task stored under `id` keeps its scheduled time from `r` to `r'` -/
def FrameT (r r' : Repo) (id : String) : Prop :=
  ∀ cur', r'.lookup id = some cur' → ∃ cur, r.lookup id = some cur ∧ cur'.scheduledAt = cur.scheduledAt

theorem FrameT.refl (r : Repo) (id : String) : FrameT r r id := fun cur h => ⟨cur, h, rfl⟩

theorem Due.frame {r r' : Repo} {b b' : Time} {id : String} (h : Due r b id) (hf : FrameT r r' id)
    (hb : b ≤ b') : Due r' b' id := by
  intro cur' hl'
  obtain ⟨cur, hl, he⟩ := hf cur' hl'
  rw [he]
  exact Int.le_trans (h cur hl) hb

theorem isNorm_sched {r : Repo} (h : r.WF) {id : String} {cur : Task} (hl : r.lookup id = some cur) :
    normalize cur.scheduledAt = cur.scheduledAt := by
  have := h.1 cur (Repo.lookup_some hl).1
  simp only [Task.wellFormed, Task.timesNormalized, Bool.and_eq_true] at this
  exact normalize_of_isNorm this.1.2.1.1.1.1.1

theorem frameT_of_step {r : Repo} (h : r.WF) (now : Time) (op : Op) (hp : plainOp op = true)
    (id : String) (hst : ∃ cur, r.lookup id = some cur)
    (hnp : ∀ p, op = .update id p → p.scheduledAt = none) :
    FrameT r (Repo.step {} r now op).1 id := by
  obtain ⟨cur, hl⟩ := hst
  intro cur' hl'
  rw [step_lookup h now op hp id, hl] at hl'
  simp only [stepTask, Option.some.injEq] at hl'
  subst hl'
  refine ⟨cur, hl, ?_⟩
  cases op <;> simp only [stepOne] <;> try rfl
  case update i p =>
    split
    · rename_i hc
      have hn := hnp p (by rw [hc.1])
      simp only [Task.update, Task.normalizeTime, Param.normalize, hn, Option.map_none, Option.getD_none]
      exact isNorm_sched h hl
    · rfl
  case cancel i => split <;> rfl
  case dispatch i => split <;> rfl
  case done i e =>
    split
    · cases e <;> rfl
    · rfl

structure TInv (w : World) : Prop where
  pcDue : ∀ t, heldPc w.pc = some t → w.pc ≠ .s_nextSched t → Due w.obs.repo w.obs.clock.now t.id
  pcCopy : ∀ t, w.pc = .s_nextSched t → Due w.obs.repo t.scheduledAt t.id
  lastDue : ∀ t, w.lastTask = some t → Due w.obs.repo w.obs.clock.now t.id
  retDue : ∀ t e, w.pc = .idle → w.ret = .dispatchErr t e → Due w.obs.repo w.obs.clock.now t.id
  early : ∀ e ∈ w.log, e.task.scheduledAt ≤ e.at_

/-- the observable repository changes, the held task keeps its time, the clock does not go back -/
theorem TInv.obs {w : World} (hT : TInv w) (hI : Inv w) (o' : Obs)
    (hnow : w.obs.clock.now ≤ o'.clock.now)
    (hf : ∀ t, w.held = some t → FrameT w.obs.repo o'.repo t.id) :
    TInv { w with obs := o' } where
  pcDue := fun t h hne => (hT.pcDue t h hne).frame (hf t (held_of_pc h)) hnow
  pcCopy := fun t h => (hT.pcCopy t h).frame (hf t (held_of_pc (by rw [h]; rfl))) (Int.le_refl _)
  lastDue := fun t h => (hT.lastDue t h).frame (hf t (held_of_last hI h)) hnow
  retDue := fun t e h1 h2 => (hT.retDue t e h1 h2).frame (hf t (held_of_ret hI h1 h2)) hnow
  early := hT.early

theorem TInv.fin {w : World} (hT : TInv w) (s : SS) (lt : Option Task) (g cd : Bool)
    (hlt : lt = w.lastTask ∨ lt = none) (hs : isDispatchErr s = false) :
    TInv { w with lastTask := lt, getNextErr := g, ret := s, pc := .idle, ctxDone := cd } where
  pcDue := fun t h => by simp [heldPc] at h
  pcCopy := fun t h => by simp at h
  lastDue := by
    intro t h
    rcases hlt with rfl | rfl
    · exact hT.lastDue t h
    · cases h
  retDue := by
    intro t e _ h2
    simp only at h2
    rw [h2] at hs; cases hs
  early := hT.early

theorem TInv.derr {w : World} (hT : TInv w) (hI : Inv w) (t : Task) (e : Err) (g : Bool)
    (hpc : heldPc w.pc = some t) (hns : w.pc ≠ .s_nextSched t) :
    TInv { w with ret := .dispatchErr t e, pc := .idle, getNextErr := g } where
  pcDue := fun t h => by simp [heldPc] at h
  pcCopy := fun t h => by simp at h
  lastDue := by
    intro t' h
    have := hI.last_none (held_mr hpc)
    simp only at h
    rw [this] at h; cases h
  retDue := by
    intro t' e' _ h2
    simp only [SS.dispatchErr.injEq] at h2
    rw [← h2.1]
    exact hT.pcDue t hpc hns
  early := hT.early

theorem advance_now (c : Clock) (t : Time) : c.now ≤ (c.advance t).now := by
  unfold Clock.advance
  rw [fire_now]
  simp only
  split
  · rename_i h; exact Int.le_of_lt h
  · exact Int.le_refl _

theorem TInv_wstep {w w' : World} {a : Act} (hs : WStep w a w') (hI : Inv w) (hT : TInv w)
    (hu : w.UserOk a) (hp : a.postponesHeld w = false) : TInv w' := by
  have same : ∀ t, w.held = some t → FrameT w.obs.repo w.obs.repo t.id := fun t _ => FrameT.refl _ _
  cases hs with
  | stuck a => exact ⟨hT.pcDue, hT.pcCopy, hT.lastDue, hT.retDue, hT.early⟩
  | cancelCtx => exact ⟨hT.pcDue, hT.pcCopy, hT.lastDue, hT.retDue, hT.early⟩
  | quiet a o' p cd g ho hn hp0 hp' hmr =>
    have h1 := hT.obs hI o' (by rw [hn]; exact Int.le_refl _) (by rw [ho]; exact same)
    refine ⟨?_, ?_, h1.lastDue, ?_, h1.early⟩
    · intro t h; simp only at h; rw [hp0] at h; cases h
    · intro t h; simp only at h; rw [h] at hp0; simp [heldPc] at hp0
    · intro t e h; exact absurd h hp'
  | prologue a t hl hp0 =>
    refine ⟨?_, ?_, ?_, ?_, hT.early⟩
    · intro t' h _
      simp only [heldPc, Option.some.injEq] at h
      subst h
      exact hT.lastDue t hl
    · intro t' h; simp at h
    · intro t' h; cases h
    · intro t' e h; cases h
  | fin a s lt g cd hlt hs => exact hT.fin s lt g cd hlt hs
  | res id o x p s hpc hfind hps =>
    have hn := hI.last_none (by rw [hpc]; rfl)
    refine ⟨?_, ?_, ?_, ?_, hT.early⟩
    · intro t h
      rcases hps with ⟨rfl, _⟩ | ⟨rfl, _⟩ <;> simp [heldPc] at h
    · intro t h
      rcases hps with ⟨rfl, _⟩ | ⟨rfl, _⟩ <;> simp at h
    · intro t h; simp only at h; rw [hn] at h; cases h
    · intro t e h1 h2
      rcases hps with ⟨_, rfl, _⟩ | ⟨rfl, _⟩
      · cases h2
      · cases h1
  | getNext t hpc hg =>
    have hn := hI.last_none (by rw [hpc]; rfl)
    refine ⟨?_, ?_, ?_, ?_, hT.early⟩
    · intro t' h hne
      simp only [heldPc, Option.some.injEq] at h
      subst h
      exact absurd rfl hne
    · intro t' h
      simp only [Pc.s_nextSched.injEq] at h
      subst h
      intro cur hl
      have := hI.wf.lookup_mem (Repo.getNext_mem hg).1
      rw [this] at hl
      cases hl
      exact Int.le_refl _
    · intro t' h; simp only at h; rw [hn] at h; cases h
    · intro t' e h; cases h
  | announce t hpc hdue =>
    refine ⟨?_, ?_, ?_, ?_, hT.early⟩
    · intro t' h; simp [heldPc] at h
    · intro t' h; simp at h
    · intro t' h
      simp only [Option.some.injEq] at h
      subst h
      intro cur hl
      exact Int.le_trans (hT.pcCopy t hpc cur hl) (hdue (by rw [hI.fix]))
    · intro t' e _ h; cases h
  | markDone f id o s hpc hs =>
    have h1 := hT.obs hI { w.obs with repo :=
        (Repo.step {} w.obs.repo w.obs.clock.now (.done id (World.outcomeErr o))).1 } (Int.le_refl _)
      (fun t ht => frameT_of_step hI.wf _ _ rfl t.id ?_ (fun p h => by cases h))
    · exact h1.fin s w.lastTask w.getNextErr w.ctxDone (.inl rfl) hs
    · have : heldPc w.pc = none := by rcases hpc with hpc | hpc <;> (rw [hpc]; rfl)
      unfold World.held at ht
      rcases hpc with hpc | hpc <;> (rw [hpc] at ht; simp only at ht; exact (hI.lastHeld t ht).1.1)
  | derr a t e g hpc hns => exact hT.derr hI t e g hpc hns
  | waitGet t hpc =>
    have hn := hI.last_none (by rw [hpc]; rfl)
    refine ⟨?_, ?_, ?_, ?_, hT.early⟩
    · intro t' h _
      simp only [heldPc, Option.some.injEq] at h
      subst h
      exact hT.pcDue t (by rw [hpc]; rfl) (by rw [hpc]; simp)
    · intro t' h; simp at h
    · intro t' h; simp only at h; rw [hn] at h; cases h
    · intro t' e h; cases h
  | waitMark t hpc =>
    have hn := hI.last_none (by rw [hpc]; rfl)
    refine ⟨?_, ?_, ?_, ?_, hT.early⟩
    · intro t' h _
      simp only [heldPc, Option.some.injEq] at h
      subst h
      exact hT.pcDue t (by rw [hpc]; rfl) (by rw [hpc]; simp)
    · intro t' h; simp at h
    · intro t' h; simp only at h; rw [hn] at h; cases h
    · intro t' e h; cases h
  | markErr f hf t r e hpc hnb hcd he =>
    obtain ⟨hr, _, hnw⟩ := obs_step w.obs (.dispatch t.id) hf (rop := .dispatch t.id) rfl
    have hh : w.held = some t := held_of_pc (by rw [hpc]; rfl)
    have h1 := hT.obs hI (w.obs.step (.dispatch t.id) hf).1 (by rw [hnw]; exact Int.le_refl _)
      (fun t' ht' => by
        rw [hr]
        rw [hh] at ht'; cases ht'
        exact frameT_of_step hI.wf _ _ rfl t.id (hI.pcHeld t (by rw [hpc]; rfl)).1 (fun p h => by cases h))
    exact h1.derr (hI.user (.dispatch t.id) hf (.dispatch t.id) rfl trivial rfl rfl) t e true
      (by show heldPc w.pc = some t; rw [hpc]; rfl) (by show w.pc ≠ _; rw [hpc]; simp)
  | markOk f hf t r hpc hnb hcd hok =>
    obtain ⟨hr, _, hnw⟩ := obs_step w.obs (.dispatch t.id) hf (rop := .dispatch t.id) rfl
    have hh : w.held = some t := held_of_pc (by rw [hpc]; rfl)
    have hn := hI.last_none (by rw [hpc]; rfl)
    have h1 := hT.obs hI (w.obs.step (.dispatch t.id) hf).1 (by rw [hnw]; exact Int.le_refl _)
      (fun t' ht' => by
        rw [hr]
        rw [hh] at ht'; cases ht'
        exact frameT_of_step hI.wf _ _ rfl t.id (hI.pcHeld t (by rw [hpc]; rfl)).1 (fun p h => by cases h))
    refine ⟨?_, ?_, ?_, ?_, h1.early⟩
    · intro t' h _
      simp only [heldPc, Option.some.injEq] at h
      subst h
      exact h1.pcDue t (by show heldPc w.pc = some t; rw [hpc]; rfl) (by show w.pc ≠ _; rw [hpc]; simp)
    · intro t' h; simp at h
    · intro t' h; simp only at h; rw [hn] at h; cases h
    · intro t' e h; cases h
  | markCore t r e hpc hcd =>
    have hh : w.held = some t := held_of_pc (by rw [hpc]; rfl)
    have h1 := hT.obs hI { w.obs with repo := (Repo.step {} w.obs.repo w.obs.clock.now (.dispatch t.id)).1 }
      (Int.le_refl _)
      (fun t' ht' => by
        rw [hh] at ht'; cases ht'
        exact frameT_of_step hI.wf _ _ rfl t.id (hI.pcHeld t (by rw [hpc]; rfl)).1 (fun p h => by cases h))
    have hI1 := hI.repo { w.obs with repo := (Repo.step {} w.obs.repo w.obs.clock.now (.dispatch t.id)).1 } true
      (C12_inv_step hI.wf trivial) (FrameP.of_step hI.wf _ _ rfl) (.inl rfl)
    exact h1.derr hI1 t e true
      (by show heldPc w.pc = some t; rw [hpc]; rfl) (by show w.pc ≠ _; rw [hpc]; simp)
  | start t cur hpc hl =>
    have hn := hI.last_none (by rw [hpc]; rfl)
    refine ⟨?_, ?_, ?_, ?_, ?_⟩
    · intro t' h; simp [heldPc] at h
    · intro t' h; simp at h
    · intro t' h; simp only at h; rw [hn] at h; cases h
    · intro t' e _ h; cases h
    · intro e he
      rcases List.mem_append.mp he with he | he
      · exact hT.early e he
      · simp only [List.mem_singleton] at he
        subst he
        exact hT.pcDue t (by rw [hpc]; rfl) (by rw [hpc]; simp) cur hl
  | retryDispatch t e hpc hr =>
    refine ⟨?_, ?_, ?_, ?_, hT.early⟩
    · intro t' h _
      simp only [heldPc, Option.some.injEq] at h
      subst h
      exact hT.retDue t e hpc hr
    · intro t' h; simp at h
    · intro t' h
      have := (hI.lastHeld t' h).2.2
      rw [hr] at this; cases this
    · intro t' e h; cases h
  | refetchNone t hpc hl =>
    obtain ⟨⟨cur, hc⟩, _⟩ := hI.pcHeld t (by rw [hpc]; rfl)
    rw [hl] at hc; cases hc
  | refetch t cur hpc hl =>
    have hn := hI.last_none (by rw [hpc]; rfl)
    refine ⟨?_, ?_, ?_, ?_, hT.early⟩
    · intro t' h _
      simp only [heldPc, Option.some.injEq] at h
      subst h
      exact hT.pcDue t (by rw [hpc]; rfl) (by rw [hpc]; simp)
    · intro t' h; simp at h
    · intro t' h; simp only at h; rw [hn] at h; cases h
    · intro t' e h; cases h
  | user op hf =>
    have stored : ∀ t, w.held = some t → ∃ cur, w.obs.repo.lookup t.id = some cur := by
      intro t ht
      unfold World.held at ht
      cases hpc : w.pc <;> rw [hpc] at ht <;> simp only at ht
      case idle =>
        cases hl : w.lastTask with
        | some t' => rw [hl] at ht; simp only [Option.some.injEq] at ht; subst ht; exact (hI.lastHeld _ hl).1.1
        | none =>
          rw [hl] at ht
          cases hr : w.ret <;> rw [hr] at ht <;> simp only [Option.some.injEq, reduceCtorEq] at ht
          subst ht
          exact (hI.retHeld _ _ hpc hr).1
      case s_nextSched t' => cases ht; exact (hI.pcHeld t (by rw [hpc]; rfl)).1
      case d_wait t' b => cases ht; exact (hI.pcHeld t (by rw [hpc]; rfl)).1
      case d_mark t' b => cases ht; exact (hI.pcHeld t (by rw [hpc]; rfl)).1
      case d_get t' => cases ht; exact (hI.pcHeld t (by rw [hpc]; rfl)).1
      case r_getById t' => cases ht; exact (hI.pcHeld t (by rw [hpc]; rfl)).1
      all_goals exact (hI.lastHeld t ht).1.1
    have viaOp : ∀ (op : Obs.OOp) (rop : Op), toOp op = some rop → plainOp rop = true →
        (∀ t, w.held = some t → ∀ p, rop = .update t.id p → p.scheduledAt = none) →
        TInv { w with obs := (w.obs.step op hf).1 } := by
      intro op rop hop hpl hnp
      obtain ⟨hr, _, hnw⟩ := obs_step w.obs op hf hop
      refine hT.obs hI _ (by rw [hnw]; exact Int.le_refl _) (fun t ht => ?_)
      rw [hr]
      exact frameT_of_step hI.wf _ _ hpl t.id (stored t ht) (hnp t ht)
    cases op with
    | add id p => exact viaOp _ (.add id p) rfl rfl (fun t _ p h => by cases h)
    | update id p =>
      refine viaOp _ (.update id p) rfl rfl (fun t ht p' h => ?_)
      simp only [Op.update.injEq] at h
      obtain ⟨rfl, rfl⟩ := h
      simp only [Act.postponesHeld, World.heldId, ht, Option.map_some, beq_self_eq_true,
        Bool.true_and] at hp
      cases hsa : p.scheduledAt with
      | none => rfl
      | some x => rw [hsa] at hp; cases hp
    | cancel id => exact viaOp _ (.cancel id) rfl rfl (fun t _ p h => by cases h)
    | dispatch id => exact hu.elim
    | start =>
      exact hT.obs hI (w.obs.startTimer hf) (by rw [(startTimer_frame _ _).2]; exact Int.le_refl _)
        (by rw [(startTimer_frame _ _).1]; exact same)
    | stop =>
      exact hT.obs hI w.obs.stopTimer (by rw [(stopTimer_frame _).2]; exact Int.le_refl _) same
    | advance t => exact hu.elim
    | fire => exact hu.elim
  | advance t =>
    exact hT.obs hI { w.obs with clock := w.obs.clock.advance t } (advance_now _ _) same
  | complete id o x hfind => exact ⟨hT.pcDue, hT.pcCopy, hT.lastDue, hT.retDue, hT.early⟩

theorem TInv_init (t0 : Time) : TInv (World.init t0) where
  pcDue := fun t h => by simp [World.init, heldPc] at h
  pcCopy := fun t h => by simp [World.init] at h
  lastDue := fun t h => by simp [World.init] at h
  retDue := fun t e _ h => by simp [World.init] at h
  early := fun e he => by simp [World.init] at he

theorem TInv_run {w : World} {acts : List Act} (hI : Inv w) (hT : TInv w) (hs : w.Script acts)
    (hp : w.NoPostpone acts) : TInv (w.run acts) := by
  induction acts generalizing w with
  | nil => exact hT
  | cons a rest ih =>
    exact ih (Inv_step hI hs.1) (TInv_wstep (step_spec w a) hI hT hs.1 hp.1) hs.2 hp.2

/-! ## Every step is at most one plain repository write -/

theorem repo_wstep {w w' : World} {a : Act} (hs : WStep w a w') (hu : w.UserOk a) :
    w'.obs.repo = w.obs.repo ∨
    ∃ op, plainOp op = true ∧ w'.obs.repo = (Repo.step {} w.obs.repo w.obs.clock.now op).1 := by
  cases hs
  case user op hf =>
    cases op with
    | add id p => exact .inr ⟨.add id p, rfl, (obs_step w.obs _ hf rfl).1⟩
    | update id p => exact .inr ⟨.update id p, rfl, (obs_step w.obs _ hf rfl).1⟩
    | cancel id => exact .inr ⟨.cancel id, rfl, (obs_step w.obs _ hf rfl).1⟩
    | dispatch id => exact hu.elim
    | start => exact .inl (startTimer_frame _ _).1
    | stop => exact .inl rfl
    | advance t => exact hu.elim
    | fire => exact hu.elim
  case markDone f id o s hpc hs hs3 => exact .inr ⟨_, rfl, rfl⟩
  case markErr f hf t r e hpc hnb hcd he => exact .inr ⟨.dispatch t.id, rfl, (obs_step w.obs _ hf rfl).1⟩
  case markOk f hf t r hpc hnb hcd hok => exact .inr ⟨.dispatch t.id, rfl, (obs_step w.obs _ hf rfl).1⟩
  case markCore t r e hpc hcd => exact .inr ⟨.dispatch t.id, rfl, rfl⟩
  case quiet a o' p cd g ho hn hp hp' hmr hq => exact .inl ho
  all_goals exact .inl rfl

/-- cancelled / done / err are absorbing -/
def terminal (s : St) : Prop := s = .cancelled ∨ s = .done ∨ s = .err

theorem terminal_keep {r : Repo} (h : r.WF) (now : Time) (op : Op) (hp : plainOp op = true)
    {id : String} {t : Task} (hl : r.lookup id = some t) (ht : terminal t.state) :
    (Repo.step {} r now op).1.lookup id = some t := by
  rw [step_lookup h now op hp id, hl]
  simp only [stepTask, Option.some.injEq]
  have h1 : t.state ≠ .scheduled := by rcases ht with h | h | h <;> rw [h] <;> simp
  have h2 : t.state ≠ .dispatched := by rcases ht with h | h | h <;> rw [h] <;> simp
  cases op <;> simp only [stepOne] <;> try rfl
  all_goals split
  all_goals first
    | rfl
    | (rename_i hc; exact absurd hc.2.2 h1)
    | (rename_i hc; exact absurd hc.2 h1)
    | (rename_i hc; exact absurd hc.2 h2)

theorem terminal_step {w : World} {a : Act} (hI : Inv w) (hu : w.UserOk a) {id : String} {t : Task}
    (hl : w.obs.repo.lookup id = some t) (ht : terminal t.state) :
    (w.step a).obs.repo.lookup id = some t := by
  rcases repo_wstep (step_spec w a) hu with h | ⟨op, hp, h⟩ <;> rw [h]
  · exact hl
  · exact terminal_keep hI.wf _ op hp hl ht

/-! ## Completion bookkeeping (C06 at quiescence) -/

/-- the stored task records outcome `o`; a run ended by dispatcher cancellation is left dispatched -/
def recordedQ (o : Outcome) (t : Task) : Prop :=
  match o with
  | .nil => t.state = .done
  | .err msg => t.state = .err ∧ t.err = msg
  | .ctxCanceled => t.state = .dispatched

def Rec (r : Repo) (id : String) (o : Outcome) : Prop := ∃ t, r.lookup id = some t ∧ recordedQ o t

/-- the outcome is on its way to the repository: `MarkAsDone` is about to be called, or failed and the
returned state awaits `Retry` -/
def Pend (w : World) (id : String) (o : Outcome) : Prop :=
  o ≠ .ctxCanceled ∧ (∃ t, w.obs.repo.lookup id = some t ∧ t.state = .dispatched) ∧
  (w.pc = .s_markDone id o ∨ w.pc = .r_markDone id o ∨
    (w.pc = .idle ∧ ∃ e, w.ret = .taskDone id o (some e)))

structure QInv (w : World) : Prop where
  rep : ∀ id o, (id, o) ∈ w.reported → Rec w.obs.repo id o ∨ Pend w id o
  live : ∀ id, 0 < cnt w.running id + cnt w.completed id →
    ∃ t, w.obs.repo.lookup id = some t ∧ t.state = .dispatched
  src : ∀ id o, (w.pc = .s_markDone id o ∨ w.pc = .r_markDone id o ∨ ∃ e, w.ret = .taskDone id o e) →
    (id, o) ∈ w.reported
  noCtx : ∀ id o, (w.pc = .s_markDone id o ∨ w.pc = .r_markDone id o) → o ≠ .ctxCanceled
  cover : ∀ e ∈ w.log, 0 < cnt w.running e.id + cnt w.completed e.id + cnt w.reported e.id

theorem recordedQ_ne_sched {o : Outcome} {t : Task} (h : recordedQ o t) : t.state ≠ .scheduled := by
  cases o <;> simp only [recordedQ] at h
  · rw [h]; simp
  · rw [h.1]; simp
  · rw [h]; simp

theorem keep_ne {r : Repo} (h : r.WF) (now : Time) (op : Op) (hp : plainOp op = true) {id : String}
    {cur : Task} (hl : r.lookup id = some cur) (hs : cur.state ≠ .scheduled)
    (hne : ∀ e, op ≠ .done id e) : (Repo.step {} r now op).1.lookup id = some cur := by
  rw [step_lookup h now op hp id, hl]
  simp only [stepTask, Option.some.injEq]
  cases op <;> simp only [stepOne] <;> try rfl
  all_goals split
  all_goals first
    | rfl
    | (rename_i hc; exact absurd hc.2.2 hs)
    | (rename_i hc; exact absurd hc.2 hs)
    | (rename_i hc; exact absurd (by rw [hc.1]) (hne _))

theorem mem_cnt_pos {α : Type} {l : List (String × α)} {id : String} {o : α} (h : (id, o) ∈ l) :
    0 < cnt l id := by
  unfold cnt
  exact List.count_pos_iff.mpr (List.mem_map.mpr ⟨(id, o), h, rfl⟩)

theorem reported_unique {α : Type} {l : List (String × α)} {id : String} {o o' : α}
    (hc : cnt l id ≤ 1) (h1 : (id, o) ∈ l) (h2 : (id, o') ∈ l) : o = o' := by
  induction l with
  | nil => cases h1
  | cons x xs ih =>
    unfold cnt at hc ih
    simp only [List.map_cons, List.count_cons] at hc
    rcases List.mem_cons.mp h1 with rfl | h1' <;> rcases List.mem_cons.mp h2 with h2' | h2'
    · cases h2'; rfl
    · have := mem_cnt_pos h2'
      unfold cnt at this
      simp at hc
      omega
    · subst h2'
      have := mem_cnt_pos h1'
      unfold cnt at this
      simp at hc
      omega
    · exact ih (by omega) h1' h2'

theorem retryOk_step {w : World} (h : w.retryOk (.sched .beginStep) = true) (hpc : w.pc = .idle) :
    ∀ id o e, w.ret ≠ .taskDone id o (some e) := by
  intro id o e hr
  simp [World.retryOk, hpc, hr] at h

theorem retryOk_retry {w : World} (h : w.retryOk (.sched .beginRetry) = true) (hpc : w.pc = .idle) :
    ∀ id e, w.ret ≠ .taskDone id .ctxCanceled e := by
  intro id e hr
  simp [World.retryOk, hpc, hr] at h

/-- the store changes but every task that is not scheduled stays as it is -/
theorem QInv.repo {w : World} (hQ : QInv w) (o' : Obs)
    (hk : ∀ id cur, w.obs.repo.lookup id = some cur → cur.state ≠ .scheduled →
      o'.repo.lookup id = some cur) : QInv { w with obs := o' } where
  rep := by
    intro id o h
    rcases hQ.rep id o h with ⟨t, ht, hr⟩ | ⟨h1, ⟨t, ht, hd⟩, h3⟩
    · exact .inl ⟨t, hk id t ht (recordedQ_ne_sched hr), hr⟩
    · exact .inr ⟨h1, ⟨t, hk id t ht (by rw [hd]; simp), hd⟩, h3⟩
  live := by
    intro id h
    obtain ⟨t, ht, hd⟩ := hQ.live id h
    exact ⟨t, hk id t ht (by rw [hd]; simp), hd⟩
  src := hQ.src
  noCtx := hQ.noCtx
  cover := hQ.cover

/-- only the control state changes -/
theorem QInv.ctl {w : World} (hQ : QInv w) (p : Pc) (s : SS) (lt : Option Task) (g cd : Bool)
    (hpend : ∀ id o, (id, o) ∈ w.reported → Pend w id o →
      (p = .s_markDone id o ∨ p = .r_markDone id o ∨ (p = .idle ∧ ∃ e, s = .taskDone id o (some e))))
    (hsrc : ∀ id o, (p = .s_markDone id o ∨ p = .r_markDone id o ∨ ∃ e, s = .taskDone id o e) →
      (id, o) ∈ w.reported)
    (hno : ∀ id o, (p = .s_markDone id o ∨ p = .r_markDone id o) → o ≠ .ctxCanceled) :
    QInv { w with pc := p, ret := s, lastTask := lt, getNextErr := g, ctxDone := cd } where
  rep := by
    intro id o h
    rcases hQ.rep id o h with hr | hp
    · exact .inl hr
    · exact .inr ⟨hp.1, hp.2.1, hpend id o h hp⟩
  live := hQ.live
  src := hsrc
  noCtx := hno
  cover := hQ.cover

/-- nothing is pending unless the scheduler is at a `MarkAsDone` call or idle -/
theorem Pend.pc {w : World} {id : String} {o : Outcome} (h : Pend w id o) :
    w.pc = .s_markDone id o ∨ w.pc = .r_markDone id o ∨ w.pc = .idle := by
  rcases h.2.2 with h | h | h
  · exact .inl h
  · exact .inr (.inl h)
  · exact .inr (.inr h.1)

theorem QInv_wstep {w w' : World} {a : Act} (hs : WStep w a w') (hI : Inv w) (hQ : QInv w)
    (hu : w.UserOk a) (hr : w.retryOk a = true) : QInv w' := by
  -- control moves out of a state in which nothing can be pending, into a state that is not a
  -- `MarkAsDone` call and does not return `TaskDone`
  have plain : ∀ (p : Pc) (s : SS) (lt : Option Task) (g cd : Bool),
      (∀ id o, w.pc ≠ .s_markDone id o ∧ w.pc ≠ .r_markDone id o) →
      (w.pc = .idle → ∀ id o e, w.ret ≠ .taskDone id o (some e)) →
      (∀ id o, p ≠ .s_markDone id o ∧ p ≠ .r_markDone id o) →
      (s = w.ret ∨ ∀ id o e, s ≠ .taskDone id o e) →
      QInv { w with pc := p, ret := s, lastTask := lt, getNextErr := g, ctxDone := cd } := by
    intro p s lt g cd h1 h2 h3 h4
    refine hQ.ctl p s lt g cd ?_ ?_ ?_
    · intro id o _ hp
      rcases hp.2.2 with h | h | h
      · exact absurd h (h1 id o).1
      · exact absurd h (h1 id o).2
      · obtain ⟨e, he⟩ := h.2; exact absurd he (h2 h.1 id o e)
    · intro id o h
      rcases h with h | h | ⟨e, h⟩
      · exact absurd h (h3 id o).1
      · exact absurd h (h3 id o).2
      · rcases h4 with h4 | h4
        · exact hQ.src id o (.inr (.inr ⟨e, by rw [← h4]; exact h⟩))
        · exact absurd h (h4 id o e)
    · intro id o h
      rcases h with h | h
      · exact absurd h (h3 id o).1
      · exact absurd h (h3 id o).2
  have viaOp : ∀ (o' : Obs) (rop : Op), plainOp rop = true → notDone rop = true →
      o'.repo = (Repo.step {} w.obs.repo w.obs.clock.now rop).1 → QInv { w with obs := o' } := by
    intro o' rop hp hnd he
    refine hQ.repo o' (fun id cur hl hs => ?_)
    rw [he]
    exact keep_ne hI.wf _ rop hp hl hs (fun e h => by rw [h] at hnd; cases hnd)
  cases hs with
  | stuck a => exact ⟨hQ.rep, hQ.live, hQ.src, hQ.noCtx, hQ.cover⟩
  | cancelCtx => exact ⟨hQ.rep, hQ.live, hQ.src, hQ.noCtx, hQ.cover⟩
  | quiet a o' p cd g ho hn hp hp' hmr hq =>
    have h1 := hQ.repo o' (fun id cur hl _ => by rw [ho]; exact hl)
    obtain ⟨q1, q2, q3⟩ := hq
    refine h1.ctl p w.ret w.lastTask g cd ?_ ?_ ?_
    · intro id o _ hpd
      rcases hpd.2.2 with h | h | h
      · exact absurd h (q1 id o).1
      · exact absurd h (q1 id o).2.1
      · obtain ⟨e, he⟩ := h.2
        rcases q2 h.1 with rfl | ⟨rfl, ⟨id', o', e', hr', hp''⟩ | ⟨e', hr'⟩⟩
        · exact absurd he (retryOk_step hr h.1 id o e)
        · have : SS.taskDone id o (some e) = SS.taskDone id' o' e' := he.symm.trans hr'
          cases this
          exact .inr (.inl hp'')
        · have : SS.taskDone id o (some e) = SS.timerUpdateError e' := he.symm.trans hr'
          cases this
    · intro id o h
      rcases h with h | h | h
      · exact absurd h (q1 id o).2.2
      · obtain ⟨_, _, e, he⟩ := q3 id o h
        exact hQ.src id o (.inr (.inr ⟨e, he⟩))
      · exact hQ.src id o (.inr (.inr h))
    · intro id o h
      rcases h with h | h
      · exact absurd h (q1 id o).2.2
      · obtain ⟨hpc, rfl, e, he⟩ := q3 id o h
        intro hc
        subst hc
        exact retryOk_retry hr hpc id e he
  | prologue a t hl hp hfrom =>
    exact plain _ w.ret none false w.ctxDone
      (fun id o => by rcases hfrom with h | h <;> (rw [h]; simp))
      (fun h => by rcases hfrom with h' | h' <;> (rw [h'] at h; cases h))
      (fun id o => by simp) (.inl rfl)
  | fin a s lt g cd hlt hs hq =>
    obtain ⟨q1, q2, q3⟩ := hq
    refine hQ.ctl .idle s lt g cd ?_ ?_ ?_
    · intro id o _ hpd
      rcases hpd.2.2 with h | h | h
      · exact .inr (.inr ⟨rfl, q1 id o (.inl h)⟩)
      · exact .inr (.inr ⟨rfl, q1 id o (.inr h)⟩)
      · obtain ⟨e, he⟩ := h.2
        exact absurd he ((q3 h.1).2 id o (some e))
    · intro id o h
      rcases h with h | h | ⟨e, h⟩
      · cases h
      · cases h
      · rcases q2 id o e h with h' | h'
        · exact hQ.src id o (.inl h')
        · exact hQ.src id o (.inr (.inl h'))
    · intro id o h
      rcases h with h | h <;> cases h
  | res id o x p s hpc hfind hps =>
    have hcpos := cnt_pos_of_find hfind
    obtain ⟨t, ht, hd⟩ := hQ.live id (by omega)
    have nopend : ∀ id' o', ¬ Pend w id' o' := by
      intro id' o' hp
      rcases hp.pc with h | h | h <;> rw [hpc] at h <;> cases h
    refine ⟨?_, ?_, ?_, ?_, ?_⟩
    · intro id' o' h
      rcases List.mem_append.mp h with h | h
      · rcases hQ.rep id' o' h with hr | hp
        · exact .inl hr
        · exact absurd hp (nopend id' o')
      · simp only [List.mem_singleton, Prod.mk.injEq] at h
        obtain ⟨rfl, rfl⟩ := h
        rcases hps with ⟨_, _, rfl⟩ | ⟨rfl, _, hne⟩
        · exact .inl ⟨t, ht, hd⟩
        · exact .inr ⟨hne, ⟨t, ht, hd⟩, .inl rfl⟩
    · intro id' h
      apply hQ.live id'
      simp only [cnt_filter] at h
      split at h <;> omega
    · intro id' o' h
      rcases hps with ⟨rfl, rfl, _⟩ | ⟨rfl, rfl, _⟩
      · rcases h with h | h | ⟨e, h⟩
        · cases h
        · cases h
        · cases h; exact List.mem_append_right _ (List.mem_singleton.mpr rfl)
      · rcases h with h | h | h
        · cases h; exact List.mem_append_right _ (List.mem_singleton.mpr rfl)
        · cases h
        · exact List.mem_append_left _ (hQ.src id' o' (.inr (.inr h)))
    · intro id' o' h
      rcases hps with ⟨rfl, _, _⟩ | ⟨rfl, _, hne⟩
      · rcases h with h | h <;> cases h
      · rcases h with h | h
        · cases h; exact hne
        · cases h
    · intro e he
      have := hQ.cover e he
      simp only [cnt_filter, cnt_append_one]
      by_cases hid : e.id = id
      · simp only [hid, if_true]; omega
      · simp only [hid, if_false, Nat.add_zero]; exact this
  | getNext t hpc hg =>
    exact plain _ w.ret w.lastTask w.getNextErr w.ctxDone (fun id o => by rw [hpc]; simp)
      (fun h => by rw [hpc] at h; cases h) (fun id o => by simp) (.inl rfl)
  | announce t hpc hdue =>
    exact plain _ _ (some t) false w.ctxDone (fun id o => by rw [hpc]; simp)
      (fun h => by rw [hpc] at h; cases h) (fun id o => by simp) (.inr (fun _ _ _ h => by cases h))
  | markDone f id o s hpc hs hs3 =>
    have hmem : (id, o) ∈ w.reported := hQ.src id o (by rcases hpc with h | h; exact .inl h; exact .inr (.inl h))
    have hno : o ≠ .ctxCanceled := hQ.noCtx id o hpc
    have hrp := mem_cnt_pos hmem
    have hcn := (hI.counts id).1
    have hop : plainOp (.done id (World.outcomeErr o)) = true := rfl
    refine ⟨?_, ?_, ?_, ?_, hQ.cover⟩
    · intro id' o' h
      by_cases hid : id' = id
      · subst hid
        have : o' = o := reported_unique (l := w.reported) (by omega) h hmem
        subst this
        refine .inl ?_
        rcases hQ.rep id' o' h with ⟨t, ht, hrq⟩ | ⟨_, ⟨t, ht, hd⟩, _⟩
        · have hterm : terminal t.state := by
            cases o' <;> simp only [recordedQ] at hrq
            · exact .inr (.inl hrq)
            · exact .inr (.inr hrq.1)
            · exact absurd rfl hno
          exact ⟨t, terminal_keep hI.wf _ _ hop ht hterm, hrq⟩
        · refine ⟨doneTask w.obs.clock.now (World.outcomeErr o') t, ?_, ?_⟩
          · show (Repo.step {} w.obs.repo w.obs.clock.now (.done id' (World.outcomeErr o'))).1.lookup id' = _
            rw [step_lookup hI.wf _ _ hop, ht]
            simp [stepTask, stepOne, hd]
          · cases o' <;> simp [recordedQ, doneTask, World.outcomeErr] at hno ⊢
      · rcases hQ.rep id' o' h with ⟨t, ht, hrq⟩ | hp
        · exact .inl ⟨t, keep_ne hI.wf _ _ hop ht (recordedQ_ne_sched hrq)
            (fun e h' => by simp only [Op.done.injEq] at h'; exact hid h'.1.symm), hrq⟩
        · exfalso
          rcases hp.pc with h' | h' | h' <;> rcases hpc with h'' | h'' <;> rw [h''] at h' <;>
            simp at h' <;> exact hid h'.1.symm
    · intro id' h
      change 0 < cnt w.running id' + cnt w.completed id' at h
      obtain ⟨t, ht, hd⟩ := hQ.live id' h
      have hid : id' ≠ id := by
        rintro rfl
        omega
      exact ⟨t, keep_ne hI.wf _ _ hop ht (by rw [hd]; simp)
        (fun e h' => by simp only [Op.done.injEq] at h'; exact hid h'.1.symm), hd⟩
    · intro id' o' h
      rcases h with h | h | ⟨e, h⟩
      · cases h
      · cases h
      · rcases hs3 with rfl | ⟨e', rfl⟩
        · cases h
        · cases h; exact hmem
    · intro id' o' h
      rcases h with h | h <;> cases h
  | derr a t e g hpc hns =>
    exact plain _ _ w.lastTask g w.ctxDone
      (fun id o => by constructor <;> (intro h; rw [h] at hpc; cases hpc))
      (fun h => by rw [h] at hpc; cases hpc) (fun id o => by simp) (.inr (fun _ _ _ h => by cases h))
  | waitGet t hpc =>
    exact plain _ w.ret w.lastTask w.getNextErr w.ctxDone (fun id o => by rw [hpc]; simp)
      (fun h => by rw [hpc] at h; cases h) (fun id o => by simp) (.inl rfl)
  | waitMark t hpc =>
    exact plain _ w.ret w.lastTask w.getNextErr w.ctxDone (fun id o => by rw [hpc]; simp)
      (fun h => by rw [hpc] at h; cases h) (fun id o => by simp) (.inl rfl)
  | markErr f hf t r e hpc hnb hcd he =>
    have h1 := viaOp (w.obs.step (.dispatch t.id) hf).1 (.dispatch t.id) rfl rfl
      (obs_step w.obs _ hf rfl).1
    refine h1.ctl .idle (.dispatchErr t e) w.lastTask true w.ctxDone ?_ ?_ ?_
    · intro id o _ hp
      rcases hp.pc with h | h | h <;> (change w.pc = _ at h; rw [hpc] at h; cases h)
    · intro id o h
      rcases h with h | h | ⟨_, h⟩ <;> cases h
    · intro id o h
      rcases h with h | h <;> cases h
  | markOk f hf t r hpc hnb hcd hok =>
    have h1 := viaOp (w.obs.step (.dispatch t.id) hf).1 (.dispatch t.id) rfl rfl
      (obs_step w.obs _ hf rfl).1
    refine h1.ctl (.d_get t) w.ret w.lastTask w.getNextErr w.ctxDone ?_ ?_ ?_
    · intro id o _ hp
      rcases hp.pc with h | h | h <;> (change w.pc = _ at h; rw [hpc] at h; cases h)
    · intro id o h
      rcases h with h | h | h
      · cases h
      · cases h
      · exact hQ.src id o (.inr (.inr h))
    · intro id o h
      rcases h with h | h <;> cases h
  | markCore t r e hpc hcd =>
    have h1 := viaOp { w.obs with repo := (Repo.step {} w.obs.repo w.obs.clock.now (.dispatch t.id)).1 }
      (.dispatch t.id) rfl rfl rfl
    refine h1.ctl .idle (.dispatchErr t e) w.lastTask true w.ctxDone ?_ ?_ ?_
    · intro id o _ hp
      rcases hp.pc with h | h | h <;> (change w.pc = _ at h; rw [hpc] at h; cases h)
    · intro id o h
      rcases h with h | h | ⟨_, h⟩ <;> cases h
    · intro id o h
      rcases h with h | h <;> cases h
  | start t cur hpc hl =>
    obtain ⟨cur', hl', hsd⟩ := hI.marked t (.inl hpc)
    rw [hl] at hl'
    cases hl'
    have nopend : ∀ id' o', ¬ Pend w id' o' := by
      intro id' o' hp
      rcases hp.pc with h | h | h <;> rw [hpc] at h <;> cases h
    refine ⟨?_, ?_, ?_, ?_, ?_⟩
    · intro id o h
      rcases hQ.rep id o h with hr | hp
      · exact .inl hr
      · exact absurd hp (nopend id o)
    · intro id h
      simp only [cnt_append_one] at h
      by_cases hid : id = t.id
      · subst hid; exact ⟨cur, hl, hsd⟩
      · simp only [hid, if_false, Nat.add_zero] at h
        exact hQ.live id h
    · intro id o h
      rcases h with h | h | ⟨_, h⟩ <;> cases h
    · intro id o h
      rcases h with h | h <;> cases h
    · intro e he
      simp only [cnt_append_one]
      rcases List.mem_append.mp he with he | he
      · have := hQ.cover e he
        split <;> omega
      · simp only [List.mem_singleton] at he
        subst he
        simp only [if_true]; omega
  | retryDispatch t e hpc hr' =>
    exact plain _ w.ret w.lastTask w.getNextErr false (fun id o => by rw [hpc]; simp)
      (fun _ id o e' h => by rw [hr'] at h; cases h) (fun id o => by simp) (.inl rfl)
  | refetchNone t hpc hl =>
    exact plain _ w.ret w.lastTask w.getNextErr w.ctxDone (fun id o => by rw [hpc]; simp)
      (fun h => by rw [hpc] at h; cases h) (fun id o => by simp) (.inl rfl)
  | refetch t cur hpc hl =>
    exact plain _ w.ret w.lastTask w.getNextErr w.ctxDone (fun id o => by rw [hpc]; simp)
      (fun h => by rw [hpc] at h; cases h) (fun id o => by simp) (.inl rfl)
  | user op hf =>
    cases op with
    | add id p => exact viaOp _ (.add id p) rfl rfl (obs_step w.obs _ hf rfl).1
    | update id p => exact viaOp _ (.update id p) rfl rfl (obs_step w.obs _ hf rfl).1
    | cancel id => exact viaOp _ (.cancel id) rfl rfl (obs_step w.obs _ hf rfl).1
    | dispatch id => exact hu.elim
    | start =>
      exact hQ.repo (w.obs.startTimer hf) (fun id cur hl _ => by rw [(startTimer_frame _ _).1]; exact hl)
    | stop => exact hQ.repo w.obs.stopTimer (fun id cur hl _ => hl)
    | advance t => exact hu.elim
    | fire => exact hu.elim
  | advance t =>
    exact hQ.repo { w.obs with clock := w.obs.clock.advance t } (fun id cur hl _ => hl)
  | complete id o x hfind =>
    have hrpos := cnt_pos_of_find hfind
    refine ⟨hQ.rep, ?_, hQ.src, hQ.noCtx, ?_⟩
    · intro id' h
      simp only [cnt_filter, cnt_append_one] at h
      by_cases hid : id' = id
      · subst hid; exact hQ.live id' (by omega)
      · simp only [hid, if_false, Nat.add_zero] at h
        exact hQ.live id' h
    · intro e he
      have := hQ.cover e he
      simp only [cnt_filter, cnt_append_one]
      by_cases hid : e.id = id
      · simp only [hid, if_true]; omega
      · simp only [hid, if_false, Nat.add_zero]; exact this

theorem QInv_init (t0 : Time) : QInv (World.init t0) where
  rep := fun id o h => by simp [World.init] at h
  live := fun id h => by simp [World.init, cnt] at h
  src := fun id o h => by simp [World.init] at h
  noCtx := fun id o h => by simp [World.init] at h
  cover := fun e he => by simp [World.init] at he

theorem QInv_run {w : World} {acts : List Act} (hI : Inv w) (hQ : QInv w) (hs : w.Script acts)
    (hr : w.RetryDiscipline acts) : QInv (w.run acts) := by
  induction acts generalizing w with
  | nil => exact hQ
  | cons a rest ih =>
    exact ih (Inv_step hI hs.1) (QInv_wstep (step_spec w a) hI hQ hs.1 hr.1) hs.2 hr.2

theorem cnt_pos_mem {α : Type} {l : List (String × α)} {id : String} (h : 0 < cnt l id) :
    ∃ o, (id, o) ∈ l := by
  unfold cnt at h
  obtain ⟨p, hp, he⟩ := List.mem_map.mp (List.count_pos_iff.mp h)
  exact ⟨p.2, by rw [← he]; exact hp⟩

/-- completions only enter the system through `complete` actions -/
theorem lists_wstep {w w' : World} {a : Act} (hs : WStep w a w') (p : String × Outcome)
    (h : p ∈ w'.completed ∨ p ∈ w'.reported) :
    p ∈ w.completed ∨ p ∈ w.reported ∨ a = .complete p.1 p.2 := by
  cases hs
  case res id o x p' s hpc hfind hps =>
    rcases h with h | h
    · exact .inl (List.mem_filter.mp h).1
    · rcases List.mem_append.mp h with h | h
      · exact .inr (.inl h)
      · simp only [List.mem_singleton] at h
        subst h
        have h1 := List.mem_of_find?_eq_some hfind
        have h2 := List.find?_some hfind
        simp only [beq_iff_eq] at h2
        subst h2
        exact .inl h1
  case complete id o x hfind =>
    rcases h with h | h
    · rcases List.mem_append.mp h with h | h
      · exact .inl h
      · simp only [List.mem_singleton] at h
        subst h
        exact .inr (.inr rfl)
    · exact .inr (.inl h)
  all_goals (rcases h with h | h; exact .inl h; exact .inr (.inl h))

theorem lists_run (w : World) (acts : List Act) (p : String × Outcome)
    (h : p ∈ (w.run acts).completed ∨ p ∈ (w.run acts).reported) :
    p ∈ w.completed ∨ p ∈ w.reported ∨ .complete p.1 p.2 ∈ acts := by
  induction acts generalizing w with
  | nil => rcases h with h | h; exact .inl h; exact .inr (.inl h)
  | cons a rest ih =>
    rcases ih (w.step a) h with h | h | h
    · rcases lists_wstep (step_spec w a) p (.inl h) with h | h | h
      · exact .inl h
      · exact .inr (.inl h)
      · exact .inr (.inr (by rw [h]; exact List.mem_cons_self))
    · rcases lists_wstep (step_spec w a) p (.inr h) with h | h | h
      · exact .inl h
      · exact .inr (.inl h)
      · exact .inr (.inr (by rw [h]; exact List.mem_cons_self))
    · exact .inr (.inr (List.mem_cons_of_mem _ h))

end WP
end Gk
