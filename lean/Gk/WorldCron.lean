/-
M8c — the scheduler in its cron configuration: `/repo/scheduler/scheduler.go` (`Step`, `Retry`,
`dispatchTask`) over `/repo/scheduler/repository.go` (`volatileTaskRepo`) over the cron store
(`Gk.Cron`, M9). Same program-counter automaton as `Gk.World`, with the repository calls replaced by
what `volatileTaskRepo` does:

* `GetNext`          = `Peek` on the cron store, remembered in `record`;
* `MarkAsDispatched` = `Peek`; if the head is the announced occurrence `Pop` (whatever is the head
                       THEN — the two cron calls are separate critical sections of the cron store, an
                       `EditTask` can land between them: finding D18) and mark the record dispatched;
                       if not, and the record is known: forget it and answer `AlreadyCancelled`;
                       else answer nil;
* `GetById`          = the record;
* `MarkAsDone`       = forget the record;
* timer, `NextScheduled`, Start/Stop = the cron store's; `LastTimerUpdateError` is always nil.

`Peek` and `Pop` are actions of their own (`SActC.peek`, `SActC.pop`), so that user edits can be
placed between them exactly as the harness places them on the real code. Occurrence ids are random
UUIDs in the code; the model names an occurrence `#<rank>` (its insertion rank in the cron store) and
the driver keeps the bijection.
-/
import Gk.World
import Gk.Cron
namespace Gk

def WTask.tid (w : WTask) : String := "#" ++ toString w.rank
def WTask.out (w : WTask) : Task := { w.task with id := w.tid }

structure VRepo where
  cron : Cron := {}
  record : List (String × Task) := []
  deriving Repr, Inhabited

namespace VRepo
def peek (v : VRepo) : Option Task := v.cron.head.map WTask.out
def lookup (v : VRepo) (id : String) : Option Task := (v.record.find? (·.1 == id)).map (·.2)
def del (v : VRepo) (id : String) : VRepo := { v with record := v.record.filter (·.1 != id) }
def put (v : VRepo) (id : String) (t : Task) : VRepo := { v with record := v.record.filter (·.1 != id) ++ [(id, t)] }
end VRepo

inductive CPc
  | idle
  | s_lastErr0 | s_stop | s_start | s_lastErr1
  | s_select
  | s_getNext                          -- GetNext called, Peek not yet issued
  | s_getNextRet (r : Option Task)     -- Peek answered, GetNext about to return
  | s_nextSched (t : Task)
  | s_markDone (id : String) (o : Outcome)
  | d_wait (t : Task) (retry : Bool)
  | d_mark (t : Task)                  -- MarkAsDispatched called, Peek not yet issued
  | d_markPop (t : Task)               -- the Peek named `t`: Pop is next
  | d_markRet (t : Task) (e : Option Err)
  | d_get (t : Task)
  | r_stop | r_start | r_lastErr
  | r_getById (t : Task)
  | r_markDone (id : String) (o : Outcome)
  deriving DecidableEq, Repr, Inhabited

structure CWorld where
  fix : Fix := {}
  v : VRepo := {}
  lastTask : Option Task := none
  getNextErr : Bool := false
  pc : CPc := .idle
  running : List (String × Task) := []
  completed : List (String × Outcome) := []
  log : List RunEntry := []
  popped : List String := []                   -- ids of the occurrences `Pop` removed, in order
  reported : List (String × Outcome) := []
  ret : SS := .zero
  ctxDone : Bool := false
  stuck : Bool := false
  deriving Repr, Inhabited

inductive SActC
  | beginStep | beginRetry
  | lastTimerErr | stopTimer | startTimer
  | selCtx | selTimer | selResult (id : String)
  | peek | pop
  | getNext (f : Fault)
  | nextScheduled
  | markDone (f : Fault)
  | waitWorker (acquired : Bool)
  | cancelCtx
  | markDispatched (f : Fault)
  | getById (f : Fault)
  deriving Repr, Inhabited

inductive ActC
  | sched (a : SActC)
  | edit (added removed : List String)
  | advance (t : Time)
  | complete (id : String) (o : Outcome)
  deriving Repr, Inhabited

/-- what a scheduler-side call returned -/
inductive RespC
  | unit
  | err (e : Option Err)
  | task (t : Task)
  | otask (t : Option Task)
  | nextSched (t : Time) (ok : Bool)
  | stuck
  deriving DecidableEq, Repr, Inhabited

namespace CWorld

def now (w : CWorld) : Time := w.v.cron.clock.now
def finish (w : CWorld) (s : SS) : CWorld := { w with ret := s, pc := .idle }
/-- `dispatchTask` gives up: also remember to restart the timer in the next `Step` (D21) -/
def finishDE (w : CWorld) (s : SS) : CWorld := { w.finish s with getNextErr := true }
def setCron (w : CWorld) (c : Cron) : CWorld := { w with v := { w.v with cron := c } }

def afterPrologue (w : CWorld) : CWorld :=
  let w := { w with getNextErr := false }
  match w.lastTask with
  | some t => { w with lastTask := none, pc := .d_wait t false }
  | none => { w with pc := .s_select }

def sched (w : CWorld) (a : SActC) : CWorld × RespC :=
  match w.pc, a with
  | _, .cancelCtx => ({ w with ctxDone := true }, .unit)
  | .idle, .beginStep =>
    let w := { w with ctxDone := false }
    (if w.getNextErr then { w with pc := .s_stop } else { w with pc := .s_lastErr0 }, .unit)
  | .s_lastErr0, .lastTimerErr => (w.afterPrologue, .err none)
  | .s_stop, .stopTimer => ({ w.setCron w.v.cron.stopTimer with pc := .s_start }, .unit)
  | .s_start, .startTimer => ({ w.setCron w.v.cron.startTimer with pc := .s_lastErr1 }, .unit)
  | .s_lastErr1, .lastTimerErr => (w.afterPrologue, .err none)
  | .s_select, .selCtx => (w.finish .awaitingNext, .unit)
  | .s_select, .selTimer =>
    let (c, got) := w.v.cron.clock.consume
    if got then ({ w.setCron { w.v.cron with clock := c } with pc := .s_getNext }, .unit)
    else ({ w with stuck := true }, .stuck)
  | .s_select, .selResult id =>
    match w.completed.find? (·.1 == id) with
    | none => ({ w with stuck := true }, .stuck)
    | some (_, o) =>
      let w := { w with completed := w.completed.eraseP (·.1 == id), reported := w.reported ++ [(id, o)] }
      if o == .ctxCanceled then (w.finish (.taskDone id o none), .unit)
      else ({ w with pc := .s_markDone id o }, .unit)
  -- GetNext = Peek + remember
  | .s_getNext, .getNext _ =>   -- the call fails before `Peek` is reached
    (({ w with lastTask := none, getNextErr := true }).finish (.nextTask none (some .other)), .err (some .other))
  | .s_getNext, .peek =>
    let r := w.v.peek
    let v := match r with | some t => w.v.put t.id t | none => w.v
    ({ w with v := v, pc := .s_getNextRet r }, .otask r)
  | .s_getNextRet r, .getNext f =>
    if f != .none then
      (({ w with lastTask := none, getNextErr := true }).finish (.nextTask none (some .other)), .err (some .other))
    else
      match r with
      | none =>
        (({ w with lastTask := none, getNextErr := true }).finish (.nextTask none (some .exhausted)),
          .err (some .exhausted))
      | some t => ({ w with pc := .s_nextSched t }, .task t)
  | .s_nextSched t, .nextScheduled =>
    let (ns, ok) := w.v.cron.nextScheduled
    let due := !w.fix.dueCheck || t.scheduledAt ≤ w.now
    if !ok || ns != t.scheduledAt || !due then
      (({ w with getNextErr := w.fix.restartOnChanged }).finish (.nextTask none (some .schedChanged)),
        .nextSched ns ok)
    else (({ w with lastTask := some t, getNextErr := false }).finish (.nextTask (some t) none), .nextSched ns ok)
  -- MarkAsDone = forget the record (never fails by itself)
  | .s_markDone id o, .markDone f =>
    if f == .before then (w.finish (.taskDone id o (some .other)), .err (some .other))
    else
      let w := { w with v := w.v.del id }
      let e := if f == .after then some Err.other else none
      (w.finish (.taskDone id o e), .err e)
  | .d_wait t retry, .waitWorker acquired =>
    if !acquired then (w.finishDE (.dispatchErr t .ctx), .err (some .ctx))
    else if retry then ({ w with pc := .d_get t }, .unit)
    else ({ w with pc := .d_mark t }, .unit)
  -- MarkAsDispatched = Peek; [Pop]; bookkeeping
  | .d_mark t, .markDispatched .before => (w.finishDE (.dispatchErr t .other), .err (some .other))
  | .d_mark t, .peek =>
    match w.v.peek with
    | none => ({ w with pc := .d_markRet t (some .exhausted) }, .otask none)
    | some p =>
      if p.id == t.id then ({ w with pc := .d_markPop t }, .otask (some p))
      else if (w.v.lookup t.id).isSome then
        ({ w with v := w.v.del t.id, pc := .d_markRet t (some .alreadyCancelled) }, .otask (some p))
      else ({ w with pc := .d_markRet t none }, .otask (some p))
  | .d_markPop t, .pop =>
    -- the cron store pops whatever its head is NOW
    match w.v.cron.head with
    | none => ({ w with pc := .d_markRet t (some .exhausted) }, .otask none)
    | some h =>
      let (c, _) := w.v.cron.pop
      let v := { w.v with cron := c }
      let v := match v.lookup t.id with
        | some r => v.put t.id { r with state := .dispatched }
        | none => v
      ({ w with v := v, popped := w.popped ++ [h.tid], pc := .d_markRet t none }, .otask (some h.out))
  | .d_markRet t e, .markDispatched f =>
    let e : Option Err := if f == .after then some .other else e
    match e with
    | some e => (w.finishDE (.dispatchErr t e), .err (some e))
    | none => ({ w with pc := .d_get t }, .err none)
  | .d_get t, .getById f =>
    if f != .none then (w.finishDE (.dispatchErr t .other), .err (some .other))
    else
      match w.v.lookup t.id with
      | none => (w.finishDE (.dispatchErr t .idNotFound), .err (some .idNotFound))
      | some cur =>
        let w := { w with running := w.running ++ [(t.id, cur)],
                          log := w.log ++ [({ id := t.id, at_ := w.now, task := cur } : RunEntry)] }
        (w.finish (.dispatched t.id), .task cur)
  -- Retry
  | .idle, .beginRetry =>
    let w := { w with ctxDone := false }
    match w.ret with
    | .timerUpdateError _ => ({ w with pc := .r_stop }, .unit)
    | .dispatchErr t _ => ({ w with pc := .r_getById t }, .unit)
    | .taskDone id o _ => ({ w with pc := .r_markDone id o }, .unit)
    | _ => (w.finish .zero, .unit)
  | .r_stop, .stopTimer => ({ w.setCron w.v.cron.stopTimer with pc := .r_start }, .unit)
  | .r_start, .startTimer => ({ w.setCron w.v.cron.startTimer with pc := .r_lastErr }, .unit)
  | .r_lastErr, .lastTimerErr => (w.finish .zero, .err none)
  | .r_getById t, .getById f =>
    if f != .none then (w.finish (.dispatchErr t .other), .err (some .other))
    else
      match w.v.lookup t.id with
      | none => ({ w with pc := .d_wait World.zeroTask (!w.fix.retryMarks) }, .err (some .idNotFound))
      | some cur =>
        ({ w with pc := .d_wait t (if w.fix.retryMarks then cur.state == .dispatched else true) }, .task cur)
  | .r_markDone id o, .markDone f =>
    if f == .before then (w.finish (.taskDone id o (some .other)), .err (some .other))
    else
      let w := { w with v := w.v.del id }
      if f == .after then (w.finish (.taskDone id o (some .other)), .err (some .other))
      else (w.finish .zero, .err none)
  | _, _ => ({ w with stuck := true }, .stuck)

def step (w : CWorld) : ActC → CWorld
  | .sched a => (w.sched a).1
  | .edit added removed => w.setCron (w.v.cron.editTask added removed).1
  | .advance t => w.setCron { w.v.cron with clock := w.v.cron.clock.advance t }
  | .complete id o =>
    match w.running.find? (·.1 == id) with
    | none => { w with stuck := true }
    | some _ => { w with running := w.running.eraseP (·.1 == id), completed := w.completed ++ [(id, o)] }

def run (w : CWorld) (acts : List ActC) : CWorld := acts.foldl step w

/-- C03 on the run log -/
def noEarlyStart (w : CWorld) : Bool := w.log.all (fun e => e.task.scheduledAt ≤ e.at_)
/-- C04: no occurrence is run twice -/
def atMostOnce (w : CWorld) : Bool := (w.log.map (·.id)).eraseDups.length == w.log.length
/-- C04: the record handed to the work function is in state dispatched -/
def dispatchedAtEntry (w : CWorld) : Bool := w.log.all (fun e => e.task.state == .dispatched)
/-- C04 / C15 in this configuration: every occurrence whose work function started is one the cron
store actually handed out (`Pop`), and every popped occurrence was started or is accounted for -/
def ranArePopped (w : CWorld) : Bool := w.log.all (fun e => w.popped.contains e.id)

end CWorld
end Gk
