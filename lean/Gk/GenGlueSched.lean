/-
Glue for the generated scheduler (Gk/Gen/Scheduler.lean; scheduler/scheduler.go). The Go struct holds interfaces
(repository, dispatcher), channels, an event queue and a mutex; `GoSched` is the receiver of the generated methods.

EVERY call the Go code makes on its repository / dispatcher — and the `select` — is ONE ACTION of the program-counter
automaton `Gk.World.sched` (Gk/World.lean), which is the model C03–C06 / C20 are proved about. The glue functions
below take that action (after letting the environment `orc.env k` change the world: user mutations, time, completions,
context cancellation, …) and hand the automaton's answer back to the generated code in Go's shape. So the generated
`Step` / `Retry` DRIVE the automaton; Props/TieSched proves that they drive it correctly: no call the automaton does
not expect at its program counter (never `stuck`), back at `idle` when the method returns, the returned `StepState`
is the automaton's `ret`, and Go's private fields `lastTask` / `getNextErr` are the automaton's.

Hand-written = ASSUMED: that the real repository / dispatcher / event queue answer as `World.sched` says is what the
`sched` family's replay checks on every run; `StepState` and its constructors (scheduler/state.go) are this inductive.
-/
import Gk.Gen.Def
import Gk.GenGlue
import Gk.World
namespace Gk

def toGenT (t : Gk.Task) : Gen.Def.Task :=
  { Id := t.id, WorkId := t.workId, Priority := t.priority, State := t.state.name, Err := t.err,
    Param := t.param, Meta := t.meta_, ScheduledAt := t.scheduledAt, CreatedAt := t.createdAt,
    Deadline := t.deadline, CancelledAt := t.cancelledAt, DispatchedAt := t.dispatchedAt, DoneAt := t.doneAt }

/-- error classes as Go values (injective) -/
def goErrS : Err → GoErr
  | .ctx => .ctx
  | .schedChanged => .sentinel "scheduler stopped or changed"
  | .invalidTask => .wrap (.sentinel "invalid task")
  | .idNotFound => .repo "" "id_not_found"
  | .alreadyCancelled => .repo "" "already_cancelled"
  | .alreadyDispatched => .repo "" "already_dispatched"
  | .alreadyDone => .repo "" "already_done"
  | .notDispatched => .repo "" "not_dispatched"
  | .exhausted => .repo "" "exhausted"
  | .workIdNotFound => .sentinel "work_id not found"
  | .other => .other "error"

namespace Go
def sched_ErrScheduleStoppedOrChanged : GoError := some (goErrS .schedChanged)
/-- the sentinel `context.Canceled` -/
def context_Canceled : GoError := some (.sentinel "context canceled")
/-- `errors.Is(err, target)` for a sentinel target: err is the target or wraps it -/
def isErr : GoErr → GoErr → Bool
  | .wrap e, t => (GoErr.wrap e == t) || isErr e t
  | e, t => e == t
/-- `def.IsDefError`: one of the three sentinels of package def (possibly wrapped) or any `*RepositoryError` -/
def isDefErr : GoErr → Bool
  | .repo _ _ => true
  | .sentinel n => n == "invalid task" || n == "work_id not found" || n == "not a registered meta"
  | .wrap e => isDefErr e
  | _ => false
def def_IsDefError (e : GoError) : Bool := match e with | some e => isDefErr e | none => false
/-- a Go `panic`: the call does not return (callers must exclude the case; see the hypotheses of Props/TieSched) -/
def panic {α : Type} [Inhabited α] (_msg : String) : α := default
def errors_Is (e target : GoError) : Bool :=
  match e, target with
  | some e, some t => isErr e t
  | _, _ => false
end Go

structure GoTaskResult where
  beforeDispatch : Gen.Def.Task := default
  err : GoError := none
  deriving Inhabited

/-- `scheduler.StepState` (state.go) -/
inductive GoStepState
  | zero
  | timerUpdateError (e : GoError)
  | awaitingNext (e : GoError)
  | nextTask (t : Gen.Def.Task) (e : GoError)
  | dispatchErr (t : Gen.Def.Task) (e : GoError)
  | dispatched (id : String)
  | taskDone (id : String) (taskErr updateErr : GoError)
  deriving Inhabited

/-- `StepState.Err()` (state.go) -/
def GoStepState.Err : GoStepState → GoError
  | .timerUpdateError e => e
  | .awaitingNext e => e
  | .nextTask _ e => e
  | .dispatchErr _ e => e
  | .taskDone _ _ ue => ue
  | _ => none

inductive SelCase
  | ctxDone
  | result (r : GoTaskResult)
  | timer
  deriving Inhabited

/-- the result channel a successful Dispatch returns (what it will deliver is the environment's business) -/
structure GoChan where
  val : GoError := none
  deriving Inhabited

namespace Go
def chanRecv (c : GoChan) : GoError := c.val
end Go

/-- Everything the environment decides during one `Step` / `Retry`. -/
structure SchedOrc where
  env : Nat → World → World := fun _ w => w   -- what happens before the k-th scheduler action of this call
  sel : SAct := .selCtx                         -- the select case the runtime would like to take
  hookFault : Option Err := none
  fGetNext : Fault := .none
  fMarkDone : Fault := .none
  fMark : Fault := .none
  hfMark : Option Err := none
  fGet : Fault := .none
  acquired : Bool := true

instance : Inhabited SchedOrc := ⟨{}⟩

structure GoSched where
  w : World := {}
  lastTask : Option Gen.Def.Task := none
  getNextErr : GoError := none
  orc : SchedOrc := {}
  k : Nat := 0
  reserved : List (Unit → GoTaskResult) := []

instance : Inhabited GoSched := ⟨{}⟩

namespace GoSched

/-- the k-th scheduler action of this call: the environment first, then the automaton -/
def act (s : GoSched) (a : SAct) : GoSched × Resp :=
  let w := s.orc.env s.k s.w
  let (w', r) := w.sched a
  ({ s with w := w', k := s.k + 1 }, r)

def errOfResp : Resp → GoError
  | .err (some e) => some (goErrS e)
  | _ => none

def outcomeGo : Outcome → GoError
  | .nil => none
  | .err m => some (.other m)
  | .ctxCanceled => Go.context_Canceled

def beginStep (s : GoSched) : GoSched := (s.act .beginStep).1
def beginRetry (s : GoSched) : GoSched := (s.act .beginRetry).1

def repoLastTimerUpdateError (s : GoSched) : GoSched × GoError :=
  let (s, r) := s.act .lastTimerErr; (s, errOfResp r)
def repoStopTimer (s : GoSched) : GoSched := (s.act .stopTimer).1
def repoStartTimer (s : GoSched) (_ctx : Ctx) : GoSched := (s.act (.startTimer s.orc.hookFault)).1

/-- which select cases are ready -/
def selEnabled (w : World) : SAct → Bool
  | .selTimer => w.obs.clock.pending
  | .selResult id => (w.completed.find? (·.1 == id)).isSome
  | _ => false

/-- `select`: the runtime's preferred case if it is ready, else the context case -/
def selectCase (s : GoSched) : GoSched × SelCase :=
  let w := s.orc.env s.k s.w
  let a := if selEnabled w s.orc.sel then s.orc.sel else SAct.selCtx
  let (w', _) := w.sched a
  let s' := { s with w := w', k := s.k + 1 }
  match a with
  | .selTimer => (s', .timer)
  | .selResult id =>
    let o := ((w.completed.find? (·.1 == id)).map (·.2)).getD .nil
    (s', .result { beforeDispatch := { (default : Gen.Def.Task) with Id := id }, err := outcomeGo o })
  | _ => (s', .ctxDone)

def repoGetNext (s : GoSched) (_ctx : Ctx) : GoSched × Gen.Def.Task × GoError :=
  let (s, r) := s.act (.getNext s.orc.fGetNext)
  match r with
  | .task t => (s, toGenT t, none)
  | r => (s, default, errOfResp r)

def repoNextScheduled (s : GoSched) : GoSched × Time × Bool :=
  let (s, r) := s.act .nextScheduled
  match r with
  | .nextSched t ok => (s, t, ok)
  | _ => (s, 0, false)

def clockNow (s : GoSched) : Time := s.w.obs.clock.now

def repoMarkAsDone (s : GoSched) (_ctx : Ctx) (_id : String) (_e : GoError) : GoSched × GoError :=
  let (s, r) := s.act (.markDone s.orc.fMarkDone); (s, errOfResp r)

def repoMarkAsDispatched (s : GoSched) (_ctx : Ctx) (_id : String) : GoSched × GoError :=
  let (s, r) := s.act (.markDispatched s.orc.fMark s.orc.hfMark); (s, errOfResp r)

def repoGetById (s : GoSched) (_ctx : Ctx) (_id : String) : GoSched × Gen.Def.Task × GoError :=
  let (s, r) := s.act (.getById s.orc.fGet)
  match r with
  | .task t => (s, toGenT t, none)
  | r => (s, default, errOfResp r)

/-- `dispatcher.Dispatch(ctx, fetcher)`: wait for a worker (or the context), run the fetcher on that worker, hand
back the result channel or the fetcher's error. -/
def dispatch (s : GoSched) (ctx : Ctx)
    (fetch : Ctx → GoSched → GoSched × Gen.Def.Task × GoError) : GoSched × GoChan × GoError :=
  let (s, r) := s.act (.waitWorker s.orc.acquired)
  match r with
  | .unit =>
    let (s, _task, err) := fetch ctx s
    if err.isSome then (s, default, err) else (s, default, none)
  | r => (s, default, (errOfResp r).or (some (goErrS .ctx)))

/-- `eventQueue.Reserve(f)`: remembered; the automaton already lists the task as running -/
def reserve (s : GoSched) (f : Unit → GoTaskResult) : GoSched := { s with reserved := s.reserved ++ [f] }

end GoSched
end Gk
