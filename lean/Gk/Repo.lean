/-
M2 — `Spec.Repo`: the reference semantics of `def.Repository` shared by both implementations.
State = the stored tasks in insertion order (the insertion rank of a task is its position).
Each method is one total function; a refused operation returns the state it was given.

Transcribed from /repo/repository/inmemory/repository.go and /repo/repository/ent/repository.go
(+ dispatch_reverter.go, ended_deleter.go). Refusals are classified exactly as the code does it,
i.e. from the task's *timestamps* via `errKind`; that this agrees with the task's *state* is a
theorem (Props/C01) that needs the C12 consistency invariant.
-/
import Gk.Basic
import Gk.Query
namespace Gk

/-- The task `fakeTask` of ent's `UpdateById` (any valid task does). -/
def fakeTask : Task :=
  { id := "%%%%$$$$%%%%$$$$%%%%$$$$", workId := "foo", priority := 0, state := .scheduled, err := "",
    param := [("foo", "bar")], meta_ := [("baz", "qux")],
    scheduledAt := 63817874939123000000, createdAt := 63817788539123000000,
    deadline := none, cancelledAt := none, dispatchedAt := none, doneAt := none }

/-- `fakeTask.Update(param).IsValid()`. -/
def Param.validForUpdate (p : Param) : Bool := (fakeTask.update p).isValid

structure Repo where
  tasks : List Task := []
  deriving Repr, Inhabited, DecidableEq

inductive Op
  | add (id : String) (p : Param)
  | get (id : String)
  | update (id : String) (p : Param)
  | cancel (id : String)
  | dispatch (id : String)
  | done (id : String) (err : Option String)
  | find (q : Query) (offset limit : Int)
  | next
  -- ent only
  | revert | cancelDispatched | deleteEnded
  deriving Repr, Inhabited

inductive Out
  | ok
  | err (e : Err)
  | task (t : Task)
  | tasks (ts : List Task)
  deriving Repr, Inhabited, DecidableEq

def Out.isErr : Out → Bool
  | .err _ => true
  | _ => false

/-- Implementation switches the model is parameterised by (DESIGN M2). -/
structure Flags where
  /-- `TaskQueryParam.Normalize` normalises the `Deadline` operand (false on the pinned source, D6). -/
  normDeadline : Bool := true
  /-- `RevertDispatched` clears `dispatched_at` (false on the pinned source, D8). -/
  revertClears : Bool := true
  deriving Repr, Inhabited

namespace Repo

def lookup (r : Repo) (id : String) : Option Task := r.tasks.find? (·.id == id)

/-- Replace the (first) task with this id. -/
def replace (r : Repo) (id : String) (f : Task → Task) : Repo :=
  { tasks := r.tasks.map (fun t => if t.id == id then f t else t) }

/-- Keys of the scheduled tasks, paired with the task, rank = position. -/
def scheduledKeyed (ts : List Task) : List (Key × Task) :=
  (ts.zipIdx.filter (fun p => p.1.state == .scheduled)).map (fun p => (p.1.key p.2, p.1))

/-- Minimum by `Key.less` (first minimal element). -/
def minKeyed : List (Key × Task) → Option (Key × Task)
  | [] => none
  | x :: xs =>
    match minKeyed xs with
    | none => some x
    | some m => if m.1.less x.1 then some m else some x

/-- `GetNext`: the `less`-minimum of the scheduled tasks. -/
def getNext (r : Repo) : Option Task := (minKeyed (scheduledKeyed r.tasks)).map (·.2)

def mutateScheduled (r : Repo) (id : String) (f : Task → Task) : Repo × Out :=
  match r.lookup id with
  | none => (r, .err .idNotFound)
  | some t =>
    if t.state != .scheduled then
      match errKindMutate t with
      | some e => (r, .err e)
      | none => (r, .ok)   -- the code returns a nil error here (unreachable under C12's invariant)
    else (r.replace id f, .ok)

def step (fl : Flags) (r : Repo) (now : Time) : Op → Repo × Out
  | .add id p =>
    let t := p.normalize.toTask id now
    if !t.isValid then (r, .err .invalidTask)
    else ({ tasks := r.tasks ++ [t] }, .task t)
  | .get id =>
    match r.lookup id with
    | none => (r, .err .idNotFound)
    | some t => (r, .task t)
  | .update id p =>
    if !p.validForUpdate then (r, .err .invalidTask)
    else mutateScheduled r id (fun t => t.update p.normalize)
  | .cancel id =>
    mutateScheduled r id (fun t => { t with state := .cancelled, cancelledAt := some (normalize now) })
  | .dispatch id =>
    mutateScheduled r id (fun t => { t with state := .dispatched, dispatchedAt := some (normalize now) })
  | .done id e =>
    match r.lookup id with
    | none => (r, .err .idNotFound)
    | some t =>
      if t.state != .dispatched then
        match errKindMarkAsDone t with
        | some k => (r, .err k)
        | none => (r, .ok)
      else
        (r.replace id (fun t =>
          match e with
          | none => { t with state := .done, doneAt := some (normalize now) }
          | some msg => { t with state := .err, err := msg, doneAt := some (normalize now) }), .ok)
  | .find q offset limit =>
    (r, .tasks (findLoop (q.normalize fl.normDeadline).matches (byCreated r.tasks) offset limit))
  | .next =>
    match r.getNext with
    | none => (r, .err .exhausted)
    | some t => (r, .task t)
  | .revert =>
    ({ tasks := r.tasks.map (fun t =>
        if t.state == .dispatched then
          { t with state := .scheduled,
                   dispatchedAt := if fl.revertClears then none else t.dispatchedAt }
        else t) }, .ok)
  | .cancelDispatched =>
    ({ tasks := r.tasks.map (fun t =>
        if t.state == .dispatched then
          { t with state := .cancelled, cancelledAt := some (normalize now) }
        else t) }, .ok)
  | .deleteEnded =>
    ({ tasks := r.tasks.filter (fun t => t.state == .scheduled || t.state == .dispatched) }, .ok)

/-- Run a history: each element is the clock reading and the operation. -/
def run (fl : Flags) (r : Repo) : List (Time × Op) → Repo
  | [] => r
  | (now, op) :: rest => run fl (step fl r now op).1 rest

end Repo
end Gk
