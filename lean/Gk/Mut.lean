/-
M10 — mutators. Transcribed from /repo/mutator/*.go:
`parseDur`, `DecodeRandomizeScheduledAt`, `RandomizeScheduledAt.Mutate`, `ScheduleAtNow`,
`Mutators.Apply`, `defaultMutatorStore.Load`, `ParamMutatingRepository.AddTask`, and a transcription
of `crypto/rand.Int`'s mask-and-reject loop over an explicit byte list.

External calls are parameters: the results of `time.ParseDuration` and `strconv.ParseInt` on a label
value are oracle inputs (`ParseOracle`), the random source is a byte list, the clock a reading.
-/
import Gk.Basic
import Gk.Query
namespace Gk.Mut

def labelMin : String := "ngicks.RandomizeScheduledAt.min"
def labelMax : String := "ngicks.RandomizeScheduledAt.max"
def labelNow : String := "ngicks.ScheduleAtNow"

/-- What `time.ParseDuration s` and `strconv.ParseInt s 10 64` returned (`none` = error). -/
structure ParseOracle where
  dur : Option Int
  int : Option Int
  deriving Repr, Inhabited, DecidableEq

/-- `parseDur`: empty → 0, duration string, or integer nanoseconds, else error (`none`). -/
def parseDur (s : String) (o : ParseOracle) : Option Int :=
  if s == "" then some 0
  else match o.dur with
    | some d => some d
    | none => o.int

inductive Mutator
  | now
  | randomize (min max : Int)
  deriving Repr, Inhabited, DecidableEq

/-- `DecodeRandomizeScheduledAt`: `.ok none` = labels absent, `.error` = malformed. -/
def decodeRandomize (meta_ : SMap) (oMin oMax : ParseOracle) : Except Unit (Option Mutator) :=
  let mx := SMap.lookup meta_ labelMax
  let mn := SMap.lookup meta_ labelMin
  match mx, mn with
  | none, none => .ok none
  | _, _ =>
    let maxV : Option Int := match mx with | some s => parseDur s oMax | none => some 0
    match maxV with
    | none => .error ()
    | some maxV =>
      let minV : Option Int := match mn with | some s => parseDur s oMin | none => some 0
      match minV with
      | none => .error ()
      | some minV => .ok (some (.randomize minV maxV))

/-- `defaultMutatorStore.Load`: ScheduleAtNow first, then RandomizeScheduledAt. -/
def load (meta_ : SMap) (oMin oMax : ParseOracle) : Except Unit (List Mutator) :=
  if meta_.isEmpty then .ok []
  else
    let first := if (SMap.lookup meta_ labelNow).isSome then [Mutator.now] else []
    match decodeRandomize meta_ oMin oMax with
    | .error _ => .error ()
    | .ok none => .ok first
    | .ok (some m) => .ok (first ++ [m])

def bitLen : Nat → Nat
  | 0 => 0
  | n + 1 => Nat.log2 (n + 1) + 1

def bytesToNat (bs : List Nat) : Nat := bs.foldl (fun acc b => acc * 256 + b) 0

inductive RandOut
  | val (n : Nat) (rest : List Nat)
  | panic            -- argument ≤ 0
  | eof              -- the reader ran dry (io.ReadFull error → Mutate panics)
  deriving Repr, DecidableEq

/-- The rejection loop of `crypto/rand.Int`: `k` bytes per draw, top byte masked to `b` bits. -/
def randLoop (max k b : Nat) : Nat → List Nat → RandOut
  | 0, _ => .eof
  | fuel + 1, bytes =>
    if bytes.length < k then .eof
    else
      let draw := bytes.take k
      let rest := bytes.drop k
      let masked := match draw with
        | [] => []
        | x :: xs => (x % (2 ^ b)) :: xs
      let n := bytesToNat masked
      if n < max then .val n rest else randLoop max k b fuel rest

/-- `crypto/rand.Int(reader, max)`. -/
def randInt (max : Int) (bytes : List Nat) : RandOut :=
  if max ≤ 0 then .panic
  else
    let m := max.toNat
    let bl := bitLen (m - 1)
    if bl == 0 then .val 0 bytes
    else
      let k := (bl + 7) / 8
      let b := if bl % 8 == 0 then 8 else bl % 8
      randLoop m k b (bytes.length + 1) bytes

def wrap64 (x : Int) : Int :=
  let m := x % (2 ^ 64)
  if m ≥ 2 ^ 63 then m - 2 ^ 64 else m

inductive MutOut
  | ok (p : Param) (rest : List Nat)
  | panic
  deriving Repr

/-- `RandomizeScheduledAt.Mutate`. `fixed = false`: the pinned source (int64 arithmetic, `rand.Int`
called with the possibly-zero difference); `fixed = true`: exact arithmetic, degenerate window = `min`. -/
def mutateRandomize (fixed : Bool) (min max : Int) (p : Param) (bytes : List Nat) : MutOut :=
  let sched := p.scheduledAt.getD 0
  if fixed then
    let diff := max - min
    let neg := diff < 0
    let a := if neg then -diff else diff
    if a == 0 then .ok { p with scheduledAt := some (sched + min) } bytes
    else match randInt a bytes with
      | .val n rest =>
        let rv : Int := if neg then -(n : Int) else n
        .ok { p with scheduledAt := some (sched + (min + rv)) } rest
      | _ => .panic
  else
    let diff := wrap64 (max - min)
    let neg := diff < 0
    let a := if neg then wrap64 (-diff) else diff
    match randInt a bytes with
    | .val n rest =>
      let rv : Int := if neg then wrap64 (-(n : Int)) else n
      .ok { p with scheduledAt := some (sched + wrap64 (min + rv)) } rest
    | _ => .panic

/-- `ScheduleAtNow.Mutate`: `ScheduledAt = clock.Now()`, then `Normalize`. -/
def mutateNow (now : Time) (p : Param) : Param := ({ p with scheduledAt := some now }).normalize

/-- `Mutators.Apply`. -/
def apply (fixed : Bool) (now : Time) : List Mutator → Param → List Nat → MutOut
  | [], p, bytes => .ok p bytes
  | .now :: ms, p, bytes => apply fixed now ms (mutateNow now p) bytes
  | .randomize mn mx :: ms, p, bytes =>
    match mutateRandomize fixed mn mx p bytes with
    | .ok p' rest => apply fixed now ms p' rest
    | .panic => .panic

end Gk.Mut
