/-
Driver of the cron configuration of the `sched` family: the real Scheduler over `volatileTaskRepo`
over a real CronStore. Every line is first given to `DrvSched.stepLine` (the monitors on the
implementation's own lines); in the cron configuration it is then replayed on `Gk.CWorld`
(correspondence, tag `schedcron`). Occurrence ids are UUIDs in the implementation and `#<rank>` in the
model; the bijection is built from the Peek / Pop answers and checked for consistency.
-/
import Gk.DrvSched
import Gk.WorldCron
namespace Gk.DrvSchedCron
open Gk Gk.Proto Gk.DrvSched

structure S where
  m : DrvSched.S := {}
  cw : CWorld := {}
  idmap : List (String × String) := []      -- implementation id ↦ model id
  deriving Inhabited

def tr (s : S) (id : String) : String := ((s.idmap.find? (·.1 == id)).map (·.2)).getD id
def trTask (s : S) (t : Task) : Task := { t with id := tr s t.id }

/-- bind the implementation's id of an occurrence to the model's; report an inconsistent binding -/
def bind (s : S) (impl model : String) : S × List String :=
  match s.idmap.find? (·.1 == impl), s.idmap.find? (·.2 == model) with
  | some (_, m), _ => (s, if m == model then [] else
      [s!"DIFF schedcron occurrence {impl} was the model's {m}, now answers where the model has {model}"])
  | none, some (i, _) => (s, [s!"DIFF schedcron the model's occurrence {model} was {i} in the implementation, now {impl}"])
  | none, none => ({ s with idmap := s.idmap ++ [(impl, model)] }, [])

def showRespC : RespC → String
  | .unit => "ok"
  | .err e => (match e with | none => "ok" | some e => "err " ++ encErr e)
  | .task t => "ok " ++ encTask t
  | .otask none => "err exhausted"
  | .otask (some t) => "ok " ++ encTask t
  | .nextSched t ok => s!"{t} {if ok then "1" else "0"}"
  | .stuck => "STUCK"

/-- compare an answer that carries a task: bind ids first, then compare field by field -/
def cmpTaskResp (s : S) (what : String) (model : Option Task) (resp : List String) : S × List String :=
  match model, resp with
  | none, "err" :: _ => (s, [])
  | some mt, "ok" :: toks =>
    match decTask toks with
    | some (it, _) =>
      let (s, d) := bind s it.id mt.id
      (s, d ++ (if trTask s it == mt then [] else [s!"DIFF schedcron {what} model={encTask mt} impl={encTask (trTask s it)}"]))
    | none => (s, [s!"DIFF parse bad {what} response"])
  | none, _ => (s, [s!"DIFF schedcron {what}: the model's store is exhausted, impl={" ".intercalate (resp.take 3)}"])
  | some mt, _ => (s, [s!"DIFF schedcron {what}: model={encTask mt} impl={" ".intercalate (resp.take 3)}"])

def call (s : S) (a : SActC) (resp : List String) (cmp : Bool := true) : S × List String :=
  let (w', r) := s.cw.sched a
  if r == .stuck then
    ({ s with cw := { w' with stuck := false } },
      [s!"DIFF schedcron the model's scheduler is at {repr s.cw.pc} and cannot perform {repr a}"])
  else
    let s := { s with cw := w' }
    if !cmp then (s, []) else
    match r with
    | .task t => cmpTaskResp s (reprStr a) (some t) resp
    | .otask t => cmpTaskResp s (reprStr a) t resp
    | r =>
      let exp := showRespC r
      (s, if exp == " ".intercalate resp then [] else [s!"DIFF schedcron {reprStr a} model={exp} impl={" ".intercalate resp}"])

def trSS (s : S) (toks : List String) : String :=
  -- translate the id token of a `ret` line
  match toks with
  | ["next_task", id, e] => s!"next_task {if id == "-" then "-" else encStr (tr s ((decStr id).getD id))} {e}"
  | ["dispatch_err", id, e] => s!"dispatch_err {encStr (tr s ((decStr id).getD id))} {e}"
  | ["dispatched", id] => s!"dispatched {encStr (tr s ((decStr id).getD id))}"
  | ["task_done", id, o, e] => s!"task_done {encStr (tr s ((decStr id).getD id))} {o} {e}"
  | _ => " ".intercalate toks

def names (s : String) : List String := if s == "-" then [] else (s.splitOn ",").filterMap decStr

def modelLine (s : S) (req resp : List String) : S × List String :=
  match req with
  | "ent" :: name :: start :: hash :: rest =>
    match decStr name, decTime start, decStr hash, decParam rest with
    | some name, some start, some hash, some (p, a :: b :: c :: d :: k :: occ) =>
      let o (x : String) : Option Int := if x == "-" then none else x.toInt?
      let occ := (occ.take (k.toNat?.getD 0)).filterMap decTime
      let e : CEntry := { name, base := p, hash, prev := start, occ, oMin := ⟨o a, o b⟩, oMax := ⟨o c, o d⟩ }
      ({ s with cw := s.cw.setCron { s.cw.v.cron with ents := s.cw.v.cron.ents ++ [e] } }, [])
    | _, _, _, _ => (s, ["DIFF parse bad ent line"])
  | ["newstore", t0, ns] =>
    let c := { s.cw.v.cron with clock := { now := (decTime t0).getD 0 } }
    let (c, ok) := c.editTask (names ns) []
    ({ s with cw := s.cw.setCron c }, if ok then [] else ["DIFF schedcron the model rejects the initial entries"])
  | ["start"] => ({ s with cw := s.cw.setCron s.cw.v.cron.startTimer }, [])
  | ["u", "edit", add, rem] =>
    -- `EditTask` compares Entry pointers: adding a stored entry / removing one that is not stored is no change
    let stored := s.cw.v.cron.entries.map (·.2)
    let added := (names add).filter (fun n => !stored.contains n)
    let removed := (names rem).filter (fun n => stored.contains n)
    let (c, ok) := s.cw.v.cron.editTask added removed
    let exp := if ok then "ok" else "err"
    ({ s with cw := s.cw.setCron c },
      if exp == resp.headD "" then [] else [s!"DIFF schedcron EditTask model={exp} impl={" ".intercalate resp}"])
  | ["adv", t] =>
    match decTime t with
    | some t => ({ s with cw := s.cw.step (.advance t) }, [])
    | none => (s, ["DIFF parse bad adv"])
  | ["cx"] => call s .cancelCtx [] false
  | ["begin", "step"] => call s .beginStep [] false
  | ["begin", "retry"] => call s .beginRetry [] false
  | ["q", "lasterr"] => call s .lastTimerErr resp
  | ["q", "stop"] => call s .stopTimer [] false
  | ["q", "start", _] => call s .startTimer [] false
  | ["sel", "ctx"] => call s .selCtx [] false
  | ["sel", "timer"] => call s .selTimer [] false
  | ["sel", "result", id] => call s (.selResult (tr s ((decStr id).getD id))) [] false
  | ["q", "peek", _] => call s .peek resp
  | ["q", "pop", _] => call s .pop resp
  | ["q", "getnext", f] => call s (.getNext (decFault f)) resp
  | ["q", "nextsched"] => call s .nextScheduled resp
  | ["q", "markdone", f, _, _] => call s (.markDone (decFault f)) resp
  | ["dw", k] => call s (.waitWorker (k == "acquired")) [] false
  | ["q", "markdisp", f, _, _] => call s (.markDispatched (decFault f)) resp
  | ["q", "getbyid", f, _] => call s (.getById (decFault f)) resp
  | "work" :: id :: now :: rest =>
    match decStr id, decTime now, decTask rest with
    | some id, some now, some (t, _) =>
      let d := match s.cw.log.getLast? with
        | some e => if e.id == tr s id && e.at_ == now && e.task == trTask s t then [] else
            [s!"DIFF schedcron work start differs: model=({e.id},{e.at_},{encTask e.task}) impl=({tr s id},{now},{encTask (trTask s t)})"]
        | none => ["DIFF schedcron the model started no work function here"]
      (s, d)
    | _, _, _ => (s, [])
  | ["complete", id, o] =>
    match decStr id, decOutcome o with
    | some id, some o =>
      let w := s.cw.step (.complete (tr s id) o)
      if w.stuck then ({ s with cw := { w with stuck := false } }, [s!"DIFF schedcron completion of {tr s id}: not running in the model"])
      else ({ s with cw := w }, [])
    | _, _ => (s, [])
  | "ret" :: rest =>
    let exp := showSS s.cw.ret
    let got := trSS s rest
    (s, if exp == got then [] else [s!"DIFF schedcron returned state model={exp} impl={got}"])
  | ["cst"] =>
    match resp with
    | now :: armed :: pending :: n :: rest =>
      match decTime now, decOptTime armed, n.toNat?.bind (fun n => decTasks n rest) with
      | some now, some armed, some (tasks, _) =>
        let c := s.cw.v.cron
        let mt := (Cron.sorted c.pending).map WTask.out
        let it := tasks.map (trTask s)
        -- pending occurrences not yet seen through Peek/Pop are unbound: compare those without ids
        let same := mt.length == it.length && (mt.zip it).all (fun (a, b) =>
          a == b || (!(s.idmap.any (·.1 == b.id)) && !(s.idmap.any (·.2 == a.id)) && { a with id := "" } == { b with id := "" }))
        let d :=
          (if c.clock.now == now then [] else [s!"DIFF schedcron now model={c.clock.now} impl={now}"]) ++
          (if c.clock.armed == armed then [] else [s!"DIFF schedcron armed model={encOptTime c.clock.armed} impl={encOptTime armed}"]) ++
          (if c.clock.pending == (pending == "1") then [] else [s!"DIFF schedcron pending model={c.clock.pending} impl={pending}"]) ++
          (if same then [] else ["DIFF schedcron Schedule() model=" ++ " ; ".intercalate (mt.map encTask) ++ " impl=" ++
              " ; ".intercalate (it.map encTask)]) ++
          (if c.oracleExhausted then ["DIFF parse occurrence oracle exhausted"] else [])
        (s, d)
      | _, _, _ => (s, ["DIFF parse bad cst line"])
    | _ => (s, ["DIFF parse bad cst line"])
  | _ => (s, [])

def stepLine (s : S) (req resp : List String) : S × List String :=
  let (m', out) := DrvSched.stepLine s.m req resp
  let s := match req with
    | "new" :: _ => ({ m := m' } : S)
    | _ => { s with m := m' }
  if m'.noModel && req.head? != some "new" then
    let (s, d) := modelLine s req resp
    (s, out ++ d)
  else (s, out)

end Gk.DrvSchedCron
