/-
Driver for the `entproto` family (C10): the SQL repository executed one statement at a time by the harness
(gating database/sql driver), replayed on the model `Gk.Ent` (Gk/EntProto.lean).
  call <c> <repo request …>      -> ok          client c calls (repo family syntax, ctx flag 0)
  stmt <c>                       -> fin | miss  c's first statement ran: the call is decided / the UPDATE matched no row
  cls <c> <now'>                 -> fin | retry c's classifying GetById ran: decided / MarkAsDone goes round its loop
  ret <c>                        -> <response>  c returns
  dump                           -> ok <tasks>  the final database (Find all, ungated)
  check                                          quiescent: linearizability of the implementation's own history
DIFF entproto = the implementation took another branch / returned something else than `Ent.step`;
MON C10 = the implementation's own observed history has no sequential explanation.
-/
import Gk.Proto
import Gk.Repo
import Gk.Lin
import Gk.EntProto
import Gk.DrvRepo
import Gk.DrvLin
namespace Gk.DrvEnt
open Gk Gk.Proto Gk.Lin Gk.Ent

structure S where
  sys : Sys := Ent.init 0
  kinds : List String := []        -- per client: how to decode its pending response
  obs : List LOp := []             -- the implementation's own history (observed results)
  misses : Nat := 0
  fresh : Bool := true             -- `FreshAdds` so far: ids were not used before their AddTask inserted them
  count : Nat := 0
  nontrivial : Bool := false
  deriving Inhabited

def phaseTag : Option Phase → String
  | some (.finished ..) => "fin"
  | some (.missed ..) => "miss"
  | some (.called ..) => "called"
  | some .idle => "idle"
  | none => "none"

def stepLine (s : S) (req resp : List String) : S × List String :=
  match req with
  | ["new", _, n] =>
    let n := n.toNat?.getD 2
    ({ sys := Ent.init n, kinds := List.replicate n "unit", count := s.count }, [])
  | "call" :: c :: rest =>
    match c.toNat?, DrvRepo.decReq rest with
    | some c, some (op, _, now, kind) =>
      let sys' := Ent.step s.sys (.call c now op)
      let d := if phaseTag sys'.phases[c]? == "called" then [] else ["DIFF entproto the model refuses this call (client not idle or not a lifecycle operation)"]
      ({ s with sys := sys', kinds := s.kinds.set c kind, count := s.count + 1 }, d)
    | _, _ => (s, ["DIFF parse bad entproto call " ++ " ".intercalate req])
  | ["stmt", c] =>
    match c.toNat? with
    | some c =>
      let sys' := Ent.step s.sys (.stmt c)
      let s := { s with fresh := s.fresh && Act.fresh s.sys (.stmt c) }
      let tag := phaseTag sys'.phases[c]?
      let want := resp.headD "?"
      ({ s with sys := sys', misses := s.misses + (if tag == "miss" then 1 else 0) },
        if tag == want then [] else [s!"DIFF entproto first statement of client {c}: implementation {want}, model {tag}"])
    | none => (s, ["DIFF parse bad stmt"])
  | ["cls", c, now'] =>
    match c.toNat?, decTime now' with
    | some c, some now' =>
      let sys' := Ent.step s.sys (.classify c now')
      let tag := match phaseTag sys'.phases[c]? with | "called" => "retry" | t => t
      let want := resp.headD "?"
      ({ s with sys := sys' },
        if tag == want then [] else [s!"DIFF entproto classification of client {c}: implementation {want}, model {tag}"])
    | _, _ => (s, ["DIFF parse bad cls"])
  | ["ret", c] =>
    match c.toNat? with
    | some c =>
      let sys' := Ent.step s.sys (.ret c)
      match sys'.hist.getLast?, DrvRepo.decOut (s.kinds.getD c "unit") resp with
      | some (lop, _), some out =>
        let same := DrvLin.sameFor "ent" lop.op out lop.out
        let s' := { s with sys := sys', obs := s.obs ++ [{ lop with out := out }], nontrivial := s.nontrivial || s.misses > 0 }
        (s', if sys'.hist.length == s.sys.hist.length then ["DIFF entproto the model has nothing to return for this client"]
             else if same then [] else
               [s!"DIFF entproto client {c} returned {" ".intercalate resp}, model {DrvRepo.showOut lop.out}"])
      | _, _ => ({ s with sys := sys' }, ["DIFF parse bad entproto response " ++ " ".intercalate resp])
    | none => (s, ["DIFF parse bad ret"])
  | ["dump"] =>
    match DrvRepo.decOut "tasks" resp with
    | some (.tasks ts) =>
      let model := byCreated s.sys.repo.tasks
      let same := ts.length == model.length && ts.all (model.contains ·)
      (s, if same then [] else [s!"DIFF entproto final database differs from the model's ({ts.length} vs {model.length} tasks)"])
    | _ => (s, ["DIFF parse bad dump"])
  | ["check"] =>
    let q := decide s.sys.Quiescent
    -- outside the theorem's assumption (an id used before its AddTask inserted it: impossible for clients of the real
    -- repository, possible only in a shrunk action list) nothing is demanded: see `C10ent_needs_known_id`
    let ok := !s.fresh || linearizable (DrvLin.sameFor "ent") {} s.obs
    (s, (if q then [] else ["DIFF entproto the run did not end quiescent"]) ++
        (if ok then [] else
          [s!"MON C10 no sequential order of the {s.obs.length} statement-interleaved SQL operations explains the observed results"]))
  | _ => (s, ["DIFF parse bad request " ++ " ".intercalate req])

end Gk.DrvEnt
