/-
Driver for the `mut` family (C18).
  mut <now> <meta> <oMinDur> <oMinInt> <oMaxDur> <oMaxInt> <param6> <hexbytes|-> -> <load: ok|err> <ok param6 consumed | panic exhausted01 | -
  padd <now> <meta> … same … -> <load> <ok task13 | err kind | panic>
-/
import Gk.Basic
import Gk.Proto
import Gk.Mut
namespace Gk.DrvMut
open Gk Gk.Proto Gk.Mut

structure S where
  ops : Nat := 0
  decodeErrs : Nat := 0
  panics : Nat := 0
  nontrivial : Bool := false
  deriving Inhabited

def decOptInt (s : String) : Option (Option Int) := if s == "-" then some none else s.toInt?.map some

def hexPairs : List Char → Option (List Nat)
  | [] => some []
  | a :: b :: rest => do
    let x ← hexVal a; let y ← hexVal b
    let r ← hexPairs rest
    pure ((x * 16 + y) :: r)
  | _ => none

def decBytes (s : String) : Option (List Nat) := if s == "-" then some [] else hexPairs s.toList

def encParam (p : Param) : String :=
  let o {α} (f : α → String) : Option α → String | none => "_" | some a => f a
  " ".intercalate [o encStr p.workId, o toString p.priority, o encMap p.param, o encMap p.meta_,
    o toString p.scheduledAt, o encOptTime p.deadline]

/-- C18's window, stated on the implementation's own output. -/
def windowOk (mn mx orig res : Int) : Bool :=
  let off := res - orig
  if mn == mx then off == mn
  else if mn < mx then mn ≤ off && off < mx
  else mx < off && off ≤ mn

def stepLine (s : S) (req resp : List String) : S × List String :=
  match req with
  | ["new", _] => ({ ops := s.ops, decodeErrs := s.decodeErrs, panics := s.panics }, [])
  | "mismatch" :: prop :: rest => (s, [s!"MON {prop} " ++ " ".intercalate (rest.take 30)])
  | "mut" :: now :: me :: a :: b :: c :: d :: rest =>
    match decTime now, decMap me, decOptInt a, decOptInt b, decOptInt c, decOptInt d, decParam rest with
    | some now, some me, some a, some b, some c, some d, some (p, rest) =>
      match rest with
      | [bytes] =>
        match decBytes bytes with
        | none => (s, ["DIFF parse bad bytes"])
        | some bytes =>
          let oMin : ParseOracle := ⟨a, b⟩
          let oMax : ParseOracle := ⟨c, d⟩
          let ml := load me oMin oMax
          let implLoad := resp.headD ""
          let s := { s with ops := s.ops + 1 }
          match ml with
          | .error _ =>
            let d := if implLoad == "err" then [] else
              [s!"DIFF mut Load: model=err impl={implLoad}",
               "MON C18 a malformed duration label (rejected by time.ParseDuration and strconv.ParseInt) was accepted by Load"]
            ({ s with decodeErrs := s.decodeErrs + 1, nontrivial := true }, d)
          | .ok ms =>
            let d0 := if implLoad == "ok" then [] else [s!"DIFF mut Load: model=ok impl={implLoad}"]
            -- decode-total monitor: an error is legitimate only if a present, non-empty label is rejected by both parsers
            let rejected (lbl : String) (o : ParseOracle) : Bool :=
              match SMap.lookup me lbl with
              | some v => v != "" && o.dur.isNone && o.int.isNone
              | none => false
            let mon0 := if implLoad == "err" && !(rejected labelMin oMin || rejected labelMax oMax) then
                ["MON C18 Load reported an error although every present label parses"]
              else if implLoad == "panic" then ["MON C18 Load panicked"] else []
            let mo := apply true now ms p bytes
            let implRes := resp.drop 1
            match mo, implRes with
            | .ok p' restBytes, "ok" :: toks =>
              match decParam toks with
              | some (ip, tl) =>
                let consumed := (tl.headD "0").toNat?.getD 0
                let d1 := if ip == p' then [] else [s!"DIFF mut Apply: model={encParam p'} impl={encParam ip}"]
                let d2 := if consumed == bytes.length - restBytes.length then [] else
                  [s!"DIFF mut random bytes consumed: model={bytes.length - restBytes.length} impl={consumed}"]
                -- window / now monitors on the implementation's own result
                let mon1 := match ms.getLast?, ip.scheduledAt with
                  | some (.randomize mn mx), some res =>
                    let orig := if ms.contains .now then normalize now else p.scheduledAt.getD 0
                    if windowOk mn mx orig res then [] else
                      [s!"MON C18 randomized time {res} is outside the window [{mn},{mx}) around {orig}"]
                  | some .now, some res =>
                    if res == normalize now then [] else [s!"MON C18 schedule-at-now gave {res}, now is {now}"]
                  | _, _ => []
                ({ s with nontrivial := s.nontrivial || !ms.isEmpty }, d0 ++ d1 ++ d2 ++ mon0 ++ mon1)
              | none => (s, ["DIFF parse bad mut response"])
            | .panic, "panic" :: ex :: _ =>
              -- both panic: legitimate only when the reader ran dry
              let mon := if ex == "1" then [] else ["MON C18 Mutate panicked although random bytes were available"]
              ({ s with panics := s.panics + 1 }, d0 ++ mon0 ++ mon)
            | .ok p' _, "panic" :: ex :: _ =>
              ({ s with panics := s.panics + 1 },
                d0 ++ mon0 ++ [s!"DIFF mut Apply: model={encParam p'} impl=panic"] ++
                (if ex == "1" then [] else ["MON C18 Mutate panicked although random bytes were available"]))
            | .panic, _ => (s, d0 ++ mon0 ++ ["DIFF mut Apply: model=panic impl=" ++ " ".intercalate implRes])
            | _, _ => (s, ["DIFF parse bad mut response " ++ " ".intercalate resp])
      | _ => (s, ["DIFF parse bad mut request"])
    | _, _, _, _, _, _, _ => (s, ["DIFF parse bad mut request"])
  | "padd" :: now :: me :: a :: b :: c :: d :: rest =>
    match decTime now, decMap me, decOptInt a, decOptInt b, decOptInt c, decOptInt d, decParam rest with
    | some now, some _me, some a, some b, some c, some d, some (p, rest) =>
      match rest with
      | [bytes] =>
        match decBytes bytes with
        | none => (s, ["DIFF parse bad bytes"])
        | some bytes =>
          -- ParamMutatingRepository loads from the *parameter's* meta
          let me := p.meta_.getD []
          let s := { s with ops := s.ops + 1 }
          match load me ⟨a, b⟩ ⟨c, d⟩ with
          | .error _ =>
            (s, if resp.headD "" == "err" then [] else [s!"DIFF mut padd Load: model=err impl={resp.headD ""}"])
          | .ok ms =>
            match apply true now ms p bytes with
            | .panic => (s, if resp.getD 1 "" == "panic" then [] else ["DIFF mut padd: model=panic"])
            | .ok p' _ =>
              let t := p'.normalize.toTask "x" now
              match resp with
              | "ok" :: "ok" :: toks =>
                match decTask toks with
                | some (it, _) =>
                  let it := { it with id := "x" }
                  let d := if it == t then [] else
                    [s!"MON C18 ParamMutatingRepository stored {encTask it} but the mutated parameters give {encTask t}"]
                  ({ s with nontrivial := true }, d)
                | none => (s, ["DIFF parse bad padd response"])
              | "ok" :: "err" :: k :: _ =>
                (s, if !t.isValid && k == "invalid_task" then [] else [s!"DIFF mut padd: model stores a task, impl err {k}"])
              | _ => (s, ["DIFF mut padd: unexpected response " ++ " ".intercalate resp])
      | _ => (s, ["DIFF parse bad padd request"])
    | _, _, _, _, _, _, _ => (s, ["DIFF parse bad padd request"])
  | _ => (s, ["DIFF parse bad request " ++ " ".intercalate req])

end Gk.DrvMut
