/-
M1 — task / parameter algebra.
Transcribed from /repo/def/task.go, /repo/def/task_param.go, /repo/def/err_kind.go,
/repo/def/util/drop_micros.go and /repo/internal/sortable_task/task.go.

Conventions (DESIGN §2): `Time` is nanoseconds since Go's zero time (so `IsZero ⇔ 0`);
time zones are erased (`NormalizeTime` puts every stored time in UTC and the harness checks
that separately); maps are association lists in canonical (key-sorted) order, nil = empty.
-/
namespace Gk

abbrev Time := Int

def msNs : Int := 1000000

/-- `def.NormalizeTime` = `t.Truncate(time.Millisecond).In(time.UTC)`.
Go's `Truncate` rounds down to a multiple of `d` since the zero time. -/
def normalize (t : Time) : Time := t - t % msNs

abbrev SMap := List (String × String)

inductive St
  | scheduled | dispatched | cancelled | done | err
  deriving DecidableEq, Repr, Inhabited

structure Task where
  id : String
  workId : String
  priority : Int
  state : St
  err : String
  param : SMap
  meta_ : SMap
  scheduledAt : Time
  createdAt : Time
  deadline : Option Time
  cancelledAt : Option Time
  dispatchedAt : Option Time
  doneAt : Option Time
  deriving DecidableEq, Repr, Inhabited

/-- `def.TaskUpdateParam`. `deadline : some none` clears the deadline. -/
structure Param where
  workId : Option String := none
  priority : Option Int := none
  param : Option SMap := none
  meta_ : Option SMap := none
  scheduledAt : Option Time := none
  deadline : Option (Option Time) := none
  deriving DecidableEq, Repr, Inhabited

/-- `Task.NormalizeTime`. -/
def Task.normalizeTime (t : Task) : Task :=
  { t with
    scheduledAt := normalize t.scheduledAt
    createdAt := normalize t.createdAt
    deadline := t.deadline.map normalize
    cancelledAt := t.cancelledAt.map normalize
    dispatchedAt := t.dispatchedAt.map normalize
    doneAt := t.doneAt.map normalize }

/-- `Task.Update` (assignIfSome on six fields, then NormalizeTime).
A `Some(nil)` map is replaced by an empty map; both are `[]` here. -/
def Task.update (t : Task) (p : Param) : Task :=
  Task.normalizeTime
    { t with
      workId := p.workId.getD t.workId
      param := p.param.getD t.param
      priority := p.priority.getD t.priority
      scheduledAt := p.scheduledAt.getD t.scheduledAt
      deadline := match p.deadline with | some d => d | none => t.deadline
      meta_ := p.meta_.getD t.meta_ }

/-- The zero `def.Task{}` with id / created_at / state set, as in `ToTask`. -/
def Task.blank (id : String) (createdAt : Time) : Task :=
  { id := id, workId := "", priority := 0, state := .scheduled, err := "", param := [], meta_ := [],
    scheduledAt := 0, createdAt := createdAt, deadline := none, cancelledAt := none,
    dispatchedAt := none, doneAt := none }

/-- `TaskUpdateParam.ToTask`. -/
def Param.toTask (p : Param) (id : String) (createdAt : Time) : Task :=
  (Task.blank id (normalize createdAt)).update p

/-- `TaskUpdateParam.Normalize`. -/
def Param.normalize (p : Param) : Param :=
  { p with scheduledAt := p.scheduledAt.map Gk.normalize
           deadline := p.deadline.map (fun d => d.map Gk.normalize) }

/-- `TaskUpdateParam.Update`: fields of `u` win. -/
def Param.updateWith (p u : Param) : Param :=
  { workId := u.workId.or p.workId
    param := u.param.or p.param
    priority := u.priority.or p.priority
    scheduledAt := u.scheduledAt.or p.scheduledAt
    deadline := u.deadline.or p.deadline
    meta_ := u.meta_.or p.meta_ }

/-- `Task.IsValid` (the state is always one of the five in this model). -/
def Task.isValid (t : Task) : Bool :=
  t.id != "" && t.workId != "" && t.scheduledAt != 0 && t.createdAt != 0

/-- Error kinds as the harness canonicalises them (DESIGN §1.2). -/
inductive Err
  | invalidTask | idNotFound | alreadyCancelled | alreadyDispatched | alreadyDone
  | notDispatched | exhausted | ctx | workIdNotFound | schedChanged | other
  deriving DecidableEq, Repr, Inhabited

structure ErrKindOption where
  skipCancelledAt : Bool := false
  skipDispatchedAt : Bool := false
  skipDoneAt : Bool := false
  returnOnEmptyDispatchedAt : Bool := false

/-- `def.ErrKind`: classification of a refused operation *from the timestamps*. `none` = "". -/
def errKind (t : Task) (o : ErrKindOption) : Option Err :=
  if !o.skipDoneAt && t.doneAt.isSome then some .alreadyDone
  else if !o.skipCancelledAt && t.cancelledAt.isSome then some .alreadyCancelled
  else if !o.skipDispatchedAt && t.dispatchedAt.isSome then some .alreadyDispatched
  else if o.returnOnEmptyDispatchedAt && t.dispatchedAt.isNone then some .notDispatched
  else none

/-- `ErrKindUpdate` = `ErrKindCancel` = `ErrKindMarkAsDispatch`. -/
def errKindMutate (t : Task) : Option Err := errKind t {}

/-- `ErrKindMarkAsDone`. -/
def errKindMarkAsDone (t : Task) : Option Err :=
  errKind t { returnOnEmptyDispatchedAt := true, skipDispatchedAt := true }

/-- Sort key used by the heaps: `sortabletask.Less` with an explicit insertion rank. -/
structure Key where
  scheduledAt : Time
  priority : Int
  createdAt : Time
  rank : Nat
  deriving DecidableEq, Repr, Inhabited

/-- `sortabletask.Less`: scheduled_at asc, priority desc, created_at asc, insertion order asc. -/
def Key.less (a b : Key) : Bool :=
  if a.scheduledAt != b.scheduledAt then a.scheduledAt < b.scheduledAt
  else if a.priority != b.priority then a.priority > b.priority
  else if a.createdAt != b.createdAt then a.createdAt < b.createdAt
  else a.rank < b.rank

def Task.key (t : Task) (rank : Nat) : Key :=
  { scheduledAt := t.scheduledAt, priority := t.priority, createdAt := t.createdAt, rank := rank }

/-- `def.Task.Less` — the *other* comparator, used only by the mutation-hook timer. -/
def Task.lessHook (t j : Task) : Bool :=
  if t.cancelledAt.isSome then true
  else if t.scheduledAt != j.scheduledAt then t.scheduledAt < j.scheduledAt
  else if t.priority != j.priority then t.priority > j.priority
  else t.createdAt < j.createdAt

/-- State / timestamp / error-text consistency demanded by C12. -/
def Task.consistent (t : Task) : Bool :=
  match t.state with
  | .scheduled => t.cancelledAt.isNone && t.dispatchedAt.isNone && t.doneAt.isNone && t.err == ""
  | .dispatched => t.cancelledAt.isNone && t.dispatchedAt.isSome && t.doneAt.isNone && t.err == ""
  | .cancelled => t.cancelledAt.isSome && t.doneAt.isNone && t.err == ""
  | .done => t.cancelledAt.isNone && t.dispatchedAt.isSome && t.doneAt.isSome && t.err == ""
  | .err => t.cancelledAt.isNone && t.dispatchedAt.isSome && t.doneAt.isSome

def isNorm (t : Time) : Bool := t % msNs == 0

def optNorm : Option Time → Bool
  | none => true
  | some t => isNorm t

/-- Every time of the task is a fixed point of `normalize`. -/
def Task.timesNormalized (t : Task) : Bool :=
  isNorm t.scheduledAt && isNorm t.createdAt && optNorm t.deadline && optNorm t.cancelledAt &&
    optNorm t.dispatchedAt && optNorm t.doneAt

/-- The per-task part of C12. -/
def Task.wellFormed (t : Task) : Bool := t.isValid && t.timesNormalized && t.consistent

end Gk
