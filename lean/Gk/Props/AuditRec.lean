/- Axiom audit of the C20 recovery (eventual half) property theorems: only `propext`,
`Classical.choice`, `Quot.sound` may appear. -/
import Gk.Props.C20rec
open Gk
#print axioms C20_retry_dispatchErr_recovers
#print axioms C20_retry_dispatchErr_cancelled
#print axioms C20_retry_dispatchErr_refused
#print axioms C20_retry_dispatchErr_removed
#print axioms C20_retry_taskDone_recovers
#print axioms C20_retry_taskDone_idempotent
#print axioms C20_retry_timerUpdateError_recovers
#print axioms C20_records_consistent
#print axioms C20_retry_dispatchErr_total
#print axioms C20_retry_taskDone_total
#print axioms C20_recovery_round
#print axioms C20_recovery_eventual
#print axioms C20_recovery_eventual_rounds
#print axioms Live.round_none_lost
#print axioms Live.round_not_retryable
