/-
C04 — a task's work function is started at most once, only after this run marked the task as
dispatched, and never after the task was cancelled or finished.

All theorems quantify over every `Script`: arbitrary interleavings of user mutations with the
scheduler's calls, time advances, completions, Step / Retry in any order, faults on every repository
call, hook faults, context cancellation, busy workers.
-/
import Gk.Proofs.World
namespace Gk
open World WP

/-- At most one work-function start per task id. -/
theorem C04_at_most_once (t0 : Time) (acts : List Act) (hs : (init t0).Script acts) :
    (((init t0).run acts).log.map (·.id)).Nodup :=
  (Inv_run (Inv_init t0) hs).nodup

/-- the boolean monitor of `Gk.World` agrees -/
theorem C04_atMostOnce (t0 : Time) (acts : List Act) (hs : (init t0).Script acts) :
    ((init t0).run acts).atMostOnce = true := by
  unfold World.atMostOnce
  rw [eraseDups_of_nodup _ (C04_at_most_once t0 acts hs)]
  simp

/-- The record handed to the work function is the stored task, in state `dispatched`. -/
theorem C04_dispatched_at_entry (t0 : Time) (acts : List Act) (hs : (init t0).Script acts) :
    ∀ e ∈ ((init t0).run acts).log, e.task.state = .dispatched ∧ e.task.id = e.id := fun e he =>
  let h := (Inv_run (Inv_init t0) hs).logged e he
  ⟨h.1, h.2.1⟩

theorem C04_dispatchedAtEntry (t0 : Time) (acts : List Act) (hs : (init t0).Script acts) :
    ((init t0).run acts).dispatchedAtEntry = true := by
  unfold World.dispatchedAtEntry
  rw [List.all_eq_true]
  intro e he
  simp [(C04_dispatched_at_entry t0 acts hs e he).1]

/-- A task whose work function was started is stored as dispatched, done or err — in particular it is
not (and, these states being closed under every operation, never again) scheduled or cancelled. -/
theorem C04_logged_are_dispatched_or_finished (t0 : Time) (acts : List Act)
    (hs : (init t0).Script acts) :
    ∀ e ∈ ((init t0).run acts).log, ∃ t, ((init t0).run acts).obs.repo.lookup e.id = some t ∧
      (t.state = .dispatched ∨ t.state = .done ∨ t.state = .err) := fun e he =>
  (Inv_run (Inv_init t0) hs).logged e he |>.2.2

/-- Once a task is cancelled, done or err (after the prefix `pre`), it stays exactly as it is and no
extension `post` of the script starts its work function (again): every log entry for `id` after
`pre ++ post` was already there after `pre`. -/
theorem C04_no_start_after_terminal (t0 : Time) (pre post : List Act)
    (hs : (init t0).Script (pre ++ post)) (id : String) (t : Task)
    (hl : ((init t0).run pre).obs.repo.lookup id = some t)
    (ht : t.state = .cancelled ∨ t.state = .done ∨ t.state = .err) :
    ((init t0).run (pre ++ post)).obs.repo.lookup id = some t ∧
    ∀ e ∈ ((init t0).run (pre ++ post)).log, e.id = id → e ∈ ((init t0).run pre).log := by
  rw [World.script_append] at hs
  rw [World.run_append]
  have hI := Inv_run (Inv_init t0) hs.1
  generalize (init t0).run pre = w at hs hl hI
  have key : ∀ (post : List Act) (w1 : World), Inv w1 → w1.Script post →
      w1.obs.repo.lookup id = some t → (∀ e ∈ w1.log, e.id = id → e ∈ w.log) →
      (w1.run post).obs.repo.lookup id = some t ∧ ∀ e ∈ (w1.run post).log, e.id = id → e ∈ w.log := by
    intro post
    induction post with
    | nil => exact fun w1 _ _ h1 h2 => ⟨h1, h2⟩
    | cons a rest ih =>
      intro w1 hI1 hs1 h1 h2
      refine ih (w1.step a) (Inv_step hI1 hs1.1) hs1.2 (terminal_step hI1 hs1.1 h1 ht) ?_
      intro e he hid
      rcases log_wstep (step_spec w1 a) with h | ⟨t', cur, hpc, _, hlc, h⟩ <;> rw [h] at he
      · exact h2 e he hid
      · rcases List.mem_append.mp he with he | he
        · exact h2 e he hid
        · simp only [List.mem_singleton] at he
          subst he
          simp only at hid
          obtain ⟨cur', hc', hd⟩ := hI1.marked t' (.inl hpc)
          rw [hid, h1] at hc'
          cases hc'
          rcases ht with h | h | h <;> rw [h] at hd <;> cases hd
  exact key post w hI hs.2 hl (fun e he _ => he)

/-- A task whose cancellation succeeded is never started, whatever happens afterwards. -/
theorem C04_not_after_cancel (t0 : Time) (pre post : List Act)
    (hs : (init t0).Script (pre ++ post)) (id : String) (t : Task)
    (hl : ((init t0).run pre).obs.repo.lookup id = some t) (ht : t.state = .cancelled) :
    id ∉ ((init t0).run (pre ++ post)).log.map (·.id) := by
  intro hin
  obtain ⟨e, he, hid⟩ := List.mem_map.mp hin
  have h := (C04_no_start_after_terminal t0 pre post hs id t hl (.inl ht)).2 e he hid
  obtain ⟨t', ht', hst⟩ := C04_logged_are_dispatched_or_finished t0 pre
    (World.script_append.mp hs).1 e h
  rw [hid, hl] at ht'
  cases ht'
  rw [ht] at hst
  simp at hst

/-- A task that is done / err and whose work function has not been started by this run is never
started; one that has been started is not started a second time. -/
theorem C04_not_after_finish (t0 : Time) (pre post : List Act)
    (hs : (init t0).Script (pre ++ post)) (id : String) (t : Task)
    (hl : ((init t0).run pre).obs.repo.lookup id = some t) (ht : t.state = .done ∨ t.state = .err) :
    (((init t0).run (pre ++ post)).log.filter (·.id == id)).length ≤ 1 ∧
    (id ∉ ((init t0).run pre).log.map (·.id) → id ∉ ((init t0).run (pre ++ post)).log.map (·.id)) := by
  constructor
  · have hnd := C04_at_most_once t0 _ hs
    generalize ((init t0).run (pre ++ post)).log = l at hnd
    induction l with
    | nil => simp
    | cons x xs ih =>
      simp only [List.map_cons, List.nodup_cons] at hnd
      simp only [List.filter_cons]
      split
      · rename_i hx
        simp only [beq_iff_eq] at hx
        have : xs.filter (·.id == id) = [] := by
          rw [List.filter_eq_nil_iff]
          intro y hy hyid
          simp only [beq_iff_eq] at hyid
          exact hnd.1 (List.mem_map.mpr ⟨y, hy, by rw [hyid, hx]⟩)
        simp [this]
      · exact ih hnd.2
  · intro hnot hin
    obtain ⟨e, he, hid⟩ := List.mem_map.mp hin
    have h := (C04_no_start_after_terminal t0 pre post hs id t hl (.inr ht)).2 e he hid
    exact hnot (List.mem_map.mpr ⟨e, h, hid⟩)

/-- Every started task was marked as dispatched by the scheduler earlier in the same run. -/
theorem C04_marked_by_this_run (t0 : Time) (acts : List Act) (hs : (init t0).Script acts) :
    ∀ e ∈ ((init t0).run acts).log, e.id ∈ marksOf (init t0) acts := by
  intro e he
  obtain ⟨_, _, t, hl, hst⟩ := (Inv_run (Inv_init t0) hs).logged e he
  have := GInv_run (Inv_init t0) hs (GInv_init t0) e.id t hl hst
  simpa using this

/-- The step that starts a work function is the `GetById` of `dispatchTask` (`pc = d_get t`, no fault,
context alive); at that moment the task is stored in state dispatched, its id is not in the log, and a
`MarkAsDispatched` of that id by the scheduler took effect strictly earlier in this run. -/
theorem C04_marked_before_start (t0 : Time) (pre : List Act) (a : Act)
    (hs : (init t0).Script (pre ++ [a])) (e : RunEntry)
    (hnew : e ∈ ((init t0).run (pre ++ [a])).log) (hold : e ∉ ((init t0).run pre).log) :
    a = .sched (.getById .none) ∧
    (∃ t, ((init t0).run pre).pc = .d_get t ∧ t.id = e.id) ∧
    ((init t0).run pre).obs.repo.lookup e.id = some e.task ∧ e.task.state = .dispatched ∧
    e.id ∉ ((init t0).run pre).log.map (·.id) ∧
    e.id ∈ marksOf (init t0) pre := by
  rw [World.script_append] at hs
  have hI := Inv_run (Inv_init t0) hs.1
  rw [World.run_append] at hnew
  change e ∈ (((init t0).run pre).step a).log at hnew
  rcases log_wstep (step_spec ((init t0).run pre) a) with h | ⟨t, cur, hpc, ha, hl, h⟩ <;> rw [h] at hnew
  · exact absurd hnew hold
  · rcases List.mem_append.mp hnew with he | he
    · exact absurd he hold
    · simp only [List.mem_singleton] at he
      subst he
      obtain ⟨cur', hc', hd⟩ := hI.marked t (.inl hpc)
      rw [hl] at hc'
      cases hc'
      refine ⟨ha, ⟨t, hpc, rfl⟩, hl, hd, (hI.pcHeld t (by rw [hpc]; rfl)).2, ?_⟩
      have := GInv_run (Inv_init t0) hs.1 (GInv_init t0) t.id cur hl (.inl hd)
      simpa using this

/-! ### Non-vacuity and the defect D4 -/

namespace C04

def t0 : Time := 63808128000000000000
def sec : Time := 1000000000

def pT : Param := { workId := some "w", scheduledAt := some (t0 + 10 * sec) }

/-- start the timer, add `t` (due at 10 s), advance to 40 s, Step announces `t` -/
def announce : List Act :=
  [ .user .start none, .user (.add "t" pT) none, .advance (t0 + 40 * sec),
    .sched .beginStep, .sched .lastTimerErr, .sched .selTimer, .sched (.getNext .none),
    .sched .nextScheduled ]

/-- the next Step dispatches it -/
def dispatch : List Act :=
  [ .sched .beginStep, .sched .lastTimerErr, .sched (.waitWorker true),
    .sched (.markDispatched .none none), .sched (.getById .none) ]

/-- … or fails because no worker is free (`DispatchErr ctx`), the user cancels the task, then `Retry` -/
def cancelThenRetry : List Act :=
  [ .sched .beginStep, .sched .lastTimerErr, .sched (.waitWorker false),
    .user (.cancel "t") none,
    .sched .beginRetry, .sched (.getById .none), .sched (.waitWorker true),
    .sched (.markDispatched .none none), .sched (.getById .none) ]

/-- the same `Retry` path without the cancellation but with the first attempt failing *after* its
`MarkAsDispatched` took effect: `Retry` must not mark again and must start the work function -/
def faultThenRetry : List Act :=
  [ .sched .beginStep, .sched .lastTimerErr, .sched (.waitWorker true),
    .sched (.markDispatched .after none),
    .sched .beginRetry, .sched (.getById .none), .sched (.waitWorker true), .sched (.getById .none) ]

end C04

/-- Non-vacuity: a script satisfying `Script` that starts a work function (normal path). -/
example : (init C04.t0).Script (C04.announce ++ C04.dispatch) ∧
    (((init C04.t0).run (C04.announce ++ C04.dispatch)).log.map (fun e => (e.id, e.task.state)))
      = [("t", .dispatched)] ∧
    marksOf (init C04.t0) (C04.announce ++ C04.dispatch) = ["t"] := by
  decide

/-- Non-vacuity (fault + Retry path): the first attempt's `MarkAsDispatched` fails after taking
effect, `Retry` skips marking and starts the work function exactly once. -/
example : (init C04.t0).Script (C04.announce ++ C04.faultThenRetry) ∧
    (((init C04.t0).run (C04.announce ++ C04.faultThenRetry)).log.map (fun e => (e.id, e.task.state)))
      = [("t", .dispatched)] ∧
    marksOf (init C04.t0) (C04.announce ++ C04.faultThenRetry) = ["t"] := by
  decide

/-- With the repaired `Retry` a cancellation between the failed dispatch and its `Retry` wins:
`MarkAsDispatched` refuses, nothing is started. -/
example : (init C04.t0).Script (C04.announce ++ C04.cancelThenRetry) ∧
    ((init C04.t0).run (C04.announce ++ C04.cancelThenRetry)).log = [] ∧
    ((init C04.t0).run (C04.announce ++ C04.cancelThenRetry)).ret.err = some .alreadyCancelled := by
  decide

/-- the original `Retry` (D4): `isRetry = true` always, i.e. `MarkAsDispatched` is skipped -/
def C04.d4Init : World := { init C04.t0 with fix := { retryMarks := false } }

/-- the `Retry` of the original code performs no `MarkAsDispatched` call at all -/
def C04.cancelThenRetryOrig : List Act :=
  [ .sched .beginStep, .sched .lastTimerErr, .sched (.waitWorker false),
    .user (.cancel "t") none,
    .sched .beginRetry, .sched (.getById .none), .sched (.waitWorker true), .sched (.getById .none) ]

/-- D4 witness: on the original `Retry` (everything else repaired) the work function of a task whose
cancellation succeeded is started, with a record in state `cancelled`; and without the cancellation
the work function is started while the task is still `scheduled` (never marked as dispatched). -/
theorem C04_D4_witness :
    C04.d4Init.Script (C04.announce ++ C04.cancelThenRetryOrig) ∧
    ((C04.d4Init.run (C04.announce ++ C04.cancelThenRetryOrig)).log.map
        (fun e => (e.id, e.task.state))) = [("t", .cancelled)] ∧
    (C04.d4Init.run (C04.announce ++ C04.cancelThenRetryOrig)).dispatchedAtEntry = false ∧
    ((C04.d4Init.run (C04.announce ++ C04.cancelThenRetryOrig)).obs.repo.lookup "t").map (·.state)
      = some .cancelled ∧
    ((C04.d4Init.run (C04.announce ++
        [ .sched .beginStep, .sched .lastTimerErr, .sched (.waitWorker false),
          .sched .beginRetry, .sched (.getById .none), .sched (.waitWorker true),
          .sched (.getById .none) ])).log.map (fun e => (e.id, e.task.state))) = [("t", .scheduled)] := by
  decide

end Gk
