/-
Axiom audit for C18 (mutators). Only `propext`, `Classical.choice`, `Quot.sound` may appear.
-/
import Gk.Props.C18
open Gk Gk.Mut

#print axioms C18_rejected_def
#print axioms C18_parseDur_error
#print axioms C18_decode_error
#print axioms C18_decode_total
#print axioms C18_decode_absent
#print axioms C18_decode_only_min
#print axioms C18_decode_only_max
#print axioms C18_decode_both
#print axioms C18_parseDur_empty
#print axioms C18_load_some
#print axioms C18_randint_range
#print axioms C18_randint_one
#print axioms C18_randloop_range
#print axioms C18_mutate_no_panic
#print axioms C18_mutate_panic_iff
#print axioms C18_mutate_arg_pos
#print axioms C18_mutate_degenerate
#print axioms C18_window
#print axioms C18_window_record
#print axioms C18_now
#print axioms C18_apply_now_then_randomize
#print axioms C18_apply_now_then_randomize_panic
#print axioms C18_store_scheduledAt
#print axioms C18_normalized_at_store
#print axioms C18_normalized_at_store_lt
#print axioms C18_D11_witness
#print axioms C18_D11_fixed
#print axioms C18_D11b_witness_eq
#print axioms C18_D11b_witness
#print axioms C18_D11b_fixed
#print axioms Gk.Mut.mutateRandomize_fixed
#print axioms Gk.Mut.mutate_fixed_ok
#print axioms Gk.Mut.mutate_fixed_panic_iff
#print axioms Gk.Mut.randLoop_val
#print axioms Gk.Mut.randLoop_ne_panic
#print axioms Gk.Mut.randLoop_val_length
#print axioms Gk.Mut.decode_error_iff
