/-
C20 (recovery, the *eventual* half) — once faults cease, the fair fault-free driver completes the
recovery in ONE call:

  "After a transient failure (repository error before or after effect, cancelled context) at any
   scheduler call, the scheduler's returned state names what remains to be done, and a driver that
   retries reaches the same end as if no failure had happened: no task is lost (left dispatched
   without ever running), none runs twice."

`Live.driveRound w` is one call of the fair fault-free driver on a world between two calls: `Retry`
if the state the last call returned is retryable (`Live.retryable`), else `Step`; no fault, a free
worker, no cancellation, no interfering user mutation (see `Gk/Props/C05.lean` §6).

  1. `C20_retry_dispatchErr_recovers`  — `Retry(DispatchErr)` starts the work function exactly once
     (mark already done → skipped; mark not done → marked now);
     `C20_retry_dispatchErr_cancelled` / `_removed` — the task was cancelled / removed meanwhile:
     nothing runs, the state returned is a repository verdict and is not retryable.
  2. `C20_retry_taskDone_recovers`     — `Retry(TaskDone)` records the result;
     `C20_retry_taskDone_idempotent`   — the failed attempt had taken effect: `Zero`, nothing changes.
  3. `C20_retry_timerUpdateError_recovers` — `Retry(TimerUpdateError)` restarts the timer, armed exactly
     at the head (or fired, if the head is due): never late.
  4. `C20_recovery_round` / `C20_recovery_eventual` — NO TASK IS LOST: after one round from any world
     that is reachable by a script (faults anywhere) and between two calls, every task stored as
     dispatched has had its work function started; the one that had not (`C20_recovery_idle_partial`)
     is started by exactly that round, with the record as stored, and nothing else is touched.

The exception of the model stays explicit: scripts contain the driver's part of the contract
(`World.DriverOk`, part of `World.Script`): a retryable `DispatchErr` is answered with `Retry`, not
with `Step` (`C20_step_over_dispatchErr_now` shows what happens otherwise). The fair driver keeps
it by construction (`Live.autoAct_ok`).
-/
import Gk.World
import Gk.Proofs.WorldLive
import Gk.Proofs.WorldRecover
import Gk.Props.C05
import Gk.Props.C20live
namespace Gk
open Live

/-! ### helpers -/

theorem C20rec.count_one {l : List RunEntry} {x : RunEntry} {id : String}
    (hl : ∀ y ∈ l, y.id ≠ id) (hx : x.id = id) :
    ((l ++ [x]).filter (fun y => y.id == id)).length = 1 := by
  have h1 : l.filter (fun y => y.id == id) = [] := by
    rw [List.filter_eq_nil_iff]
    intro y hy
    simpa using hl y hy
  simp [List.filter_append, h1, hx]

theorem C20rec.retryable_dispatchErr {t : Task} {e : Err}
    (h : retryable (.dispatchErr t e) = true) : World.isDefError e = false := by
  simpa [retryable] using h

theorem C20rec.retryable_taskDone {id : String} {o : Outcome} {e : Err}
    (h : retryable (.taskDone id o (some e)) = true) : World.isDefError e = false := by
  simpa [retryable] using h

theorem C20rec.lookup_replace_ne (r : Repo) (id id' : String) (F : Task → Task)
    (hid : ∀ t, (F t).id = t.id) (hne : id' ≠ id) :
    (r.replace id F).lookup id' = r.lookup id' := by
  unfold Repo.replace Repo.lookup
  simp only
  rw [List.find?_map]
  have : ((fun (t : Task) => t.id == id') ∘ fun t => if (t.id == id) = true then F t else t)
      = fun t => t.id == id' := by
    funext t
    simp only [Function.comp]
    by_cases h : t.id = id
    · simp [h, hid]
    · simp [h]
  rw [this]
  cases h : List.find? (fun t => t.id == id') r.tasks with
  | none => rfl
  | some t0 =>
    have h0 := List.find?_some h
    simp only [beq_iff_eq] at h0
    have : (t0.id == id) = false := by
      rw [h0]; simpa using hne
    simp only [Option.map_some, this, Bool.false_eq_true, ↓reduceIte]

/-- the record `MarkAsDispatched` writes at time `now` -/
def C20rec.marked (now : Time) (u : Task) : Task :=
  { u with state := .dispatched, dispatchedAt := some (normalize now) }

/-! ### 1. `Retry(DispatchErr)` -/

/-- Between two calls, the driver holds a retryable `DispatchErr t e`, the task is stored as
`scheduled` (the failed attempt did not mark it) or `dispatched` (it did), and its work function has
not been started. ONE round of the fair fault-free driver (a `Retry`) starts the work function exactly
once: the log grows by exactly the entry of `t.id`, the record handed over (`cur`) is in state
`dispatched`, it is the record now stored, it is running, and the driver holds `Dispatched t.id`.
Sub-case *mark already took effect*: the mark is skipped, `cur` is the stored record, the observable
(repository, hook, clock) is untouched. Sub-case *mark not yet done*: the task is marked now
(`MarkAsDispatched` at the current time), the observable is the one after that call.
FULL (the only invariant used is `w.fix = {}`, i.e. the repaired D4 path `retryMarks`). -/
theorem C20_retry_dispatchErr_recovers (w : World) (t u : Task) (e : Err) :
    LiveInv w → w.pc = .idle → w.ret = .dispatchErr t e → retryable w.ret = true →
    w.obs.repo.lookup t.id = some u → (u.state = .scheduled ∨ u.state = .dispatched) →
    (∀ x ∈ w.log, x.id ≠ t.id) →
    let w' := driveRound w
    let cur : Task := if u.state = .dispatched then u else C20rec.marked w.obs.clock.now u
    w'.pc = .idle ∧ w'.ret = .dispatched t.id ∧
    w'.log = w.log ++ [{ id := t.id, at_ := w.obs.clock.now, task := cur }] ∧
    (w'.log.filter (fun x => x.id == t.id)).length = 1 ∧
    cur.state = .dispatched ∧
    w'.obs.repo.lookup t.id = some cur ∧
    w'.running = w.running ++ [(t.id, cur)] ∧
    w'.completed = w.completed ∧ w'.reported = w.reported ∧ w'.lastTask = w.lastTask ∧
    w'.getNextErr = w.getNextErr ∧ w'.stuck = w.stuck ∧
    (u.state = .dispatched → driveRound w = afterRetryRun w t u ∧ w'.obs = w.obs) ∧
    (u.state = .scheduled → driveRound w = afterRetryMark w t cur ∧
      w'.obs = (w.obs.step (.dispatch t.id) none).1) := by
  intro hL hpc hr hq hu hs hlog w' cur
  have hfix : w.fix.retryMarks = true := by rw [hL.fix]
  rw [hr] at hq
  have hq' := C20rec.retryable_dispatchErr hq
  rcases hs with hs | hs
  · have hcur : cur = C20rec.marked w.obs.clock.now u := by
      simp [cur, hs]
    have h := round_retry_mark hpc hfix hr hq' hu hs
    have hw' : w' = afterRetryMark w t cur := by rw [hcur]; exact h
    have hd2 := (dispatch_step_scheduled w.obs t.id none hu hs).2
    rw [hw']
    refine ⟨rfl, rfl, rfl, C20rec.count_one hlog rfl, by rw [hcur]; rfl, ?_, rfl, rfl, rfl, rfl, rfl,
      rfl, ?_, ?_⟩
    · simp only [afterRetryMark, hd2, hcur, C20rec.marked]
    · intro h'; rw [hs] at h'; cases h'
    · intro _; exact ⟨hw', rfl⟩
  · have hcur : cur = u := by simp [cur, hs]
    have h := round_retry_skip hpc hfix hr hq' hu hs
    have hw' : w' = afterRetryRun w t cur := by rw [hcur]; exact h
    rw [hw']
    refine ⟨rfl, rfl, rfl, C20rec.count_one hlog rfl, by rw [hcur]; exact hs, ?_, rfl, rfl, rfl, rfl,
      rfl, rfl, ?_, ?_⟩
    · simp only [afterRetryRun, hu, hcur]
    · intro _; exact ⟨hcur ▸ hw', rfl⟩
    · intro h'; rw [hs] at h'; cases h'

/-- Sub-case *cancelled meanwhile*: the user cancelled the task between the failed call and the
`Retry` (possible only while it is still `scheduled`, i.e. when the failed attempt had not marked it).
`Retry` fetches it, tries to mark it, the repository refuses with `ErrAlreadyCancelled`: the round ends
with `DispatchErr t alreadyCancelled` — a repository verdict (`def.IsDefError`), NOT retryable; nothing
runs, nothing is written. (`u.consistent` is the C12 record consistency: `cancelled_at` is set.) -/
theorem C20_retry_dispatchErr_cancelled (w : World) (t u : Task) (e : Err) :
    LiveInv w → w.pc = .idle → w.ret = .dispatchErr t e → retryable w.ret = true →
    w.obs.repo.lookup t.id = some u → u.state = .cancelled → u.consistent = true →
    driveRound w = { w with ctxDone := false, pc := .idle, ret := .dispatchErr t .alreadyCancelled } ∧
    (driveRound w).pc = .idle ∧ (driveRound w).ret = .dispatchErr t .alreadyCancelled ∧
    retryable (driveRound w).ret = false ∧
    (driveRound w).log = w.log ∧ (driveRound w).running = w.running ∧ (driveRound w).obs = w.obs := by
  intro hL hpc hr hq hu hs hc
  have hfix : w.fix.retryMarks = true := by rw [hL.fix]
  rw [hr] at hq
  have h := round_retry_refused hpc hfix hr (C20rec.retryable_dispatchErr hq)
    (hL.dispatchErr_restart hpc hr) hu
    (by rw [hs]; simp) (by rw [hs]; simp) (errKindMutate_cancelled hs hc)
  rw [h]
  exact ⟨rfl, rfl, rfl, rfl, rfl, rfl, rfl⟩

/-- The same for every stored record that is neither scheduled nor dispatched, with the verdict `e'`
that `def.ErrKind` reads off its timestamps. -/
theorem C20_retry_dispatchErr_refused (w : World) (t u : Task) (e e' : Err) :
    LiveInv w → w.pc = .idle → w.ret = .dispatchErr t e → retryable w.ret = true →
    w.obs.repo.lookup t.id = some u → u.state ≠ .scheduled → u.state ≠ .dispatched →
    errKindMutate u = some e' →
    driveRound w = { w with ctxDone := false, pc := .idle, ret := .dispatchErr t e' } ∧
    retryable (driveRound w).ret = false ∧
    (driveRound w).log = w.log ∧ (driveRound w).running = w.running ∧ (driveRound w).obs = w.obs := by
  intro hL hpc hr hq hu hs hs' hk
  have hfix : w.fix.retryMarks = true := by rw [hL.fix]
  rw [hr] at hq
  have h := round_retry_refused hpc hfix hr (C20rec.retryable_dispatchErr hq)
    (hL.dispatchErr_restart hpc hr) hu hs hs' hk
  rw [h]
  refine ⟨rfl, ?_, rfl, rfl, rfl⟩
  simp [retryable, errKindMutate_isDefError hk]

/-- Sub-case *removed meanwhile* (no operation of this model removes a task — ent's `DeleteEnded`
would; stated for completeness, what the code does): `GetById` fails with `ErrIdNotFound`, the code
goes on with the zero task, `MarkAsDispatched("")` is refused with `ErrIdNotFound`: the round ends with
`DispatchErr zeroTask idNotFound`, NOT retryable; nothing runs, nothing is written. -/
theorem C20_retry_dispatchErr_removed (w : World) (t : Task) (e : Err) :
    LiveInv w → w.pc = .idle → w.ret = .dispatchErr t e → retryable w.ret = true →
    w.obs.repo.lookup t.id = none → w.obs.repo.lookup "" = none →
    driveRound w =
      { w with ctxDone := false, pc := .idle, ret := .dispatchErr World.zeroTask .idNotFound } ∧
    retryable (driveRound w).ret = false ∧
    (driveRound w).log = w.log ∧ (driveRound w).running = w.running ∧ (driveRound w).obs = w.obs := by
  intro hL hpc hr hq hu h0
  have hfix : w.fix.retryMarks = true := by rw [hL.fix]
  rw [hr] at hq
  have h := round_retry_missing hpc hfix hr (C20rec.retryable_dispatchErr hq)
    (hL.dispatchErr_restart hpc hr) hu h0
  rw [h]
  exact ⟨rfl, rfl, rfl, rfl, rfl⟩

/-! #### non-vacuity of §1 -/

/-- announce t1; `Step`: the context ends before a worker is free → `DispatchErr t1 ctx`, t1 still
scheduled (the mark was never attempted). -/
def C20.noWorker : List Act :=
  C05.announce ++ [.sched .beginStep, .sched .lastTimerErr, .sched (.waitWorker false)]

/-- ... and the user cancels t1 before the driver retries -/
def C20.noWorkerCancelled : List Act := C20.noWorker ++ [.user (.cancel "t1") none]

/-- `C20_retry_dispatchErr_recovers`, sub-case *mark already took effect* (`C20.markFails`:
`MarkAsDispatched` took effect and then failed): reachable, meets the hypotheses; the round starts t1
once with the stored (dispatched) record and leaves the repository alone. -/
example :
    let w := (World.init' C05.t0).run C20.markFails
    World.Script (World.init' C05.t0) C20.markFails ∧ w.pc = .idle ∧ retryable w.ret = true ∧
    (match w.ret with | .dispatchErr t e => t.id == "t1" && e == Err.other | _ => false) = true ∧
    (w.obs.repo.lookup "t1").map (·.state) = some .dispatched ∧ w.log = [] ∧
    (driveRound w).ret = .dispatched "t1" ∧
    (driveRound w).log.map (fun x => (x.id, x.task.state, some x.task == w.obs.repo.lookup "t1"))
      = [("t1", .dispatched, true)] ∧
    (driveRound w).obs.repo.tasks.map (fun t => (t.id, t.state)) = [("t1", .dispatched)] := by
  decide

/-- `C20_retry_dispatchErr_recovers`, sub-case *mark not yet done* (`C20.noWorker`): the round marks t1
now and starts it once with the dispatched record. -/
example :
    let w := (World.init' C05.t0).run C20.noWorker
    World.Script (World.init' C05.t0) C20.noWorker ∧ w.pc = .idle ∧ retryable w.ret = true ∧
    (match w.ret with | .dispatchErr t e => t.id == "t1" && e == Err.ctx | _ => false) = true ∧
    (w.obs.repo.lookup "t1").map (·.state) = some .scheduled ∧ w.log = [] ∧
    (driveRound w).ret = .dispatched "t1" ∧
    (driveRound w).log.map (fun x => (x.id, x.task.state, x.task.dispatchedAt)) =
      [("t1", .dispatched, some w.obs.clock.now)] ∧
    (driveRound w).obs.repo.tasks.map (fun t => (t.id, t.state)) = [("t1", .dispatched)] := by
  decide

/-- `C20_retry_dispatchErr_cancelled` (`C20.noWorkerCancelled`): the round ends with the non-retryable
`DispatchErr t1 alreadyCancelled`; nothing ran; the next round is a `Step` that blocks. -/
example :
    let w := (World.init' C05.t0).run C20.noWorkerCancelled
    World.Script (World.init' C05.t0) C20.noWorkerCancelled ∧ w.pc = .idle ∧ retryable w.ret = true ∧
    (match w.ret with | .dispatchErr t e => t.id == "t1" && e == Err.ctx | _ => false) = true ∧
    (w.obs.repo.lookup "t1").map (fun u => (u.state, u.consistent)) = some (.cancelled, true) ∧
    (match (driveRound w).ret with
      | .dispatchErr t e => t.id == "t1" && e == Err.alreadyCancelled | _ => false) = true ∧
    retryable (driveRound w).ret = false ∧ (driveRound w).log = [] ∧ (driveRound w).running = [] ∧
    (rounds 2 w).ret = .awaitingNext ∧ (rounds 2 w).log = [] := by
  decide

/-- `C20_retry_dispatchErr_removed`: no script reaches this situation (no operation removes a task);
the hypotheses are met by a world built by hand (`DispatchErr` for an id that is not stored; with the restart
request set, as `LiveInv` now demands of every `DispatchErr` between two calls — D21). -/
example :
    let w : World := { World.init' C05.t0 with ret := .dispatchErr (Task.blank "gone" 0) .ctx, getNextErr := true }
    w.pc = .idle ∧ retryable w.ret = true ∧ w.getNextErr = true ∧ w.obs.repo.lookup "gone" = none ∧
    w.obs.repo.lookup "" = none ∧
    (driveRound w).ret = .dispatchErr World.zeroTask .idNotFound ∧ (driveRound w).log = [] := by
  decide

/-! ### 2. `Retry(TaskDone)` -/

/-- Between two calls, the driver holds `TaskDone id o (some e)` with a retryable update error `e`
(`MarkAsDone` failed without effect, or the context was cancelled), and task `id` is still stored as
dispatched. ONE round (a `Retry`) records the result: the task becomes `done` (outcome nil) or `err`
with the outcome's error text, `done_at` is the current time, every other stored task is untouched, so
are hook and clock; no work function is started (the log is unchanged); the driver holds `Zero`.
FULL (no invariant is needed). -/
theorem C20_retry_taskDone_recovers (w : World) (id : String) (o : Outcome) (e : Err) (u : Task) :
    w.pc = .idle → w.ret = .taskDone id o (some e) → retryable w.ret = true →
    w.obs.repo.lookup id = some u → u.state = .dispatched →
    let w' := driveRound w
    let cur := doneRecord w.obs.clock.now (World.outcomeErr o) u
    driveRound w = afterRetryDone w id o ∧
    w'.pc = .idle ∧ w'.ret = .zero ∧ w'.log = w.log ∧ w'.running = w.running ∧
    w'.completed = w.completed ∧ w'.reported = w.reported ∧
    w'.obs.repo.lookup id = some cur ∧
    (match World.outcomeErr o with
      | none => cur.state = .done ∧ cur.err = u.err
      | some msg => cur.state = .err ∧ cur.err = msg) ∧
    cur.doneAt = some (normalize w.obs.clock.now) ∧
    (∀ id', id' ≠ id → w'.obs.repo.lookup id' = w.obs.repo.lookup id') ∧
    w'.obs.hook = w.obs.hook ∧ w'.obs.clock = w.obs.clock := by
  intro hpc hr hq hu hs w' cur
  rw [hr] at hq
  have h := round_retry_done hpc hr (C20rec.retryable_taskDone hq) hu hs
  have hw' : w' = afterRetryDone w id o := h
  rw [hw']
  refine ⟨h, rfl, rfl, rfl, rfl, rfl, rfl, ?_, ?_, ?_, ?_, rfl, rfl⟩
  · show (w.obs.repo.replace id (doneRecord w.obs.clock.now (World.outcomeErr o))).lookup id = _
    rw [lookup_replace _ _ _ (doneRecord_id _ _), hu]
    rfl
  · cases h' : World.outcomeErr o <;> simp [cur, h', doneRecord]
  · cases h' : World.outcomeErr o <;> simp [cur, h', doneRecord]
  · intro id' hne
    exact C20rec.lookup_replace_ne _ _ _ _ (doneRecord_id _ _) hne

/-- Idempotence: the failed attempt HAD taken effect (`Fault.after` on `MarkAsDone`: the task is already
`done` / `err` and carries `done_at`). The round's `MarkAsDone` is refused with `ErrAlreadyDone`, which
`Retry` swallows: the driver holds `Zero`, and NOTHING else changes — the stored task, the repository,
hook, clock, log are as before. (`u.consistent`: C12, a done task carries `done_at`.) FULL. -/
theorem C20_retry_taskDone_idempotent (w : World) (id : String) (o : Outcome) (e : Err) (u : Task) :
    w.pc = .idle → w.ret = .taskDone id o (some e) → retryable w.ret = true →
    w.obs.repo.lookup id = some u → (u.state = .done ∨ u.state = .err) → u.consistent = true →
    driveRound w = { w with ctxDone := false, pc := .idle, ret := .zero } ∧
    (driveRound w).pc = .idle ∧ (driveRound w).ret = .zero ∧ (driveRound w).obs = w.obs ∧
    (driveRound w).obs.repo.lookup id = some u ∧ (driveRound w).log = w.log ∧
    (driveRound w).running = w.running ∧ (driveRound w).completed = w.completed ∧
    (driveRound w).reported = w.reported := by
  intro hpc hr hq hu hs hc
  rw [hr] at hq
  have hd : u.doneAt.isSome = true := by
    unfold Task.consistent at hc
    rcases hs with hs | hs <;> simp only [hs, Bool.and_eq_true] at hc
    · exact hc.1.2
    · exact hc.2
  have hnd : u.state ≠ .dispatched := by
    rcases hs with hs | hs <;> rw [hs] <;> simp
  have h := round_retry_done_already hpc hr (C20rec.retryable_taskDone hq) hu hnd hd
  rw [h]
  exact ⟨rfl, rfl, rfl, rfl, hu, rfl, rfl, rfl, rfl⟩

/-! #### non-vacuity of §2 -/

/-- run t1 to completion; `Step` receives the result -/
def C20.resultOfT1 : List Act :=
  C05.announce ++
  [.sched .beginStep, .sched .lastTimerErr, .sched (.waitWorker true),
   .sched (.markDispatched .none none), .sched (.getById .none), .complete "t1" (.err "boom"),
   .sched .beginStep, .sched .lastTimerErr, .sched (.selResult "t1")]

/-- `MarkAsDone` fails without effect -/
def C20.doneFailsBefore : List Act := C20.resultOfT1 ++ [.sched (.markDone .before)]

/-- `MarkAsDone` takes effect and then reports an error -/
def C20.doneFailsAfter : List Act := C20.resultOfT1 ++ [.sched (.markDone .after)]

/-- `C20_retry_taskDone_recovers`: reachable, meets the hypotheses; the round records the error result. -/
example :
    let w := (World.init' C05.t0).run C20.doneFailsBefore
    World.Script (World.init' C05.t0) C20.doneFailsBefore ∧ w.pc = .idle ∧ retryable w.ret = true ∧
    w.ret = .taskDone "t1" (.err "boom") (some .other) ∧
    (w.obs.repo.lookup "t1").map (·.state) = some .dispatched ∧
    (driveRound w).ret = .zero ∧ (driveRound w).log = w.log ∧ w.log.map (·.id) = ["t1"] ∧
    ((driveRound w).obs.repo.lookup "t1").map (fun u => (u.state, u.err, u.doneAt)) =
      some (.err, "boom", some w.obs.clock.now) := by
  decide

/-- `C20_retry_taskDone_idempotent`: reachable, meets the hypotheses; the round changes nothing but the
state the driver holds. -/
example :
    let w := (World.init' C05.t0).run C20.doneFailsAfter
    World.Script (World.init' C05.t0) C20.doneFailsAfter ∧ w.pc = .idle ∧ retryable w.ret = true ∧
    w.ret = .taskDone "t1" (.err "boom") (some .other) ∧
    (w.obs.repo.lookup "t1").map (fun u => (u.state, u.consistent)) = some (.err, true) ∧
    (driveRound w).ret = .zero ∧ (driveRound w).log = w.log ∧
    (driveRound w).obs.repo = w.obs.repo := by
  decide

/-! ### 3. `Retry(TimerUpdateError)` -/

/-- Between two calls, the driver holds `TimerUpdateError e` (the restart of the timer inside `Step` /
`Retry` failed in the hook's `GetNext`). ONE round (a `Retry`; no hook fault) stops and restarts the
timer and ends with `Zero`. The timer is started, its last error is cleared, the hook-timer invariant
holds, the repository, the time, the log are untouched, and the timer is EXACT: nothing scheduled →
nothing armed, nothing pending; head `hd` due → the fire is pending; head not due → armed exactly at
`hd.scheduledAt`, and `hd` is the trusted cached task. In particular (last clause, `C05`-style "never
late") for the head of the repository after the round a fire is pending or the timer is armed not later
than the head. FULL (`LiveInv` is used for the hook-timer invariant only). -/
theorem C20_retry_timerUpdateError_recovers (w : World) (e : Err) :
    LiveInv w → w.pc = .idle → w.ret = .timerUpdateError e →
    let w' := driveRound w
    retryable w.ret = true ∧
    driveRound w = { w with ctxDone := false, pc := .idle,
                            obs := w.obs.stopTimer.startTimer none, ret := .zero } ∧
    w'.pc = .idle ∧ w'.ret = .zero ∧ w'.log = w.log ∧ w'.running = w.running ∧
    w'.obs.repo = w.obs.repo ∧ w'.obs.clock.now = w.obs.clock.now ∧
    w'.obs.hook.started = true ∧ w'.obs.hook.lastErr = none ∧ Inv w'.obs ∧
    (w.obs.repo.getNext = none → w'.obs = restartedEmpty w.obs) ∧
    (∀ hd, w.obs.repo.getNext = some hd → hd.scheduledAt ≤ w.obs.clock.now →
      w'.obs = restartedDue w.obs hd) ∧
    (∀ hd, w.obs.repo.getNext = some hd → w.obs.clock.now < hd.scheduledAt →
      w'.obs = restartedArmed w.obs hd) ∧
    (∀ hd, w'.obs.repo.getNext = some hd →
      w'.obs.clock.pending = true ∨ ∃ d, w'.obs.clock.armed = some d ∧ d ≤ hd.scheduledAt) := by
  intro hL hpc hr w'
  have h := round_retry_timer hpc hr
  have hw' : w' = { w with ctxDone := false, pc := .idle,
                           obs := w.obs.stopTimer.startTimer none, ret := .zero } := h
  have hI : Inv (w.obs.stopTimer.startTimer none) := restart_inv hL
  have hst := startTimer_started w.obs.stopTimer none
  have hle := startTimer_none_lastErr w.obs.stopTimer
  have hrepo : (w.obs.stopTimer.startTimer none).repo = w.obs.repo := by
    rw [startTimer_repo]; rfl
  rw [hw']
  refine ⟨by simp [hr, retryable], h, rfl, rfl, rfl, rfl, hrepo, ?_, hst, hle, hI, ?_, ?_, ?_, ?_⟩
  · show (w.obs.stopTimer.startTimer none).clock.now = _
    unfold Obs.startTimer
    rw [update_now]
    exact Clock.stopAndDrain_now _
  · intro hn; exact restart_empty hn
  · intro hd hn hdue; exact restart_due hn hdue
  · intro hd hn hdue; exact restart_notDue hn hdue
  · intro hd hn
    have hnl := hI.neverLate
    unfold Obs.neverLate at hnl
    change (w.obs.stopTimer.startTimer none).repo.getNext = some hd at hn
    simp only [hst, hle, Option.isNone_none, Bool.and_self, ↓reduceIte, hn, Bool.or_eq_true] at hnl
    rcases hnl with hp | ha
    · exact Or.inl hp
    · cases har : (w.obs.stopTimer.startTimer none).clock.armed with
      | none => simp [har] at ha
      | some d =>
        simp only [har, decide_eq_true_eq] at ha
        exact Or.inr ⟨d, rfl, ha⟩

/-! #### non-vacuity of §3 -/

/-- add t1 (5 s) with a hook fault (the re-arm fails, `LastTimerUpdateError ≠ nil`); `Step` restarts the
timer, the restart fails again → `TimerUpdateError` -/
def C20.timerFails : List Act :=
  [.user (.add "t1" { workId := some "w", scheduledAt := some (C05.sec 5) }) (some .other),
   .sched .beginStep, .sched .lastTimerErr, .sched .stopTimer, .sched (.startTimer (some .other)),
   .sched .lastTimerErr]

/-- `C20_retry_timerUpdateError_recovers`: reachable, meets the hypotheses, with NOTHING armed although
t1 is scheduled; the round arms the timer exactly at t1 (5 s). -/
example :
    let w := (World.init' C05.t0).run C20.timerFails
    World.Script (World.init' C05.t0) C20.timerFails ∧ w.pc = .idle ∧
    w.ret = .timerUpdateError .other ∧ w.obs.clock.armed = none ∧ w.obs.clock.pending = false ∧
    w.obs.hook.lastErr = some .other ∧ w.obs.repo.getNext.map (·.id) = some "t1" ∧
    (driveRound w).ret = .zero ∧ (driveRound w).obs.clock.armed = some (C05.sec 5) ∧
    (driveRound w).obs.hook.lastErr = none ∧ (driveRound w).obs.hook.started = true ∧
    (driveRound w).obs.hook.cached.map (·.id) = some "t1" := by
  decide

/-! ### 3½. The retries are total: over every reachable world, with no side condition -/

/-- the stored records are consistent (C12: state, timestamps and error text agree) and carry a
non-empty id after every script -/
theorem C20_records_consistent (t0 : Time) (acts : List Act) :
    World.Script (World.init' t0) acts →
    ∀ u ∈ ((World.init' t0).run acts).obs.repo.tasks, u.consistent = true ∧ u.id ≠ "" :=
  fun hs => (ConsInv.init t0).run (LiveInv.init t0) acts hs

/-- `Retry(DispatchErr)`, TOTAL. In every world a script reaches that is between two calls and holds a
retryable `DispatchErr t e`, one round of the fair fault-free driver
  (run)     starts the work function of `t.id` — the log grows by exactly its entry, the record handed
            over is in state dispatched and is the stored one, the driver holds `Dispatched t.id` —
            and this happens iff the task is stored as scheduled or dispatched; or
  (verdict) the task was cancelled (finished, removed) meanwhile: nothing runs, nothing is written,
            and the driver holds a `DispatchErr` whose error is a repository verdict: not retryable,
            "the world says why not".
Either way the state returned is not retryable. -/
theorem C20_retry_dispatchErr_total (t0 : Time) (acts : List Act) (t : Task) (e : Err) :
    World.Script (World.init' t0) acts →
    let w := (World.init' t0).run acts
    w.pc = .idle → w.ret = .dispatchErr t e → retryable w.ret = true →
    let w' := driveRound w
    w'.pc = .idle ∧ retryable w'.ret = false ∧
    (((∃ u, w.obs.repo.lookup t.id = some u ∧ (u.state = .scheduled ∨ u.state = .dispatched)) ∧
      ∃ cur, w'.log = w.log ++ [{ id := t.id, at_ := w.obs.clock.now, task := cur }] ∧
        cur.state = .dispatched ∧ w'.obs.repo.lookup t.id = some cur ∧
        w'.ret = .dispatched t.id ∧ w'.running = w.running ++ [(t.id, cur)]) ∨
     ((¬ ∃ u, w.obs.repo.lookup t.id = some u ∧ (u.state = .scheduled ∨ u.state = .dispatched)) ∧
      ∃ t' e', w'.ret = .dispatchErr t' e' ∧ World.isDefError e' = true ∧
        w'.log = w.log ∧ w'.running = w.running ∧ w'.obs = w.obs)) := by
  intro hs w hpc hr hq w'
  have hL : LiveInv w := (LiveInv.init t0).run acts hs
  have hC : ConsInv w := (ConsInv.init t0).run (LiveInv.init t0) acts hs
  rw [hr] at hq
  exact ⟨driveRound_idle w, round_not_retryable hpc,
    round_retry_dispatchErr_total hL hC hpc hr (C20rec.retryable_dispatchErr hq)⟩

/-- `Retry(TaskDone)`, TOTAL (any world between two calls that holds a retryable `TaskDone`): one
round starts no work function, leaves hook and clock alone, and either records the result (the task is
stored as dispatched) or writes nothing and ends with `Zero` (`ErrAlreadyDone` swallowed) or with a
repository verdict. Either way the state returned is not retryable. -/
theorem C20_retry_taskDone_total (w : World) (id : String) (o : Outcome) (e : Err) :
    w.pc = .idle → w.ret = .taskDone id o (some e) → retryable w.ret = true →
    let w' := driveRound w
    w'.pc = .idle ∧ retryable w'.ret = false ∧ w'.log = w.log ∧ w'.running = w.running ∧
    w'.obs.hook = w.obs.hook ∧ w'.obs.clock = w.obs.clock ∧
    (((∃ u, w.obs.repo.lookup id = some u ∧ u.state = .dispatched) ∧
        driveRound w = afterRetryDone w id o) ∨
     ((¬ ∃ u, w.obs.repo.lookup id = some u ∧ u.state = .dispatched) ∧
        w'.obs = w.obs ∧
        (w'.ret = .zero ∨ ∃ e', w'.ret = .taskDone id o (some e') ∧ World.isDefError e' = true))) := by
  intro hpc hr hq w'
  rw [hr] at hq
  obtain ⟨h1, h2, h3, h4, h5, h6⟩ := round_retry_done_total hpc hr (C20rec.retryable_taskDone hq)
  exact ⟨h1, round_not_retryable hpc, h2, h3, h4, h5, h6⟩

/-- non-vacuity of `C20_retry_dispatchErr_total`, verdict branch: see `C20.noWorkerCancelled` above;
run branch: `C20.markFails`, `C20.noWorker`. Non-vacuity of `C20_records_consistent`: -/
example :
    World.Script (World.init' C05.t0) C20.doneFailsAfter ∧
    ((World.init' C05.t0).run C20.doneFailsAfter).obs.repo.tasks.map
      (fun u => (u.id, u.state, u.consistent)) = [("t1", .err, true)] := by
  decide

/-! ### 4. No task is lost -/

/-- Invariant form. `w` satisfies the invariants (`LiveInv`, `DispInv`: both hold after every script,
`C05_round_invariants_init`) and is between two calls. After ONE round of the fair fault-free driver:
  (a) the call has returned;
  (b) NO TASK IS LOST: every task stored as dispatched has had its work function started;
  (c) the state returned does not ask for another `Retry`: the recovery is complete (if it is a
      `DispatchErr` at all, its error is a repository verdict: the world says why the task will not
      run);
  (d) a task that WAS dispatched and never started before the round (there is at most one, (e), and
      then the driver's state is a retryable `DispatchErr` naming it) is started by exactly this round,
      exactly once, with exactly the stored record, and nothing in the repository, hook or clock is
      touched. -/
theorem C20_recovery_round (w : World) :
    LiveInv w → DispInv w → w.pc = .idle →
    let w' := driveRound w
    w'.pc = .idle ∧
    (∀ u ∈ w'.obs.repo.tasks, u.state = .dispatched → ∃ x ∈ w'.log, x.id = u.id) ∧
    (∀ t e, w'.ret = .dispatchErr t e → World.isDefError e = true) ∧
    retryable w'.ret = false ∧
    (∀ u ∈ w.obs.repo.tasks, u.state = .dispatched → (∀ x ∈ w.log, x.id ≠ u.id) →
      retryable w.ret = true ∧
      w'.ret = .dispatched u.id ∧
      w'.log = w.log ++ [{ id := u.id, at_ := w.obs.clock.now, task := u }] ∧
      (w'.log.filter (fun x => x.id == u.id)).length = 1 ∧
      w'.running = w.running ++ [(u.id, u)] ∧ w'.obs = w.obs ∧
      w'.completed = w.completed ∧ w'.reported = w.reported) ∧
    (∀ u1 ∈ w.obs.repo.tasks, ∀ u2 ∈ w.obs.repo.tasks,
      u1.state = .dispatched → (∀ x ∈ w.log, x.id ≠ u1.id) →
      u2.state = .dispatched → (∀ x ∈ w.log, x.id ≠ u2.id) → u1 = u2) := by
  intro hL hD hpc w'
  have hok := hL.tasksOk
  have named : ∀ u ∈ w.obs.repo.tasks, u.state = .dispatched → (∀ x ∈ w.log, x.id ≠ u.id) →
      ∃ t e, w.ret = .dispatchErr t e ∧ World.isDefError e = false ∧ t.id = u.id := by
    intro u hu hs hlog
    rcases hD u hu hs with ⟨x, hx, hid⟩ | hh
    · exact absurd hid (hlog x hx)
    · simpa [HeldDisp, hpc] using hh
  refine ⟨driveRound_idle w, round_none_lost hL hD hpc, round_noRetryDisp hpc,
    round_not_retryable hpc, ?_, ?_⟩
  · intro u hu hs hlog
    obtain ⟨t, e, hr, hq, hid⟩ := named u hu hs hlog
    have hfix : w.fix.retryMarks = true := by rw [hL.fix]
    have hl : w.obs.repo.lookup t.id = some u := by
      cases hl : w.obs.repo.lookup t.id with
      | none => rw [hid] at hl; exact absurd hl (mem_lookup hu)
      | some c => rw [hok.lookup (t0 := c) hl hu hid.symm]
    have h : w' = afterRetryRun w t u := round_retry_skip hpc hfix hr hq hl hs
    rw [h]
    refine ⟨by simp [hr, retryable, hq], ?_, ?_, ?_, ?_, rfl, rfl, rfl⟩
    · simp only [afterRetryRun, hid]
    · simp only [afterRetryRun, hid]
    · simp only [afterRetryRun, hid]
      exact C20rec.count_one hlog rfl
    · simp only [afterRetryRun, hid]
  · intro u1 hu1 u2 hu2 hs1 hl1 hs2 hl2
    obtain ⟨t, e, hr, _, hid⟩ := named u1 hu1 hs1 hl1
    obtain ⟨t', e', hr', _, hid'⟩ := named u2 hu2 hs2 hl2
    rw [hr] at hr'
    cases hr'
    exact hok.eq_of_id hu1 hu2 (hid.symm.trans hid')

/-- C20, the eventual half, end to end. From ANY world that a script reaches (user mutations, time,
completions, faults before / after effect on every scheduler call, hook faults, cancelled contexts,
busy workers, `Step` / `Retry` in any order — `World.Script`; its only proviso is the driver's part of
the contract `DriverOk`: a retryable `DispatchErr` is answered with `Retry`, see
`C20_step_over_dispatchErr_now` for what happens otherwise) and that is between two calls, ONE round
of the fair fault-free driver ends with no task lost: every task stored as dispatched has had its work
function started; the one task that had not (`C20_recovery_idle_partial`) is started by this round,
once, as stored. Hence "no task is left dispatched without ever running".
PARTIAL only in the sense of `C20_recovery_partial`: `Script` contains `DriverOk`. -/
theorem C20_recovery_eventual (t0 : Time) (acts : List Act) :
    World.Script (World.init' t0) acts →
    let w := (World.init' t0).run acts
    w.pc = .idle →
    let w' := driveRound w
    w'.pc = .idle ∧
    (∀ u ∈ w'.obs.repo.tasks, u.state = .dispatched → ∃ x ∈ w'.log, x.id = u.id) ∧
    (∀ t e, w'.ret = .dispatchErr t e → World.isDefError e = true) ∧
    retryable w'.ret = false ∧
    (∀ u ∈ w.obs.repo.tasks, u.state = .dispatched → (∀ x ∈ w.log, x.id ≠ u.id) →
      retryable w.ret = true ∧
      w'.ret = .dispatched u.id ∧
      w'.log = w.log ++ [{ id := u.id, at_ := w.obs.clock.now, task := u }] ∧
      (w'.log.filter (fun x => x.id == u.id)).length = 1 ∧
      w'.running = w.running ++ [(u.id, u)] ∧ w'.obs = w.obs ∧
      w'.completed = w.completed ∧ w'.reported = w.reported) ∧
    (∀ u1 ∈ w.obs.repo.tasks, ∀ u2 ∈ w.obs.repo.tasks,
      u1.state = .dispatched → (∀ x ∈ w.log, x.id ≠ u1.id) →
      u2.state = .dispatched → (∀ x ∈ w.log, x.id ≠ u2.id) → u1 = u2) := by
  intro hs w hpc
  obtain ⟨hL, _, hD⟩ := C05_round_invariants_init t0 acts hs
  exact C20_recovery_round w hL hD hpc

/-- ... and it stays that way: after every further round of the fair fault-free driver (the rounds that
run the remaining scheduled tasks, record results, ...), again no task is dispatched without having
been started. -/
theorem C20_recovery_eventual_rounds (t0 : Time) (acts : List Act) (n : Nat) :
    World.Script (World.init' t0) acts →
    let w := (World.init' t0).run acts
    w.pc = .idle →
    (rounds (n + 1) w).pc = .idle ∧
    ∀ u ∈ (rounds (n + 1) w).obs.repo.tasks, u.state = .dispatched →
      ∃ x ∈ (rounds (n + 1) w).log, x.id = u.id := by
  intro hs w hpc
  obtain ⟨hL, hS, hD⟩ := C05_round_invariants_init t0 acts hs
  exact ⟨(rounds_invariants hL hS hD hpc (n + 1)).2.2.2, rounds_none_lost hL hS hD hpc n⟩

/-! #### non-vacuity of §4 -/

/-- `C20_recovery_eventual` on `C20.markFails` (reachable, between two calls, t1 dispatched and never
started, `DispatchErr t1 other`): after one round t1 is started; after two rounds its result is
recorded, with the work function run once; the third round blocks (nothing is left to do). -/
example :
    let w := (World.init' C05.t0).run C20.markFails
    World.Script (World.init' C05.t0) C20.markFails ∧ w.pc = .idle ∧
    w.obs.repo.tasks.map (fun t => (t.id, t.state)) = [("t1", .dispatched)] ∧ w.log = [] ∧
    (driveRound w).log.map (·.id) = ["t1"] ∧
    (driveRound w).obs.repo.tasks.map (fun t => (t.id, t.state)) = [("t1", .dispatched)] ∧
    (rounds 2 w).log.map (·.id) = ["t1"] ∧
    (rounds 2 w).obs.repo.tasks.map (fun t => (t.id, t.state)) = [("t1", .done)] ∧
    (rounds 3 w).ret = .awaitingNext ∧ (rounds 3 w).log.map (·.id) = ["t1"] := by
  decide

/-- the faults of `C20.faulty` (Props/C20.lean) replayed up to the `MarkAsDispatched` that fails after
its effect, on `init'`: the same end as if no failure had happened. -/
example :
    let acts : List Act :=
      [.user (.add "t1" { workId := some "w", scheduledAt := some (C05.sec 5) }) (some .other),
       .advance (C05.sec 40),
       .sched .beginStep, .sched .lastTimerErr, .sched .stopTimer, .sched (.startTimer none),
       .sched .lastTimerErr, .sched .selTimer, .sched (.getNext .before),
       .sched .beginStep, .sched .stopTimer, .sched (.startTimer none), .sched .lastTimerErr,
       .sched .selTimer, .sched (.getNext .none), .sched .nextScheduled,
       .sched .beginStep, .sched .lastTimerErr, .sched (.waitWorker false),
       .sched .beginRetry, .sched (.getById .before),
       .sched .beginRetry, .sched (.getById .none), .sched (.waitWorker true),
       .sched (.markDispatched .after none)]
    let w := (World.init' C05.t0).run acts
    World.Script (World.init' C05.t0) acts ∧ w.pc = .idle ∧ w.stuck = false ∧
    w.obs.repo.tasks.map (fun t => (t.id, t.state)) = [("t1", .dispatched)] ∧ w.log = [] ∧
    (rounds 2 w).log.map (fun x => (x.id, x.task.state)) = [("t1", .dispatched)] ∧
    (rounds 2 w).obs.repo.tasks.map (fun t => (t.id, t.state)) = [("t1", .done)] ∧
    (rounds 2 w).stuck = false := by
  decide

end Gk
