/-
Tie theorems, `repository/mution_hook_timer.go`: the methods of `MutationHookTimer` as generated from the
CURRENT Go source (Gk/Gen/Repository.lean) act on the generated state exactly as the hand-written model
`Gk.Obs` (Gk/Hook.lean, `fixed = true`) acts on its own — for every state, parameter and oracle answer of
the `GetNext` inside a re-arm. C07's and C05's theorems are about `Gk.Obs`.

`genOf o f` is the Go-shaped state that corresponds to the model state `o` when the next `GetNext` made by
a re-arm answers according to `f` (none: the core repository's real answer; some e: it fails with e).
-/
import Gk.Gen.Repository
import Gk.Props.TieDef
namespace Gk.Tie
open Gk Gk.Gen Gk.Gen.Repository

/-- how a (non-exhausted) look-up failure shows up as a Go error -/
def goErrOf (e : Gk.Err) : GoErr := .other (reprStr e)

def oracle (o : Obs) (f : Option Gk.Err) : Gen.Def.Task × GoError :=
  match f with
  | some e => (default, some (goErrOf e))
  | none =>
    match o.repo.getNext with
    | some t => (toGen t, none)
    | none => (default, some (.repo "" "exhausted"))

def genOf (o : Obs) (f : Option Gk.Err) : MutationHookTimer :=
  { cachedMin := (o.hook.cached.map toGen).getD default
    cacheStale := o.hook.stale
    repo := { next := oracle o f }
    timerReset := o.hook.timerReset
    isTimerStarted := o.hook.started
    lastErr := o.hook.lastErr.map goErrOf
    clock := o.clock }

/-- what the tie needs of a model state: the repaired decision logic, and cached tasks have an id -/
structure Ok (o : Obs) : Prop where
  fixed : o.hook.fixed = true
  cachedId : ∀ c, o.hook.cached = some c → c.id ≠ ""

theorem stopDrain (c : Clock) :
    (if (!(c.Stop).2) = true then Go.clockDrain (c.Stop).1 else (c.Stop).1) = c.stopAndDrain := by
  rcases c with ⟨now, armed, pending⟩
  cases armed <;> simp [Clock.Stop, Clock.stop, Clock.stopAndDrain, Go.clockDrain, Clock.consume]

theorem tie__update (o : Obs) (f : Option Gk.Err) (ctx : Ctx) (hf : f ≠ some .exhausted) :
    (genOf o f)._update ctx =
      (genOf { o.update f with hook := { (o.update f).hook with lastErr := o.hook.lastErr } } f,
       (o.update f).hook.lastErr.map goErrOf) := by
  rcases o with ⟨repo, ⟨fixed, cached, stale, timerReset, started, lastErr⟩, ⟨now, armed, pending⟩⟩
  cases started
  · simp [MutationHookTimer._update, genOf, Obs.update, oracle, Go.nil]
  · rcases f with _ | e
    · cases hg : repo.getNext <;> cases armed <;>
        simp [MutationHookTimer._update, genOf, Obs.update, oracle, Go.nil, hg, Clock.Stop, Clock.stop,
          Clock.stopAndDrain, Go.clockDrain, Clock.consume, GoRepo.GetNext, Go.isNil, Go.IsNil.isNil,
          Go.def_IsExhausted, Go.def_IsRepositoryErr, Go.isRepositoryErr, Clock.Reset, Clock.Now, Int.Sub, toGen]
    · have he : e ≠ .exhausted := fun h => hf (by rw [h])
      cases armed <;>
        simp [MutationHookTimer._update, genOf, Obs.update, oracle, Go.nil, Clock.Stop, Clock.stop,
          Clock.stopAndDrain, Go.clockDrain, Clock.consume, GoRepo.GetNext, Go.isNil, Go.IsNil.isNil,
          Go.def_IsExhausted, Go.def_IsRepositoryErr, Go.isRepositoryErr, goErrOf]

theorem update_repo (o : Obs) (f : Option Gk.Err) : (o.update f).repo = o.repo := by
  unfold Obs.update; split
  · rfl
  · split
    · rfl
    · split <;> rfl

theorem tie_update (o : Obs) (f : Option Gk.Err) (ctx : Ctx) (hf : f ≠ some .exhausted) :
    (genOf o f).update ctx = genOf (o.update f) f := by
  simp only [MutationHookTimer.update, tie__update o f ctx hf]
  simp [genOf, oracle, update_repo]

theorem cached_id (o : Obs) (f : Option Gk.Err) (h : Ok o) :
    ((genOf o f).cachedMin.Id == "") = o.hook.cached.isNone := by
  cases hc : o.hook.cached with
  | none => simp [genOf, hc]; rfl
  | some c => simp [genOf, hc, toGen, h.cachedId c hc]

theorem cached_eq (o : Obs) (f : Option Gk.Err) (c : Gk.Task) (hc : o.hook.cached = some c) :
    (genOf o f).cachedMin = toGen c := by simp [genOf, hc]

theorem stale_eq (o : Obs) (f : Option Gk.Err) : (genOf o f).cacheStale = o.hook.stale := rfl

/-- The three one-condition hooks are proved by splitting on every atomic condition (cache empty, stale, comparison,
id equality), so that a rewrite of the Go condition into an equivalent Boolean form still checks. -/
theorem tie_AddTask (o : Obs) (f : Option Gk.Err) (ctx : Ctx) (p : Gk.Param) (hf : f ≠ some .exhausted) (h : Ok o) :
    (genOf o f).AddTask ctx (toGenP p) = genOf (o.hookAdd p f) f := by
  have hne : ((genOf o f).cachedMin.Id != "") = !((genOf o f).cachedMin.Id == "") := rfl
  simp only [MutationHookTimer.AddTask, hne, cached_id o f h, stale_eq, tie_update o f ctx hf, Obs.hookAdd, Obs.untrusted,
    h.fixed]
  cases hc : o.hook.cached with
  | none => simp
  | some c =>
    simp only [cached_eq o f c hc, tie_Param_ToTask, tie_Task_Less, Def.NeverExistentId, Repository.farFuture]
    by_cases hs : o.hook.stale = true <;>
      by_cases hl : ((p.toTask "%%%%$$$$%%%%$$$$%%%%$$$$" farFuture).lessHook c) = true <;> simp [hs, hl]

theorem less_aux (P : Def.TaskUpdateParam) (p' : Gk.Param) (c : Gk.Task) (hP : P = toGenP p') :
    (P.ToTask Def.NeverExistentId Go.time_Zero).Less (toGen c) =
      (p'.toTask "%%%%$$$$%%%%$$$$%%%%$$$$" 0).lessHook c := by
  subst hP
  rw [← tie_Task_Less, ← tie_Param_ToTask]
  rfl

theorem less_aux' (wid : Option String) (pri : Option Int) (par met : Option SMap) (sch : Option Time)
    (dl : Option (Option Time)) (c : Gk.Task) :
    (({ WorkId := wid, Priority := pri, Param := par, Meta := met, ScheduledAt := sch, Deadline := dl } :
        Def.TaskUpdateParam).ToTask Def.NeverExistentId Go.time_Zero).Less (toGen c) =
      (({ workId := wid, priority := pri, param := par, meta_ := met, scheduledAt := sch, deadline := dl } :
        Gk.Param).toTask "%%%%$$$$%%%%$$$$%%%%$$$$" 0).lessHook c :=
  less_aux _ _ c rfl

theorem tie_UpdateById (o : Obs) (f : Option Gk.Err) (ctx : Ctx) (id : String) (p : Gk.Param)
    (hf : f ≠ some .exhausted) (h : Ok o) :
    (genOf o f).UpdateById ctx id (toGenP p) = genOf (o.hookUpdate id p f) f := by
  simp only [MutationHookTimer.UpdateById, cached_id o f h, tie_update o f ctx hf, Obs.hookUpdate, Obs.untrusted,
    h.fixed, tie_Param_Normalize]
  cases hc : o.hook.cached with
  | none => simp
  | some c =>
    simp only [cached_eq o f c hc, Option.isNone_some, Bool.false_or, Bool.true_and, if_true]
    by_cases hs : o.hook.stale = true
    · simp [hs, genOf]
    · simp only [hs, Bool.false_eq_true, if_false]
      have hgs : (genOf o f).cacheStale = false := by simpa [genOf] using hs
      simp only [hgs, Bool.false_eq_true, if_false]
      generalize p.normalize = q
      rcases q with ⟨wid, pri, par, met, sch, dl⟩
      by_cases hid : id = c.id
      · subst hid
        simp only [toGen_Id, toGen_Priority, toGen_ScheduledAt, beq_self_eq_true, if_true]
        rcases pri with _ | pr <;> rcases sch with _ | sc
        · simp [toGenP, Option.IsNone]
        all_goals
          simp only [toGenP, Option.IsNone, Option.isNone, Bool.and_false, Bool.false_and, Bool.false_eq_true, if_false,
            Option.Or, Option.or, Go.option_Some]
          simp only [less_aux']
          split
          · rename_i hh; simp [hh]
          · rename_i hh; simp [hh, genOf, hc, oracle]
      · have hb : (id == c.id) = false := by simp [hid]
        simp only [toGen_Id, toGen_Priority, toGen_ScheduledAt, hb, Bool.false_eq_true, if_false]
        rcases pri with _ | pr <;> rcases sch with _ | sc <;>
          simp [toGenP, Option.IsSome, Option.IsNone, Option.Value, Int.After, Int.not_lt] <;>
          (repeat' split) <;> first | rfl | omega | (simp_all)

theorem tie_Cancel (o : Obs) (f : Option Gk.Err) (ctx : Ctx) (id : String) (hf : f ≠ some .exhausted) (h : Ok o) :
    (genOf o f).Cancel ctx id = genOf (o.hookCancel id f) f := by
  have hne : ((genOf o f).cachedMin.Id != "") = !((genOf o f).cachedMin.Id == "") := rfl
  simp only [MutationHookTimer.Cancel, hne, cached_id o f h, stale_eq, tie_update o f ctx hf, Obs.hookCancel, Obs.untrusted,
    h.fixed]
  cases hc : o.hook.cached with
  | none => simp
  | some c =>
    simp only [cached_eq o f c hc, toGen_Id]
    have hb : (id == c.id) = (c.id == id) := by
      rw [Bool.eq_iff_iff]; simp only [beq_iff_eq]; exact eq_comm
    by_cases hs : o.hook.stale = true <;> by_cases hi : (c.id == id) = true <;> simp [hs, hi, hb]

theorem tie_MarkAsDispatched (o : Obs) (f : Option Gk.Err) (ctx : Ctx) (id : String) (hf : f ≠ some .exhausted)
    (h : Ok o) (hid : id ≠ "") :
    (genOf o f).MarkAsDispatched ctx id = genOf (o.hookDispatch id f) f := by
  have hne : ((genOf o f).cachedMin.Id != "") = !((genOf o f).cachedMin.Id == "") := rfl
  simp only [MutationHookTimer.MarkAsDispatched, hne, cached_id o f h, stale_eq, tie_update o f ctx hf, Obs.hookDispatch,
    h.fixed]
  cases hc : o.hook.cached with
  | none =>
    have : (genOf o f).cachedMin.Id = "" := by simp [genOf, hc]; rfl
    have hid' : ¬ ("" = id) := fun e => hid e.symm
    simp [this, hid, hid']
  | some c =>
    simp only [cached_eq o f c hc, toGen_Id]
    have hb : (id == c.id) = (c.id == id) := by
      rw [Bool.eq_iff_iff]; simp only [beq_iff_eq]; exact eq_comm
    by_cases hs : o.hook.stale = true <;> by_cases hi : (c.id == id) = true <;> simp [hs, hi, hb]

theorem tie_StartTimer (o : Obs) (f : Option Gk.Err) (ctx : Ctx) (hf : f ≠ some .exhausted) :
    (genOf o f).StartTimer ctx = genOf (o.startTimer f) f := by
  simp only [MutationHookTimer.StartTimer, Obs.startTimer]
  rw [← tie_update _ f ctx hf]
  rfl

theorem tie_StopTimer (o : Obs) (f : Option Gk.Err) : (genOf o f).StopTimer = genOf o.stopTimer f := by
  rcases o with ⟨repo, ⟨fixed, cached, stale, timerReset, started, lastErr⟩, ⟨now, armed, pending⟩⟩
  cases armed <;>
    simp [MutationHookTimer.StopTimer, genOf, Obs.stopTimer, oracle, Clock.Stop, Clock.stop, Clock.stopAndDrain,
      Go.clockDrain, Clock.consume]

theorem tie_NextScheduled (o : Obs) (f : Option Gk.Err) : (genOf o f).NextScheduled = o.nextScheduled := by
  cases hc : o.hook.cached <;> simp [MutationHookTimer.NextScheduled, Obs.nextScheduled, genOf, hc, toGen] <;> rfl

theorem tie_LastTimerUpdateError (o : Obs) (f : Option Gk.Err) :
    (genOf o f).LastTimerUpdateError = o.hook.lastErr.map goErrOf := rfl

end Gk.Tie
