/-
C20 — the safety half under faults: whatever faults are injected into the scheduler's repository
calls (error before the effect, error after the effect, hook `GetNext` faults, context cancellation),
no work function is started twice, none is started without the task having been marked dispatched,
and (unless the held task is postponed, D3i) none is started early.

`Script` already ranges over every fault placement, so this is a corollary of C03 / C04; it is stated
on its own because the differential harness reports fault runs under C20.
-/
import Gk.Proofs.World
import Gk.Props.C03
import Gk.Props.C04
namespace Gk
open World WP

theorem C20_safety (t0 : Time) (acts : List Act) (hs : (init t0).Script acts) :
    ((init t0).run acts).atMostOnce = true ∧
    ((init t0).run acts).dispatchedAtEntry = true ∧
    ((init t0).NoPostpone acts → ((init t0).run acts).noEarlyStart = true) :=
  ⟨C04_atMostOnce t0 acts hs, C04_dispatchedAtEntry t0 acts hs, C03_partial t0 acts hs⟩

/-- A repository call of the scheduler that fails before taking effect leaves the repository as it
was and makes `Step` / `Retry` return an error state that carries what is needed to retry
(the task for a dispatch, the id and outcome for a completion). -/
theorem C20_fault_noop (w : World) :
    (∀ t r hf, w.pc = .d_mark t r →
      (w.sched (.markDispatched .before hf)).1.obs.repo = w.obs.repo ∧
      (w.sched (.markDispatched .before hf)).1.pc = .idle ∧
      (w.sched (.markDispatched .before hf)).1.ret = .dispatchErr t .other) ∧
    (∀ id o, (w.pc = .s_markDone id o ∨ w.pc = .r_markDone id o) →
      (w.sched (.markDone .before)).1.obs.repo = w.obs.repo ∧
      (w.sched (.markDone .before)).1.pc = .idle ∧
      (w.sched (.markDone .before)).1.ret = .taskDone id o (some .other)) ∧
    (∀ t, (w.pc = .d_get t ∨ w.pc = .r_getById t) →
      (w.sched (.getById .before)).1.obs.repo = w.obs.repo ∧
      (w.sched (.getById .before)).1.pc = .idle ∧
      (w.sched (.getById .before)).1.ret = .dispatchErr t .other) ∧
    (w.pc = .s_getNext →
      (w.sched (.getNext .before)).1.obs.repo = w.obs.repo ∧
      (w.sched (.getNext .before)).1.pc = .idle ∧
      (w.sched (.getNext .before)).1.ret = .nextTask none (some .other) ∧
      (w.sched (.getNext .before)).1.lastTask = none ∧
      (w.sched (.getNext .before)).1.getNextErr = true) := by
  refine ⟨?_, ?_, ?_, ?_⟩
  · intro t r hf hpc
    unfold World.sched
    simp only [hpc]
    exact ⟨rfl, rfl, rfl⟩
  · intro id o hpc
    rcases hpc with hpc | hpc <;> unfold World.sched <;> simp only [hpc] <;> exact ⟨rfl, rfl, rfl⟩
  · intro t hpc
    rcases hpc with hpc | hpc <;> unfold World.sched <;> simp only [hpc] <;> exact ⟨rfl, rfl, rfl⟩
  · intro hpc
    unfold World.sched
    simp only [hpc]
    exact ⟨rfl, rfl, rfl, rfl, rfl⟩

/-- every error state returned after such a fault is an error state (`Err() ≠ nil`), so a driver that
retries on `Err() ≠ nil` retries it -/
theorem C20_fault_states_are_errors (t : Task) (id : String) (o : Outcome) :
    (SS.dispatchErr t .other).err ≠ none ∧ (SS.taskDone id o (some .other)).err ≠ none ∧
    (SS.nextTask none (some .other)).err ≠ none := by
  simp [SS.err]

/-- A cancelled context has the same effect on the writes: nothing is written. -/
theorem C20_ctx_noop (w : World) (hc : w.ctxDone = true) :
    (∀ t r f hf, w.pc = .d_mark t r →
      (w.sched (.markDispatched f hf)).1.obs.repo = w.obs.repo ∧
      ∃ e, (w.sched (.markDispatched f hf)).1.ret = .dispatchErr t e) ∧
    (∀ id o f, (w.pc = .s_markDone id o ∨ w.pc = .r_markDone id o) →
      (w.sched (.markDone f)).1.obs.repo = w.obs.repo ∧
      ∃ e, (w.sched (.markDone f)).1.ret = .taskDone id o (some e)) := by
  refine ⟨?_, ?_⟩
  · intro t r f hf hpc
    unfold World.sched
    simp only [hpc, hc, if_true]
    split <;> exact ⟨rfl, _, rfl⟩
  · intro id o f hpc
    rcases hpc with hpc | hpc <;> unfold World.sched <;> simp only [hpc, hc, if_true] <;>
      (split <;> exact ⟨rfl, _, rfl⟩)

/-! ### Non-vacuity: a run with a fault on every kind of call that still starts the work function once -/

namespace C20

def t0 : Time := 63808128000000000000
def sec : Time := 1000000000
def pT : Param := { workId := some "w", scheduledAt := some (t0 + 10 * sec) }

def faulty : List Act :=
  [ .user .start none, .user (.add "t" pT) (some .other),      -- hook GetNext fault on the re-arm
    .advance (t0 + 40 * sec),
    .sched .beginStep, .sched .lastTimerErr,                    -- LastTimerUpdateError ≠ nil: restart
    .sched .stopTimer, .sched (.startTimer none), .sched .lastTimerErr,
    .sched .selTimer, .sched (.getNext .before),                -- GetNext fails
    .sched .beginStep, .sched .stopTimer, .sched (.startTimer none), .sched .lastTimerErr,
    .sched .selTimer, .sched (.getNext .none), .sched .nextScheduled,
    .sched .beginStep, .sched .lastTimerErr, .sched (.waitWorker false),   -- no worker: DispatchErr ctx
    .sched .beginRetry, .sched (.getById .before),              -- Retry's GetById fails
    .sched .beginRetry, .sched (.getById .none), .sched (.waitWorker true),
    .sched (.markDispatched .after none),                       -- marked, then error
    .sched .beginRetry, .sched (.getById .none), .sched (.waitWorker true),
    .sched .cancelCtx, .sched (.getById .none),                 -- context cancelled before GetById
    .sched .beginRetry, .sched (.getById .none), .sched (.waitWorker true), .sched (.getById .after),
    .sched .beginRetry, .sched (.getById .none), .sched (.waitWorker true), .sched (.getById .none),
    .complete "t" .nil,
    -- the `DispatchErr`s above left the restart request set (D21): this `Step` restarts the timer first
    .sched .beginStep, .sched .stopTimer, .sched (.startTimer none), .sched .lastTimerErr,
    .sched (.selResult "t"), .sched (.markDone .before),
    .sched .beginRetry, .sched (.markDone .none) ]

end C20

example :
    (init C20.t0).Script C20.faulty ∧ (init C20.t0).NoPostpone C20.faulty ∧
    ((init C20.t0).run C20.faulty).stuck = false ∧
    (((init C20.t0).run C20.faulty).log.map (fun e => (e.id, e.task.state))) = [("t", .dispatched)] ∧
    marksOf (init C20.t0) C20.faulty = ["t"] ∧
    (((init C20.t0).run C20.faulty).obs.repo.lookup "t").map (·.state) = some .done ∧
    ((init C20.t0).run C20.faulty).ret = .zero := by
  decide +kernel

end Gk
