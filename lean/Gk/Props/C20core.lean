/-
C20 / C05 — the defect class D21 on a concrete run: `MarkAsDispatched` takes effect in the CORE repository below
the observable wrapper and is then reported as failed (`SAct.markDispatchedCore`), so the wrapper returns the error
WITHOUT calling its timer hook: the hook's cached head / the consumed fire no longer answer to the repository.

Two tasks t1, t2 are due at the same time; one fire announces t1; the first dispatch's mark is the core-level
fault. On the repaired code every `DispatchErr` exit of `dispatchTask` sets the restart request (`getNextErr`),
so the `Step` after the `Retry` stops and restarts the timer, which re-reads the head (t2) and fires at once:
both tasks run (`C20_core_after_effect_recovers`). On a copy of the world whose `DispatchErr` exit does NOT set
the restart request the same driver ends with t2 scheduled and due, nothing armed, nothing pending, no timer
error, nothing that would wake the next `Step`: it blocks in `select` forever
(`C20_core_after_effect_unrepaired_strands`).

The general statement behind the first theorem is `C05_liveInv_step` (the invariant `Live.LiveInv`, whose third
alternative "`Obs.Loose` ∧ a restart is pending" is exactly the state this run is in between the fault and the
restart) together with `C05_no_idle_timer`.
-/
import Gk.World
import Gk.Proofs.WorldLive
import Gk.Props.C05
namespace Gk
open Live

namespace C20core

def pT : Param := { workId := some "w", scheduledAt := some (C05.sec 5) }

/-- add t1 and t2 (both at 5 s), advance to 5 s, `Step` (timer branch) announces t1; the next `Step` acquires the
worker and its `MarkAsDispatched` takes effect in the core repository and is reported as failed (the wrapper's
hook is not called): `DispatchErr(t1, other)` with t1 already dispatched -/
def toDispatchErr : List Act :=
  [.user (.add "t1" pT) none, .user (.add "t2" pT) none, .advance (C05.sec 5)] ++ C05.stepTimer ++
  [.sched .beginStep, .sched .lastTimerErr, .sched (.waitWorker true), .sched .markDispatchedCore]

/-- the driver calls `Retry`: it fetches t1, finds it dispatched, skips the mark and starts the work function;
the work function returns -/
def retry : List Act :=
  [.sched .beginRetry, .sched (.getById .none), .sched (.waitWorker true), .sched (.getById .none),
   .complete "t1" .nil]

/-- the repaired code: the next `Step` finds the restart request, stops and starts the timer (t2 is due: the
restarted timer fires at once), receives t1's completion and records it -/
def stepRestart : List Act :=
  [.sched .beginStep, .sched .stopTimer, .sched (.startTimer none), .sched .lastTimerErr,
   .sched (.selResult "t1"), .sched (.markDone .none)]

/-- … and keeps stepping: announce t2, dispatch t2, its work function returns, record it -/
def finish : List Act :=
  C05.stepTimer ++
  [.sched .beginStep, .sched .lastTimerErr, .sched (.waitWorker true), .sched (.markDispatched .none none),
   .sched (.getById .none), .complete "t2" .nil,
   .sched .beginStep, .sched .lastTimerErr, .sched (.selResult "t2"), .sched (.markDone .none)]

/-- the code BEFORE the repair of D21 in the same situation: no restart request, so the `Step` after the `Retry`
has the plain prologue (`LastTimerUpdateError`, then `select`), where t1's completion is ready -/
def stepUnrepaired : List Act :=
  [.sched .beginStep, .sched .lastTimerErr, .sched (.selResult "t1"), .sched (.markDone .none)]

/-- the world at the `DispatchErr`, as the unrepaired code leaves it: the restart request is NOT set -/
def unrepairedAtErr : World := { (World.init' C05.t0).run toDispatchErr with getNextErr := false }

end C20core

open C20core in
/-- D21 repaired. The core-level fault after effect on the first of two simultaneously due tasks is survived:
* at the `DispatchErr` t1 is dispatched, t2 scheduled and due, NOTHING is armed or pending and the hook still
  caches t1 — but the restart request is set;
* `Retry` finds t1 dispatched, skips the mark, runs it (the request stays set);
* the next `Step` begins with the restart prologue (`pc = s_stop` after `beginStep`), and after
  `StopTimer(); StartTimer()` the hook caches t2 and the fire for it is pending;
* the run is never stuck, t2 is announced and started, and at the end both work functions have run, both tasks
  are `done`, nothing is left scheduled. -/
theorem C20_core_after_effect_recovers :
    let w0 := World.init' C05.t0
    let wE := w0.run toDispatchErr
    let wR := w0.run (toDispatchErr ++ retry)
    let wS := w0.run (toDispatchErr ++ retry ++ stepRestart.take 4)
    let w := w0.run (toDispatchErr ++ retry ++ stepRestart ++ finish)
    World.UserScript w0 (toDispatchErr ++ retry ++ stepRestart ++ finish) ∧
    -- at the DispatchErr
    wE.pc = .idle ∧ (match wE.ret with | .dispatchErr t e => t.id == "t1" && e == Err.other | _ => false) = true ∧
    wE.obs.repo.tasks.map (fun t => (t.id, t.state, decide (t.scheduledAt ≤ wE.obs.clock.now)))
      = [("t1", .dispatched, true), ("t2", .scheduled, true)] ∧
    wE.obs.clock.armed = none ∧ wE.obs.clock.pending = false ∧ wE.obs.hook.cached.map (·.id) = some "t1" ∧
    wE.getNextErr = true ∧
    -- after the Retry
    wR.pc = .idle ∧ wR.ret = .dispatched "t1" ∧ wR.log.map (·.id) = ["t1"] ∧ wR.getNextErr = true ∧
    wR.obs.clock.armed = none ∧ wR.obs.clock.pending = false ∧
    -- the next Step restarts the timer
    (wR.step (.sched .beginStep)).pc = .s_stop ∧
    wS.pc = .s_select ∧ wS.getNextErr = false ∧ wS.obs.hook.cached.map (·.id) = some "t2" ∧
    wS.obs.clock.pending = true ∧
    -- the end
    w.stuck = false ∧ w.pc = .idle ∧ w.log.map (·.id) = ["t1", "t2"] ∧
    w.obs.repo.tasks.map (fun t => (t.id, t.state)) = [("t1", .done), ("t2", .done)] ∧
    (∀ t ∈ w.obs.repo.tasks, t.state ≠ .scheduled) ∧
    w.running = [] ∧ w.completed = [] := by
  decide

open C20core in
/-- D21 NOT repaired (the `DispatchErr` exit does not set the restart request; everything else as above). After the
`Retry` has run t1 and a `Step` has recorded its completion, the scheduler is between two calls with t2 scheduled and
due, the timer started without error but neither armed nor pending, nothing announced, no restart request, a state
that is not retryable: `WakeUp` is false. The next `Step` reaches `select` with no branch ready but the context
(`selTimer` is not enabled): t2 is stranded until some unrelated mutation re-arms the timer. -/
theorem C20_core_after_effect_unrepaired_strands :
    let w := unrepairedAtErr.run (retry ++ stepUnrepaired)
    World.UserScript unrepairedAtErr (retry ++ stepUnrepaired) ∧
    w.stuck = false ∧ w.pc = .idle ∧ w.ret = .taskDone "t1" .nil none ∧ w.log.map (·.id) = ["t1"] ∧
    w.obs.repo.tasks.map (fun t => (t.id, t.state, decide (t.scheduledAt ≤ w.obs.clock.now)))
      = [("t1", .done, true), ("t2", .scheduled, true)] ∧
    w.obs.clock.armed = none ∧ w.obs.clock.pending = false ∧
    w.obs.hook.started = true ∧ w.obs.hook.lastErr = none ∧
    w.lastTask = none ∧ w.getNextErr = false ∧ w.running = [] ∧ w.completed = [] ∧
    ¬ World.WakeUp w ∧
    (w.run [.sched .beginStep, .sched .lastTimerErr]).pc = .s_select ∧
    (w.run [.sched .beginStep, .sched .lastTimerErr, .sched .selTimer]).stuck = true := by
  have hw : let w := unrepairedAtErr.run (retry ++ stepUnrepaired)
      World.UserScript unrepairedAtErr (retry ++ stepUnrepaired) ∧
      w.stuck = false ∧ w.pc = .idle ∧ w.ret = .taskDone "t1" .nil none ∧ w.log.map (·.id) = ["t1"] ∧
      w.obs.repo.tasks.map (fun t => (t.id, t.state, decide (t.scheduledAt ≤ w.obs.clock.now)))
        = [("t1", .done, true), ("t2", .scheduled, true)] ∧
      w.obs.clock.armed = none ∧ w.obs.clock.pending = false ∧
      w.obs.hook.started = true ∧ w.obs.hook.lastErr = none ∧
      w.lastTask = none ∧ w.getNextErr = false ∧ w.running = [] ∧ w.completed = [] ∧
      (w.run [.sched .beginStep, .sched .lastTimerErr]).pc = .s_select ∧
      (w.run [.sched .beginStep, .sched .lastTimerErr, .sched .selTimer]).stuck = true := by decide
  obtain ⟨h0, h1, h2, h3, h4, h5, h6, h7, h8, h9, h10, h11, h12, h13, h14, h15⟩ := hw
  refine ⟨h0, h1, h2, h3, h4, h5, h6, h7, h8, h9, h10, h11, h12, h13, ?_, h14, h15⟩
  simp [World.WakeUp, h3, h6, h7, h8, h9, h10, h11]

end Gk
