/-
C20 (recovery, liveness side) — a task marked as dispatched is never stranded *silently*.

Invariant `Live.DispInv` (Gk/Proofs/WorldLive.lean): every task in state `dispatched` either had its
work function started (its id is in the run log) or is held by the scheduler:
  pc ∈ {d_get t, d_wait t true, r_getById t} with `t.id` its id, or — between two calls — the state
  returned to the driver is `DispatchErr t e` for it, with `e` NOT a repository verdict
  (i.e. `ctx` / `other`: the driver's `Retry` will fetch it, see it dispatched, skip the mark and run it).

PARTIAL: as for C05, the scripts contain the driver's part of the contract (`DriverOk`): a retryable
`DispatchErr` is handed to `Retry`, not dropped by calling `Step` again. Without ghost state the
alternative "or its DispatchErr state was overwritten by a later Step" cannot be expressed as a state
predicate; `C20_step_over_dispatchErr_now` exhibits exactly that situation (it survives the repair of D21:
restarting the timer does not bring back a task that is already marked dispatched).
What remains for full C20-recovery: the *eventual* part (once faults stop, finitely many `Retry`s run
the task) — a progress argument, see `C05_progress_partial`.
-/
import Gk.World
import Gk.Proofs.WorldLive
import Gk.Props.C05
namespace Gk
open Live

theorem C20_dispInv_step_partial (w : World) (a : Act) :
    LiveInv w → DispInv w → World.UserOk w a → World.DriverOk w a → DispInv (w.step a) :=
  fun hL h hu hd => h.step hL a hu hd

/-- Over every (driver-disciplined) script, with faults, cancellations, user mutations anywhere. -/
theorem C20_recovery_partial (t0 : Time) (acts : List Act) :
    World.Script (World.init' t0) acts →
    ∀ u ∈ ((World.init' t0).run acts).obs.repo.tasks, u.state = .dispatched →
      (∃ e ∈ ((World.init' t0).run acts).log, e.id = u.id) ∨
      HeldDisp ((World.init' t0).run acts) u.id :=
  fun hs => (DispInv.init t0).run (LiveInv.init t0) acts hs

/-- Between two calls: a dispatched task whose work function never started is named by the
`DispatchErr` state the driver holds, and that state is retryable. -/
theorem C20_recovery_idle_partial (t0 : Time) (acts : List Act) :
    World.Script (World.init' t0) acts →
    ((World.init' t0).run acts).pc = .idle →
    ∀ u ∈ ((World.init' t0).run acts).obs.repo.tasks, u.state = .dispatched →
      (∀ e ∈ ((World.init' t0).run acts).log, e.id ≠ u.id) →
      ∃ t e, ((World.init' t0).run acts).ret = .dispatchErr t e ∧ t.id = u.id ∧
        World.isDefError e = false := by
  intro hs hpc u hu hst hlog
  rcases C20_recovery_partial t0 acts hs u hu hst with ⟨e, he, hid⟩ | hh
  · exact absurd hid (hlog e he)
  · have : ∃ t e, ((World.init' t0).run acts).ret = .dispatchErr t e ∧ World.isDefError e = false ∧
        t.id = u.id := by simpa [HeldDisp, hpc] using hh
    obtain ⟨t, e, h1, h2, h3⟩ := this
    exact ⟨t, e, h1, h3, h2⟩

/-- announce t1; Step: a worker is acquired, `MarkAsDispatched` takes effect and then reports an
error (fault after effect) → `DispatchErr t1 other` with t1 already dispatched. -/
def C20.markFails : List Act :=
  C05.announce ++
  [.sched .beginStep, .sched .lastTimerErr, .sched (.waitWorker true),
   .sched (.markDispatched .after none)]

/-- Non-vacuity: the script is a `Script`, ends between two calls with t1 dispatched, never started,
and `ret = DispatchErr t1 other`. -/
example :
    World.Script (World.init' C05.t0) C20.markFails ∧
    ((World.init' C05.t0).run C20.markFails).pc = .idle ∧
    ((World.init' C05.t0).run C20.markFails).log = [] ∧
    ((World.init' C05.t0).run C20.markFails).obs.repo.tasks.map (fun t => (t.id, t.state))
      = [("t1", .dispatched)] ∧
    (match ((World.init' C05.t0).run C20.markFails).ret with
      | .dispatchErr t e => t.id == "t1" && e == Err.other
      | _ => false) = true := by
  decide

/-- ... and `Retry` recovers it: fetches t1, sees it dispatched, skips the mark, runs it. -/
example :
    let acts := C20.markFails ++
      [.sched .beginRetry, .sched (.getById .none), .sched (.waitWorker true), .sched (.getById .none)]
    World.Script (World.init' C05.t0) acts ∧
    ((World.init' C05.t0).run acts).pc = .idle ∧
    ((World.init' C05.t0).run acts).log.map (fun e => (e.id, e.task.state)) = [("t1", .dispatched)] ∧
    ((World.init' C05.t0).run acts).ret = .dispatched "t1" := by
  decide

-- WORLDFIX: `C20_step_over_dispatchErr_witness` as stated is no longer true: with D21 repaired (`dispatchTask` sets
-- `getNextErr` when it gives up) the second `Step` starts with the restart prologue, so the old call sequence
-- `[beginStep, lastTimerErr, selCtx]` is not a run of the code any more (the automaton is `stuck` at `s_stop`).
-- The FINDING itself survives the repair, see `C20_step_over_dispatchErr_now`. Kept for the record:
-- theorem C20_step_over_dispatchErr_witness :
--     let acts := C20.markFails ++ [.sched .beginStep, .sched .lastTimerErr, .sched .selCtx]
--     let w := (World.init' C05.t0).run acts
--     World.UserScript (World.init' C05.t0) acts ∧ ¬ World.Script (World.init' C05.t0) acts ∧
--     w.pc = .idle ∧ w.stuck = false ∧ w.ret = .awaitingNext ∧ w.lastTask = none ∧
--     w.log = [] ∧ w.running = [] ∧ w.completed = [] ∧ w.reported = [] ∧
--     w.obs.repo.tasks.map (fun t => (t.id, t.state)) = [("t1", .dispatched)]

/-- REAL FINDING (driver contract), what happens NOW (D21 repaired): if the driver answers the
`DispatchErr(t1, other)` — t1 already marked dispatched by the failed attempt — with `Step` instead of `Retry`,
* the old call sequence is not a run of the code (the `Step` begins with the restart prologue: `stuck`);
* the actual run restarts the timer (`StopTimer`, `StartTimer`, no timer error), but that does NOT help: t1 is
  not scheduled any more, so nothing is armed and nothing pending, `select` blocks until the context ends
  (`AwaitingNext`), the restart request is consumed, and t1 stays `dispatched` forever although its work
  function never ran: nothing in the scheduler's state refers to it any more. The repair of D21 re-announces
  tasks that are still scheduled (`C05_step_over_dispatchErr_now`); it cannot recover a task whose mark took
  effect — that still needs `Retry`. -/
theorem C20_step_over_dispatchErr_now :
    let old := C20.markFails ++ [.sched .beginStep, .sched .lastTimerErr, .sched .selCtx]
    let acts := C20.markFails ++
      [.sched .beginStep, .sched .stopTimer, .sched (.startTimer none), .sched .lastTimerErr, .sched .selCtx]
    let w := (World.init' C05.t0).run acts
    ((World.init' C05.t0).run old).stuck = true ∧
    ((World.init' C05.t0).run C20.markFails).getNextErr = true ∧
    World.UserScript (World.init' C05.t0) acts ∧ ¬ World.Script (World.init' C05.t0) acts ∧
    w.pc = .idle ∧ w.stuck = false ∧ w.ret = .awaitingNext ∧ w.lastTask = none ∧ w.getNextErr = false ∧
    w.obs.clock.pending = false ∧ w.obs.clock.armed = none ∧
    w.log = [] ∧ w.running = [] ∧ w.completed = [] ∧ w.reported = [] ∧
    w.obs.repo.tasks.map (fun t => (t.id, t.state)) = [("t1", .dispatched)] := by
  decide

end Gk
