/-
C13 — the recovery operations of the SQL repository (RevertDispatched, CancelDispatched), model level.
The ghost-instrumented run (`Repo.grun`, `Ghost`, `GhostInv`) lives in `Gk/Proofs/Ghost.lean`.
-/
import Gk.Proofs.Repo
import Gk.Proofs.Ghost
import Gk.Props.C12
namespace Gk

/-- `RevertDispatched` resets exactly the dispatched tasks to scheduled and clears `dispatched_at`. -/
theorem C13_revert_shape (r : Repo) (now : Time) :
    (Repo.step {} r now .revert).1.tasks =
      r.tasks.map (fun t =>
        if t.state == .dispatched then { t with state := .scheduled, dispatchedAt := none } else t) ∧
    (Repo.step {} r now .revert).2 = .ok :=
  ⟨rfl, rfl⟩

/-- After reverting, a formerly dispatched task behaves like a scheduled one; everything else is
untouched; the invariant is kept. -/
theorem C13_reverted_behaves_scheduled {r : Repo} {now now' : Time} {e : Option String} (h : r.WF) :
    let r' := (Repo.step {} r now .revert).1
    r'.WF ∧
    (∀ t ∈ r.tasks, t.state = .dispatched →
      ∃ t', r'.lookup t.id = some t' ∧ t'.state = .scheduled ∧
        t' = { t with state := .scheduled, dispatchedAt := none } ∧
        (Repo.step {} r' now' (.done t.id e)).2 = .err .notDispatched ∧
        (Repo.step {} r' now' (.cancel t.id)).2 = .ok ∧
        (Repo.step {} r' now' (.dispatch t.id)).2 = .ok) ∧
    (∀ t ∈ r.tasks, t.state ≠ .dispatched → t ∈ r'.tasks) := by
  intro r'
  have hwf : r'.WF := C12_inv_step h trivial
  refine ⟨hwf, ?_, ?_⟩
  · intro t ht hs
    have hmem : ({ t with state := .scheduled, dispatchedAt := none } : Task) ∈ r'.tasks := by
      show _ ∈ List.map _ r.tasks
      refine List.mem_map.mpr ⟨t, ht, ?_⟩
      simp [hs]
    have hl := hwf.lookup_mem hmem
    simp only at hl
    refine ⟨_, hl, rfl, rfl, ?_, ?_, ?_⟩
    · rw [step_done_spec hwf, hl]
    · simp only [Repo.step]; rw [mutateScheduled_spec hwf, hl]
    · simp only [Repo.step]; rw [mutateScheduled_spec hwf, hl]
  · intro t ht hs
    show _ ∈ List.map _ r.tasks
    refine List.mem_map.mpr ⟨t, ht, ?_⟩
    simp [hs]

/-- Non-vacuity: a well-formed state with a dispatched task. -/
example : Ex.repo.WF ∧ Ex.tA ∈ Ex.repo.tasks ∧ Ex.tA.state = .dispatched := by
  refine ⟨?_, by decide, rfl⟩
  unfold Repo.WF; decide

/-- The ghost invariant along every fresh lifecycle-only history: every dispatched task is its
remembered record with only `state` and `dispatched_at` changed. -/
theorem C13_ghost_invariant {hist : List (Time × Op)} (hh : Repo.FreshHist {} {} hist)
    (hl : ∀ x ∈ hist, x.2.isLifecycle = true) :
    let rg := Repo.grun ({}, fun _ => none) hist
    rg.1.WF ∧ ∀ t ∈ rg.1.tasks, t.state = .dispatched →
      ∃ t0, rg.2 t.id = some t0 ∧ t0.state = .scheduled ∧ t0.dispatchedAt = none ∧
        t = { t0 with state := .dispatched, dispatchedAt := t.dispatchedAt } :=
  GhostInv.init.run hh hl

/-- Reverting maps every dispatched task to exactly the record remembered at its last dispatch. -/
theorem C13_revert_record {hist : List (Time × Op)} (hh : Repo.FreshHist {} {} hist)
    (hl : ∀ x ∈ hist, x.2.isLifecycle = true) (now : Time) :
    let rg := Repo.grun ({}, fun _ => none) hist
    rg.1 = Repo.run {} {} hist ∧
    (Repo.step {} rg.1 now .revert).1.tasks =
      rg.1.tasks.map (fun t => if t.state == .dispatched then (rg.2 t.id).getD t else t) ∧
    (∀ t ∈ rg.1.tasks, t.state = .dispatched →
      ∃ t0, rg.2 t.id = some t0 ∧ (Repo.step {} rg.1 now .revert).1.lookup t.id = some t0) := by
  intro rg
  have hinv : GhostInv rg := GhostInv.init.run hh hl
  have key : ∀ t ∈ rg.1.tasks, t.state = .dispatched →
      rg.2 t.id = some { t with state := .scheduled, dispatchedAt := none } := by
    intro t ht hs
    obtain ⟨t0, hg0, hs0, hd0, heq⟩ := hinv.2 t ht hs
    rw [hg0, heq]
    simp only [Option.some.injEq]
    obtain ⟨i, w, pr, st, er, pa, me, sa, ca, dl, cn, da, dn⟩ := t0
    simp only at hs0 hd0
    subst hs0 hd0
    rfl
  refine ⟨Repo.grun_fst _ _, ?_, ?_⟩
  · show List.map _ _ = _
    apply List.map_congr_left
    intro t ht
    by_cases hs : t.state = .dispatched
    · simp [hs, key t ht hs]
    · simp [hs]
  · intro t ht hs
    refine ⟨_, key t ht hs, ?_⟩
    obtain ⟨t', hl', -, he', -⟩ :=
      (C13_reverted_behaves_scheduled (now := now) (now' := now) (e := none) hinv.1).2.1 t ht hs
    rw [hl', he']

/-- Non-vacuity: `Ex.hist` is a fresh lifecycle-only history after which a task is dispatched, and
its remembered record is the (updated) scheduled record. -/
example : Repo.FreshHist {} {} Ex.hist ∧ (∀ x ∈ Ex.hist, x.2.isLifecycle = true) ∧
    (Repo.grun ({}, fun _ => none) Ex.hist).1.tasks.map (·.state) = [.err, .cancelled, .dispatched] ∧
    ((Repo.grun ({}, fun _ => none) Ex.hist).2 "c").map (·.state) = some .scheduled := by
  refine ⟨?_, by decide, by decide, by decide⟩
  simp only [Ex.hist, Repo.FreshHist, Op.fresh]
  decide

/-- `CancelDispatched`: exactly the dispatched tasks become cancelled at `normalize now`. -/
theorem C13_cancel_dispatched {r : Repo} {now : Time} (h : r.WF) :
    let r' := (Repo.step {} r now .cancelDispatched).1
    r'.tasks = r.tasks.map (fun t =>
      if t.state == .dispatched then { t with state := .cancelled, cancelledAt := some (normalize now) }
      else t) ∧
    (Repo.step {} r now .cancelDispatched).2 = .ok ∧
    r'.WF ∧
    (∀ t ∈ r.tasks, t.state = .dispatched →
      r'.lookup t.id = some { t with state := .cancelled, cancelledAt := some (normalize now) }) ∧
    (∀ t ∈ r.tasks, t.state ≠ .dispatched → r'.lookup t.id = some t) ∧
    (∀ t' ∈ r'.tasks, t'.state ≠ .dispatched) := by
  intro r'
  have hwf : r'.WF := C12_inv_step h trivial
  refine ⟨rfl, rfl, hwf, ?_, ?_, ?_⟩
  · intro t ht hs
    have hmem : ({ t with state := .cancelled, cancelledAt := some (normalize now) } : Task) ∈ r'.tasks := by
      show _ ∈ List.map _ r.tasks
      refine List.mem_map.mpr ⟨t, ht, ?_⟩
      simp [hs]
    exact hwf.lookup_mem hmem
  · intro t ht hs
    have hmem : t ∈ r'.tasks := by
      show _ ∈ List.map _ r.tasks
      refine List.mem_map.mpr ⟨t, ht, ?_⟩
      simp [hs]
    exact hwf.lookup_mem hmem
  · intro t' ht'
    have : t' ∈ List.map _ r.tasks := ht'
    obtain ⟨t, -, rfl⟩ := List.mem_map.mp this
    by_cases hs : t.state = .dispatched <;> simp [hs]

/-- Non-vacuity on `Ex.repo`: one task is cancelled, the other is kept. -/
example : Ex.repo.WF ∧
    (Repo.step {} Ex.repo 3000000 .cancelDispatched).1.tasks.map (·.state) = [.cancelled, .scheduled] := by
  refine ⟨?_, by decide⟩
  unfold Repo.WF; decide

/-- D8: on the pinned source (`revertClears := false`) the history add, dispatch, revert leaves a
"scheduled" task that still carries `dispatched_at`; mark-as-done then returns no error instead of
`notDispatched`, and the C12 invariant is broken. With the fix the same history is fine. -/
theorem C13_D8_witness :
    -- before the fix: mark-as-done of a reverted task "succeeds" and the invariant is broken
    (Repo.step Ex.d8Flags (Repo.run Ex.d8Flags {} Ex.d8Hist) 4000000 (.done "a" none)).2 = .ok ∧
    ¬ (Repo.run Ex.d8Flags {} Ex.d8Hist).WF ∧
    -- after the fix, on the same history
    (Repo.step {} (Repo.run {} {} Ex.d8Hist) 4000000 (.done "a" none)).2 = .err .notDispatched ∧
    (Repo.run {} {} Ex.d8Hist).WF ∧
    Repo.FreshHist {} {} Ex.d8Hist := by
  refine ⟨?_, ?_, ?_, ?_, ?_⟩
  · decide
  · unfold Repo.WF; decide
  · decide
  · unfold Repo.WF; decide
  · simp [Repo.FreshHist, Ex.d8Hist, Op.fresh]; decide

end Gk
