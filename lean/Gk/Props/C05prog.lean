/-
C05, global progress — "the fair fault-free driver runs every scheduled task, within a number of
rounds bounded by an explicit measure of the world" (repaired code: all `Fix` switches on,
`Hook.fixed = true`).  This closes the item listed as MISSING in section 6 of `Gk/Props/C05.lean`.
Proofs: `Gk/Proofs/WorldProgress.lean`.

Setting (all from `Gk/Proofs/WorldLive.lean`): `Live.driveRound w` is ONE call (`Retry` if the last
returned state is retryable, else `Step`) of the fair fault-free driver on a world between two calls;
`Live.rounds n w` iterates it.  Inside `select` the environment is fair: a pending fire is taken, else
the oldest queued completion, else the oldest running work function completes, else — nothing being
ready — the clock advances to the armed deadline; only if nothing at all can happen the call ends
with `AwaitingNext`.  Because the clock is advanced to the armed deadline whenever the scheduler would
otherwise block, "due" is a moving target and the theorem is stated (and proved) in the stronger
form "NO scheduled task remains, due or not"; the "no due task remains" form is the corollary
`C05_progress_due`.

Hypotheses of the theorems, and why every reachable world between two calls satisfies them:
  * `LiveInv w`   — the C05 invariant; holds after every script from `World.init'`
                    (`C05_liveInv_run_partial`, i.e. user actions `UserOk`, driver `DriverOk`).
  * `StartedOk w` — "the timer is started outside the two-call window Stop/Start"; holds after every
                    script from `World.init'` (`C05_round_invariants_init`).
  * `w.pc = .idle` — the world is between two calls of the driver.
Nothing else is assumed: the last returned state may be anything (retryable or not: the first round is
then a `Retry`), a task may be announced (`lastTask`) and already cancelled by a user, the hook cache
may be stale or empty, a timer error / `getNextErr` may be pending, completions may be queued, work
functions may be running.  (`DispInv` and `hook.started = true` are NOT needed; the latter follows
from `StartedOk` at `idle`.)

The measure.  `Psi w = 12·#scheduled + 8·#running + 4·#queued completions + lvl w`, where the phase
`lvl w ≤ 12` is defined at every program counter (`Live.lvl`); between two calls, in a non-retryable
state:  0 announced task still scheduled < 1 restart pending (`getNextErr` / timer error) <
2 nothing announced (inside `select`: 1 cache fresh < 2 cache not known to be fresh) <
3 `Retry(TaskDone)` < 11 announced task no longer scheduled / `Retry(DispatchErr)` <
12 `Retry(TimerUpdateError)`.  `bound w` is `Psi w` with the phase replaced by its maximum 12.
"The cache is fresh" (`Live.fresh`: timer set, cached time = head's time, a pending fire is justified,
an armed deadline is not before the head's time; or nothing scheduled, cached, armed, pending) is the
extra invariant asked for in C05.lean: it is established by every restart (`fresh_startTimer`), kept
by the waiting steps of `select` (`fresh_advance`) and makes the announce succeed (`good_of_fresh`,
`dec_s_nextSched`); it is needed only INSIDE a round, which is why it does not appear as a hypothesis.
-/
import Gk.World
import Gk.Proofs.WorldLive
import Gk.Proofs.WorldProgress
import Gk.Props.C05
namespace Gk
open Live

/-! ### 1. the measure decreases in every round -/

/-- The explicit bound is the potential with the phase at its maximum. -/
theorem C05_bound_eq (w : World) :
    bound w = 12 * nSched w + 8 * w.running.length + 4 * w.completed.length + 12 := rfl

theorem C05_potential_le_bound (w : World) : Psi w ≤ bound w := Psi_le_bound w

/-- `nSched` counts the scheduled tasks, due or not. -/
theorem C05_nSched_zero (w : World) :
    nSched w = 0 ↔ ∀ t ∈ w.obs.repo.tasks, t.state ≠ .scheduled := cntSched_zero

/-- FULL. Per micro-step: while a task is scheduled, every action of the fair fault-free driver
(at ANY program counter, under the round invariant `PQ`) decreases the potential, or the call goes
on and the potential does not increase. -/
theorem C05_step_decreases (w : World) : PQ w → 0 < nSched w →
    Psi (w.step (autoAct w)) < Psi w ∨
      ((w.step (autoAct w)).pc ≠ .idle ∧ Psi (w.step (autoAct w)) ≤ Psi w) :=
  fun hQ hS => psi_step hQ hS

/-- FULL. Per round: between two calls, while a task is scheduled, one round of the fair fault-free
driver strictly decreases the potential — or leaves nothing scheduled. This covers every round type:
announce (fresh / stale cache, with or without the restart prologue), failed announce
(`ErrScheduleStoppedOrChanged`), dispatch, refused dispatch, result / completion rounds, advance
rounds and the three `Retry` rounds. -/
theorem C05_round_decreases (w : World) :
    LiveInv w → StartedOk w → w.pc = .idle → 0 < nSched w →
    nSched (driveRound w) = 0 ∨ Psi (driveRound w) < Psi w :=
  fun hL hS hpc hpos => round_decreases hL hS hpc hpos

/-- FULL. The same without the hypothesis "a task is scheduled": every round strictly decreases the
potential, or it is the blocked round (`AwaitingNext`) and the world is quiet (`Live.Quiet`). -/
theorem C05_round_decreases_or_quiet (w : World) :
    LiveInv w → StartedOk w → w.pc = .idle →
    Psi (driveRound w) < Psi w ∨ Quiet (driveRound w) :=
  fun hL hS hpc => round_decreases_gen hL hS hpc

/-- FULL. Rounds never create a scheduled task (no hypothesis at all). -/
theorem C05_rounds_no_new_scheduled (n : Nat) (w : World) : nSched (rounds n w) ≤ nSched w :=
  nSched_rounds n w

/-! ### 2. the progress theorem -/

/-- FULL — the global progress theorem of C05. From every world between two calls that satisfies
the invariants, the fair fault-free driver reaches, within `n ≤ bound w` rounds
(`bound w = 12·#scheduled + 8·#running + 4·#completed + 12`), a world between two calls in which
  * no task is scheduled — a fortiori no DUE scheduled task remains;
  * every task that was scheduled at the start (in particular every task that was due) has had its
    work function started since: the log is the old log plus new entries, one of which carries its
    id;
  * the invariants hold again.
There is no "unless": in fault-free rounds nothing else can happen to a scheduled task. -/
theorem C05_progress (w : World) : LiveInv w → StartedOk w → w.pc = .idle →
    ∃ n, n ≤ bound w ∧ (rounds n w).pc = .idle ∧
      (∀ t ∈ (rounds n w).obs.repo.tasks, t.state ≠ .scheduled) ∧
      (∃ new, (rounds n w).log = w.log ++ new ∧
        ∀ t ∈ w.obs.repo.tasks, t.state = .scheduled → ∃ e ∈ new, e.id = t.id) ∧
      LiveInv (rounds n w) ∧ StartedOk (rounds n w) := by
  intro hL hS hpc
  obtain ⟨n, hn, h⟩ := progress hL hS hpc
  exact ⟨n, Nat.le_trans hn (Psi_le_bound w), h⟩

/-- The same with the sharper bound `Psi w` (the potential itself). -/
theorem C05_progress_potential (w : World) : LiveInv w → StartedOk w → w.pc = .idle →
    ∃ n, n ≤ Psi w ∧ (rounds n w).pc = .idle ∧
      (∀ t ∈ (rounds n w).obs.repo.tasks, t.state ≠ .scheduled) ∧
      (∃ new, (rounds n w).log = w.log ++ new ∧
        ∀ t ∈ w.obs.repo.tasks, t.state = .scheduled → ∃ e ∈ new, e.id = t.id) ∧
      LiveInv (rounds n w) ∧ StartedOk (rounds n w) :=
  fun hL hS hpc => progress hL hS hpc

/-- FULL — the statement in the "no due task remains" form: within `bound w` rounds no DUE scheduled
task remains, and every task that was due and scheduled at the start appears in the log. -/
theorem C05_progress_due (w : World) : LiveInv w → StartedOk w → w.pc = .idle →
    ∃ n, n ≤ bound w ∧
      (∀ t ∈ (rounds n w).obs.repo.tasks, t.state = .scheduled →
        ¬ t.scheduledAt ≤ (rounds n w).obs.clock.now) ∧
      (∀ t ∈ w.obs.repo.tasks, t.state = .scheduled → t.scheduledAt ≤ w.obs.clock.now →
        ∃ e ∈ (rounds n w).log, e.id = t.id) := by
  intro hL hS hpc
  obtain ⟨n, hn, _, hz, ⟨new, hlog, hst⟩, _⟩ := C05_progress w hL hS hpc
  refine ⟨n, hn, fun t ht hs => absurd hs (hz t ht), ?_⟩
  intro t ht hs _
  obtain ⟨e, he, hid⟩ := hst t ht hs
  exact ⟨e, by rw [hlog]; exact List.mem_append_right _ he, hid⟩

/-- FULL. Quiescence is stable: once nothing is scheduled, nothing is scheduled after any number of
further rounds (so the `n` of `C05_progress` can be replaced by any larger number, e.g. `bound w`). -/
theorem C05_quiescent_stable (w : World) (n m : Nat) : n ≤ m →
    (∀ t ∈ (rounds n w).obs.repo.tasks, t.state ≠ .scheduled) →
    ∀ t ∈ (rounds m w).obs.repo.tasks, t.state ≠ .scheduled :=
  fun hm h => quiescent_stable h m hm

/-- FULL. After exactly `bound w` rounds nothing is scheduled. -/
theorem C05_progress_at_bound (w : World) : LiveInv w → StartedOk w → w.pc = .idle →
    ∀ t ∈ (rounds (bound w) w).obs.repo.tasks, t.state ≠ .scheduled := by
  intro hL hS hpc
  obtain ⟨n, hn, _, hz, _⟩ := C05_progress w hL hS hpc
  exact quiescent_stable hz _ hn

/-- FULL — quiescence. The fair fault-free driver terminates in the only legitimate way: after at
most `Psi w ≤ bound w` productive rounds, the next round (round `n`, `1 ≤ n ≤ bound w + 1`) returns
`AwaitingNext` from a blocked `select`, and then (`Live.Quiet`) nothing is scheduled, nothing is
running, no completion is queued, no fire is pending, nothing is armed, nothing is announced, no
restart or timer error is pending; every task that was scheduled at the start has been started. -/
theorem C05_quiescence (w : World) : LiveInv w → StartedOk w → w.pc = .idle →
    ∃ n, 1 ≤ n ∧ n ≤ bound w + 1 ∧ Quiet (rounds n w) ∧
      (∃ new, (rounds n w).log = w.log ++ new ∧
        ∀ t ∈ w.obs.repo.tasks, t.state = .scheduled → ∃ e ∈ new, e.id = t.id) ∧
      LiveInv (rounds n w) ∧ StartedOk (rounds n w) := by
  intro hL hS hpc
  obtain ⟨n, h1, hn, h⟩ := quiescence hL hS hpc
  have := Psi_le_bound w
  exact ⟨n, h1, by omega, h⟩

/-- What `Quiet` says. -/
theorem C05_quiet_iff (w : World) :
    Quiet w ↔ (w.pc = .idle ∧ w.ret = .awaitingNext ∧
      (∀ t ∈ w.obs.repo.tasks, t.state ≠ .scheduled) ∧ w.running = [] ∧ w.completed = [] ∧
      w.obs.clock.pending = false ∧ w.obs.clock.armed = none ∧ w.lastTask = none ∧
      w.getNextErr = false ∧ w.obs.hook.lastErr = none) := by
  constructor
  · intro h
    exact ⟨h.pc, h.ret, cntSched_zero.1 h.sched, h.running, h.completed, h.pending, h.armed, h.last,
      h.gerr, h.lerr⟩
  · intro ⟨h1, h2, h3, h4, h5, h6, h7, h8, h9, h10⟩
    exact ⟨h1, h2, cntSched_zero.2 h3, h4, h5, h6, h7, h8, h9, h10⟩

/-- FULL. A quiet world stays quiet: every further round blocks again and changes nothing (but the
`ctxDone` flag of the finished call). -/
theorem C05_quiet_stable (w : World) (n : Nat) : Quiet w →
    Quiet (rounds n w) ∧ driveRound w = { w with ctxDone := false } :=
  fun hq => ⟨quiet_rounds hq n, quiet_round hq⟩

/-- The invariants (including `DispInv` of C20) hold between any two rounds. -/
theorem C05_rounds_invariants (w : World) (n : Nat) :
    LiveInv w → StartedOk w → DispInv w → w.pc = .idle →
    LiveInv (rounds n w) ∧ StartedOk (rounds n w) ∧ DispInv (rounds n w) ∧ (rounds n w).pc = .idle :=
  fun hL hS hD hpc => rounds_inv hL hS hD hpc n

/-- End-to-end over scripts: after ANY script from `World.init'` (user mutations, advances,
completions, faults, cancellations, `Step`/`Retry` in any order allowed by `DriverOk`) that ends
between two calls, the fair fault-free driver runs every scheduled task within `bound` rounds. -/
theorem C05_progress_run (t0 : Time) (acts : List Act) :
    World.Script (World.init' t0) acts → ((World.init' t0).run acts).pc = .idle →
    let w := (World.init' t0).run acts
    ∃ n, n ≤ bound w ∧ (rounds n w).pc = .idle ∧
      (∀ t ∈ (rounds n w).obs.repo.tasks, t.state ≠ .scheduled) ∧
      (∃ new, (rounds n w).log = w.log ++ new ∧
        ∀ t ∈ w.obs.repo.tasks, t.state = .scheduled → ∃ e ∈ new, e.id = t.id) := by
  intro hs hpc w
  have ⟨hL, hS, _⟩ := C05_round_invariants_init t0 acts hs
  obtain ⟨n, hn, h1, h2, h3, _⟩ := C05_progress w hL hS hpc
  exact ⟨n, hn, h1, h2, h3⟩

/-! ### 3. concrete reachable worlds (non-vacuity), all by `decide` -/

/-- Two tasks t1 (5 s), t2 (7 s), clock at 5 s, fire pending, fresh cache (the world of the example in
C05.lean): the hypotheses of `C05_progress` hold (`Script` gives `LiveInv`/`StartedOk`), the
potential is 24 + 2, the bound 36; the driver needs 5 rounds until nothing is scheduled (announce t1,
dispatch t1, complete t1 while waiting, announce t2 after the advance to 7 s, dispatch t2), not 4;
both tasks are in the new part of the log. -/
example :
    let acts : List Act :=
      [.user (.add "t1" { workId := some "w", scheduledAt := some (C05.sec 5) }) none,
       .user (.add "t2" { workId := some "w", scheduledAt := some (C05.sec 7) }) none,
       .advance (C05.sec 5)]
    let w := (World.init' C05.t0).run acts
    World.Script (World.init' C05.t0) acts ∧ w.pc = .idle ∧
    nSched w = 2 ∧ Psi w = 26 ∧ bound w = 36 ∧
    nSched (rounds 4 w) = 1 ∧ nSched (rounds 5 w) = 0 ∧
    w.log = [] ∧ (rounds 5 w).log.map (·.id) = ["t1", "t2"] ∧
    -- quiescence (`C05_quiescence`): round 7 is the blocked one
    (rounds 6 w).ret ≠ .awaitingNext ∧ (rounds 7 w).ret = .awaitingNext ∧
    (rounds 7 w).running = [] ∧ (rounds 7 w).completed = [] ∧ nSched (rounds 7 w) = 0 ∧
    (rounds 7 w).obs.clock.pending = false ∧ (rounds 7 w).obs.clock.armed = none ∧
    (rounds 7 w).lastTask = none ∧ (rounds 7 w).getNextErr = false ∧
    (rounds 7 w).obs.hook.lastErr = none ∧ Psi (rounds 7 w) = 2 := by
  decide

/-- The stale cache (the D12 situation, before any `Step`): t2 added at 5 s and postponed to 15 s, the
clock at 5 s: the fire is pending but the head is not due and the cached time is wrong. The first
round fails (`ErrScheduleStoppedOrChanged`, `getNextErr` set: phase 2 → 1), the second restarts the
timer, waits for 15 s and announces (phase 1 → 0), the third dispatches. -/
example :
    let acts : List Act :=
      [.user (.add "t2" { workId := some "w", scheduledAt := some (C05.sec 5), priority := some 1 }) none,
       .user (.update "t2" { priority := some 0, scheduledAt := some (C05.sec 15) }) none,
       .advance (C05.sec 5)]
    let w := (World.init' C05.t0).run acts
    World.Script (World.init' C05.t0) acts ∧ w.pc = .idle ∧
    w.obs.hook.stale = true ∧ w.obs.clock.pending = true ∧
    nSched w = 1 ∧ Psi w = 14 ∧ bound w = 24 ∧
    (rounds 1 w).ret = .nextTask none (some .schedChanged) ∧ Psi (rounds 1 w) = 13 ∧
    (rounds 2 w).lastTask.map (·.id) = some "t2" ∧ Psi (rounds 2 w) = 12 ∧
    nSched (rounds 2 w) = 1 ∧ nSched (rounds 3 w) = 0 ∧
    (rounds 3 w).log.map (fun e => (e.id, decide (e.task.scheduledAt ≤ e.at_))) = [("t2", true)] := by
  decide

/-- An announced task that a user cancels before the dispatch, and a second task: the world between
the calls has `lastTask = t1` (cancelled: phase 11); the dispatch round is refused
(`DispatchErr(already cancelled)`, not retryable), then t3 is announced and run. -/
example :
    let acts : List Act := C05.announce ++
      [.user (.cancel "t1") none,
       .user (.add "t3" { workId := some "w", scheduledAt := some (C05.sec 6) }) none]
    let w := (World.init' C05.t0).run acts
    World.Script (World.init' C05.t0) acts ∧ w.pc = .idle ∧
    w.lastTask.map (fun t => (t.id, t.state)) = some ("t1", .scheduled) ∧
    w.obs.repo.tasks.map (fun t => (t.id, t.state)) = [("t1", .cancelled), ("t3", .scheduled)] ∧
    nSched w = 1 ∧ Psi w = 23 ∧ bound w = 24 ∧
    (rounds 1 w).ret = .dispatchErr (w.lastTask.getD World.zeroTask) .alreadyCancelled ∧
    Psi (rounds 1 w) < Psi w ∧
    nSched (rounds 2 w) = 1 ∧ nSched (rounds 3 w) = 0 ∧
    (rounds 3 w).log.map (·.id) = ["t3"] := by
  decide

/-- A retryable `DispatchErr` (no worker before the context ended): the first round of the fair
driver is a `Retry`, which marks and runs t1. -/
example :
    let acts : List Act := C05.announce ++
      [.sched .beginStep, .sched .lastTimerErr, .sched (.waitWorker false)]
    let w := (World.init' C05.t0).run acts
    World.Script (World.init' C05.t0) acts ∧ w.pc = .idle ∧ retryable w.ret = true ∧
    nSched w = 1 ∧ Psi w = 23 ∧ bound w = 24 ∧
    nSched (rounds 1 w) = 0 ∧ (rounds 1 w).log.map (·.id) = ["t1"] ∧
    (rounds 1 w).ret = .dispatched "t1" := by
  decide

/-- Running work functions and queued completions are part of the measure: t1 running, t2 due. -/
example :
    let acts : List Act :=
      [.user (.add "t1" { workId := some "w", scheduledAt := some (C05.sec 5) }) none,
       .user (.add "t2" { workId := some "w", scheduledAt := some (C05.sec 5) }) none,
       .advance (C05.sec 5)]
    let w := rounds 2 ((World.init' C05.t0).run acts)
    w.pc = .idle ∧ w.running.map (·.1) = ["t1"] ∧ nSched w = 1 ∧ bound w = 32 ∧
    nSched (rounds 2 w) = 0 ∧ (rounds 2 w).log.map (·.id) = ["t1", "t2"] ∧
    (rounds 4 w).running = [] ∧ (rounds 4 w).completed = [] ∧
    (rounds 4 w).obs.repo.tasks.map (fun t => (t.id, t.state)) = [("t1", .done), ("t2", .done)] := by
  decide

end Gk

/-! ### axiom audit -/
#print axioms Gk.C05_progress
#print axioms Gk.C05_progress_potential
#print axioms Gk.C05_progress_due
#print axioms Gk.C05_progress_at_bound
#print axioms Gk.C05_progress_run
#print axioms Gk.C05_round_decreases
#print axioms Gk.C05_step_decreases
#print axioms Gk.C05_rounds_no_new_scheduled
#print axioms Gk.C05_quiescent_stable
#print axioms Gk.C05_rounds_invariants
#print axioms Gk.C05_round_decreases_or_quiet
#print axioms Gk.C05_quiescence
#print axioms Gk.C05_quiet_iff
#print axioms Gk.C05_quiet_stable
