/-
C11 — `Find`: the offset / limit loop returns a contiguous window of the matching tasks in
insertion order, and the transcribed matcher (`Query.normalize` + `Query.matches`) equals a
declarative statement of the documented matching rules (`MatchesDoc`).

Helpers (`takeLim`, one-step equations of `findLoop`, `isInfixOf_iff`) live in `Gk/Proofs/Find.lean`.
-/
import Gk.Basic
import Gk.Query
import Gk.Repo
import Gk.Proofs.Find
import Gk.Proofs.ByCreated
namespace Gk

/-! ## 1. The loop -/

/-- With a negative offset the Go loop never emits anything: `offset != 0` holds for ever, so every
match is consumed by `offset--; continue`. -/
theorem C11_loop_neg (pred : Task → Bool) (ts : List Task) (offset limit : Int) (h : offset < 0) :
    findLoop pred ts offset limit = [] := by
  induction ts generalizing offset with
  | nil => exact findLoop_nil ..
  | cons t ts ih =>
    cases hp : pred t
    · rw [findLoop_cons_false hp]; exact ih _ h
    · rw [findLoop_cons_skip hp ts (by omega)]; exact ih _ (by omega)

/-- The loop = filter, drop `offset`, take `limit` (negative limit = unlimited, `0` = empty). -/
theorem C11_loop (pred : Task → Bool) (ts : List Task) (offset limit : Int) (h : 0 ≤ offset) :
    findLoop pred ts offset limit = takeLim limit ((ts.filter pred).drop offset.toNat) := by
  induction ts generalizing offset limit with
  | nil => simp [findLoop_nil]
  | cons t ts ih =>
    cases hp : pred t
    · rw [findLoop_cons_false hp, List.filter_cons_of_neg (by simp [hp])]; exact ih _ _ h
    · rw [List.filter_cons_of_pos hp]
      by_cases ho : offset = 0
      · subst ho
        simp only [Int.toNat_zero, List.drop_zero]
        by_cases hl : limit = 0
        · subst hl; rw [findLoop_cons_stop hp, takeLim_zero]
        · rw [findLoop_cons_emit hp ts hl, ih _ _ (Int.le_refl 0)]
          simp only [Int.toNat_zero, List.drop_zero]
          by_cases hpos : limit > 0
          · rw [if_pos hpos, takeLim_pos_cons hpos]
          · have hneg : limit < 0 := by omega
            rw [if_neg hpos, takeLim_neg hneg, takeLim_neg hneg]
      · rw [findLoop_cons_skip hp ts ho, ih _ _ (by omega)]
        have h1 : offset.toNat = (offset - 1).toNat + 1 := by omega
        rw [h1, List.drop_succ_cons]

/-- Test tasks for the non-vacuity examples: only the priority varies. -/
def exTask (id : String) (prio : Int) : Task := { Task.blank id 1000000 with priority := prio }

/-- Non-vacuity of `C11_loop`: six tasks, four of them match, offset 1, limit 2. -/
example :
    findLoop (fun t => decide (t.priority > 0))
      [exTask "a" 1, exTask "b" 0, exTask "c" 2, exTask "d" 3, exTask "e" 0, exTask "f" 4] 1 2
      = [exTask "c" 2, exTask "d" 3] := by decide

example :
    takeLim 2 ((([exTask "a" 1, exTask "b" 0, exTask "c" 2, exTask "d" 3, exTask "e" 0,
      exTask "f" 4].filter (fun t => decide (t.priority > 0))).drop (1 : Int).toNat))
      = [exTask "c" 2, exTask "d" 3] := by decide

/-- Negative limit = unlimited; limit 0 = nothing; negative offset = nothing. -/
example :
    findLoop (fun t => decide (t.priority > 0)) [exTask "a" 1, exTask "b" 0, exTask "c" 2] 1 (-1)
      = [exTask "c" 2] ∧
    findLoop (fun t => decide (t.priority > 0)) [exTask "a" 1, exTask "b" 0, exTask "c" 2] 0 0
      = [] ∧
    findLoop (fun t => decide (t.priority > 0)) [exTask "a" 1, exTask "b" 0, exTask "c" 2] (-1) 5
      = [] := by decide

/-! ## 2. Order -/

/-- Results come in insertion order (a sublist of the stored tasks) and all satisfy the predicate.
No side condition on `offset` / `limit`. -/
theorem C11_order (pred : Task → Bool) (ts : List Task) (offset limit : Int) :
    (findLoop pred ts offset limit).Sublist ts ∧
      ∀ t ∈ findLoop pred ts offset limit, pred t = true := by
  by_cases h : 0 ≤ offset
  · rw [C11_loop _ _ _ _ h]
    have hs : (takeLim limit ((ts.filter pred).drop offset.toNat)).Sublist (ts.filter pred) :=
      (takeLim_sublist _ _).trans (List.drop_sublist _ _)
    exact ⟨hs.trans List.filter_sublist, fun t ht => (List.mem_filter.mp (hs.subset ht)).2⟩
  · rw [C11_loop_neg _ _ _ _ (by omega)]; simp

/-! ## 3. Window -/

/-- The result is a contiguous window of the list of matching tasks, starting `offset` in. -/
theorem C11_window (pred : Task → Bool) (ts : List Task) (offset limit : Int) (h : 0 ≤ offset) :
    ∃ pre post, ts.filter pred = pre ++ findLoop pred ts offset limit ++ post ∧
      pre.length = min offset.toNat (ts.filter pred).length := by
  rw [C11_loop _ _ _ _ h]
  obtain ⟨post, hpost⟩ := takeLim_prefix limit ((ts.filter pred).drop offset.toNat)
  refine ⟨(ts.filter pred).take offset.toNat, post, ?_, List.length_take⟩
  rw [List.append_assoc, ← hpost, List.take_append_drop]

/-- Non-vacuity of `C11_window`: the window `[c, d]` sits between `[a]` and `[f]`. -/
example :
    [exTask "a" 1, exTask "b" 0, exTask "c" 2, exTask "d" 3, exTask "e" 0, exTask "f" 4].filter
        (fun t => decide (t.priority > 0))
      = [exTask "a" 1] ++
        findLoop (fun t => decide (t.priority > 0))
          [exTask "a" 1, exTask "b" 0, exTask "c" 2, exTask "d" 3, exTask "e" 0, exTask "f" 4] 1 2
        ++ [exTask "f" 4] := by decide

/-! ## 4. String matchers -/

/-- `strings.Contains`. -/
theorem C11_isInfixOf (n h : List Char) : isInfixOf n h = true ↔ ∃ a b, h = a ++ n ++ b :=
  isInfixOf_iff n h

/-- `strings.HasPrefix`. -/
theorem C11_isPrefixOf (n h : List Char) : n.isPrefixOf h = true ↔ ∃ b, h = n ++ b := by
  rw [List.isPrefixOf_iff_prefix]
  exact ⟨fun ⟨b, hb⟩ => ⟨b, hb.symm⟩, fun ⟨b, hb⟩ => ⟨b, hb.symm⟩⟩

/-- `strings.HasSuffix`. -/
theorem C11_isSuffixOf (n h : List Char) : n.isSuffixOf h = true ↔ ∃ a, h = a ++ n := by
  rw [List.isSuffixOf_iff_suffix]
  exact ⟨fun ⟨a, ha⟩ => ⟨a, ha.symm⟩, fun ⟨a, ha⟩ => ⟨a, ha.symm⟩⟩

/-- The list-level relations used in `MapMatcherDoc`, read back on `String`s. -/
theorem C11_prefix_string (p s : String) : p.toList <+: s.toList ↔ ∃ r, s = p ++ r := by
  constructor
  · rintro ⟨r, hr⟩
    exact ⟨String.ofList r, String.toList_inj.mp (by simp [String.toList_append, hr])⟩
  · rintro ⟨r, rfl⟩; exact ⟨r.toList, by simp [String.toList_append]⟩

theorem C11_suffix_string (p s : String) : p.toList <:+ s.toList ↔ ∃ l, s = l ++ p := by
  constructor
  · rintro ⟨l, hl⟩
    exact ⟨String.ofList l, String.toList_inj.mp (by simp [String.toList_append, hl])⟩
  · rintro ⟨l, rfl⟩; exact ⟨l.toList, by simp [String.toList_append]⟩

theorem C11_infix_string (p s : String) : p.toList <:+: s.toList ↔ ∃ l r, s = l ++ p ++ r := by
  constructor
  · rintro ⟨l, r, h⟩
    exact ⟨String.ofList l, String.ofList r,
      String.toList_inj.mp (by simp [String.toList_append, ← h])⟩
  · rintro ⟨l, r, rfl⟩; exact ⟨l.toList, r.toList, by simp [String.toList_append]⟩

/-! ## 5. The documented matching rules -/

/-- Scalar field (`id`, `work_id`, `priority`, `state`, `err`): unset, or equal. -/
def ScalarDoc {α} (want : Option α) (stored : α) : Prop :=
  match want with
  | none => True
  | some w => stored = w

/-- One `MapMatcher` against a stored map. An absent key satisfies no matcher. -/
def MapMatcherDoc (m : MapMatcher) (map : SMap) : Prop :=
  match SMap.lookup map m.key with
  | none => False
  | some v =>
    match m.matchType with
    | .hasKey => True
    | .exact | .other => v = m.value                     -- unknown / empty type: Exact
    | .forward => m.value.toList <+: v.toList            -- `m.value` is a prefix of `v`
    | .backward => m.value.toList <:+ v.toList           -- … a suffix
    | .middle => m.value.toList <:+: v.toList            -- … a contiguous substring

/-- Map field (`param`, `meta`): unset, or every matcher holds. -/
def MapFieldDoc (want : Option (List MapMatcher)) (stored : SMap) : Prop :=
  match want with
  | none => True
  | some ms => ∀ m ∈ ms, MapMatcherDoc m stored

/-- One `TimeMatcher` against a stored (possibly null) time; the operand is normalised to
millisecond precision first. A null stored value satisfies no matcher. -/
def TimeMatcherDoc (m : TimeMatcher) (stored : Option Time) : Prop :=
  match stored with
  | none => False
  | some v =>
    let x := normalize m.value
    match m.matchType with
    | .nonNull => True
    | .equal | .other => v = x                           -- unknown type: Equal
    | .before => v < x
    | .beforeEqual => v ≤ x
    | .after => v > x
    | .afterEqual => v ≥ x

/-- Mandatory time field (`scheduled_at`, `created_at`): unset, or the matcher holds. -/
def TimeFieldDoc (want : Option TimeMatcher) (stored : Time) : Prop :=
  match want with
  | none => True
  | some m => TimeMatcherDoc m (some stored)

/-- Optional time field (`deadline`, `cancelled_at`, `dispatched_at`, `done_at`):
unset; or `Some(None)` = "is null"; or the matcher holds. -/
def OptTimeFieldDoc (want : Option (Option TimeMatcher)) (stored : Option Time) : Prop :=
  match want with
  | none => True
  | some none => stored = none
  | some (some m) => TimeMatcherDoc m stored

/-- The documented meaning of `TaskQueryParam` (all set fields must hold). -/
def MatchesDoc (q : Query) (t : Task) : Prop :=
  ScalarDoc q.id t.id ∧
  ScalarDoc q.workId t.workId ∧
  ScalarDoc q.priority t.priority ∧
  ScalarDoc q.state t.state.name ∧
  ScalarDoc q.err t.err ∧
  MapFieldDoc q.param t.param ∧
  MapFieldDoc q.meta_ t.meta_ ∧
  TimeFieldDoc q.scheduledAt t.scheduledAt ∧
  TimeFieldDoc q.createdAt t.createdAt ∧
  OptTimeFieldDoc q.deadline t.deadline ∧
  OptTimeFieldDoc q.cancelledAt t.cancelledAt ∧
  OptTimeFieldDoc q.dispatchedAt t.dispatchedAt ∧
  OptTimeFieldDoc q.doneAt t.doneAt

/-! ### field-wise equivalences -/

theorem matchEq_iff {α} [BEq α] [LawfulBEq α] (v : α) (q : Option α) :
    matchEq v q = true ↔ ScalarDoc q v := by
  cases q <;> simp [matchEq, ScalarDoc]

theorem mapMatcher_iff (m : MapMatcher) (map : SMap) :
    m.matches map = true ↔ MapMatcherDoc m map := by
  obtain ⟨k, val, mt⟩ := m
  unfold MapMatcher.matches MapMatcherDoc
  cases SMap.lookup map k <;> cases mt <;> simp [MapMatchType.get, isInfixOf_iff_infix]

theorem matchMap_iff (v : SMap) (q : Option (List MapMatcher)) :
    matchMap v q = true ↔ MapFieldDoc q v := by
  cases q <;> simp [matchMap, MapFieldDoc, mapMatcher_iff]

theorem timeMatcher_iff (m : TimeMatcher) (v : Option Time) :
    m.normalize.matches v = true ↔ TimeMatcherDoc m v := by
  obtain ⟨mt, x⟩ := m
  cases v <;> cases mt <;>
    simp [TimeMatcher.matches, TimeMatcher.normalize, TimeMatchType.get, TimeMatcherDoc] <;>
    first | exact eq_comm | exact decide_eq_true_iff

theorem matchTime_iff (v : Time) (q : Option TimeMatcher) :
    matchTime v (q.map TimeMatcher.normalize) = true ↔ TimeFieldDoc q v := by
  cases q <;> simp [matchTime, TimeFieldDoc, timeMatcher_iff]

theorem matchOptTime_iff (v : Option Time) (q : Option (Option TimeMatcher)) :
    matchOptTime v (q.map (·.map TimeMatcher.normalize)) = true ↔ OptTimeFieldDoc q v := by
  rcases q with _ | _ | m <;> simp [matchOptTime, OptTimeFieldDoc, timeMatcher_iff]

/-- The transcribed matcher (normalise the query, then `Match`) is exactly the documented one. -/
theorem C11_match_spec (q : Query) (t : Task) :
    (q.normalize true).matches t = true ↔ MatchesDoc q t := by
  simp only [Query.matches, Query.normalize, if_true, Bool.and_eq_true, MatchesDoc, matchEq_iff,
    matchMap_iff, matchTime_iff, matchOptTime_iff, and_assoc]

instance (q : Query) (t : Task) : Decidable (MatchesDoc q t) :=
  decidable_of_iff _ (C11_match_spec q t)

theorem C11_match_spec_bool (q : Query) (t : Task) :
    decide (MatchesDoc q t) = (q.normalize true).matches t := by
  rw [Bool.eq_iff_iff]; simp [C11_match_spec]

/-! ### non-vacuity -/

/-- A query that uses every kind of rule. -/
def exQuery : Query :=
  { workId := some "mail"
    state := some "scheduled"
    param := some [⟨"to", "alice@", .forward⟩, ⟨"to", ".org", .backward⟩, ⟨"body", "ell", .middle⟩,
                   ⟨"cc", "", .hasKey⟩, ⟨"cc", "bob", .other⟩]
    scheduledAt := some ⟨.beforeEqual, 7000999⟩       -- operand is truncated to 7000000
    createdAt := some ⟨.after, 999999⟩                -- truncated to 0
    deadline := some (some ⟨.equal, 9000500⟩)          -- truncated to 9000000
    cancelledAt := some none                           -- must be null
    doneAt := none }

def exMatching : Task :=
  { Task.blank "t1" 1000000 with
    workId := "mail"
    param := [("body", "hello"), ("cc", "bob"), ("to", "alice@example.org")]
    scheduledAt := 7000000
    deadline := some 9000000 }

example : exMatching.wellFormed = true := by decide
example : MatchesDoc exQuery exMatching := by decide
example : (exQuery.normalize true).matches exMatching = true := by decide

/-- Each single deviation is rejected (by the spec and hence by the code). -/
example : ¬ MatchesDoc exQuery { exMatching with scheduledAt := 7001000 } := by decide
example : ¬ MatchesDoc exQuery { exMatching with deadline := none } := by decide
example : ¬ MatchesDoc exQuery { exMatching with cancelledAt := some 8000000 } := by decide
example : ¬ MatchesDoc exQuery { exMatching with state := .dispatched } := by decide
example : ¬ MatchesDoc exQuery
    { exMatching with param := [("body", "hello"), ("to", "alice@example.org")] } := by decide
example : ¬ MatchesDoc exQuery
    { exMatching with param := [("body", "help"), ("cc", "bob"), ("to", "alice@example.org")] } := by
  decide

/-! ## 6. `Find` of the reference repository -/

theorem C11_find_spec (r : Repo) (now : Time) (q : Query) (off lim : Int) (h : 0 ≤ off) :
    (Repo.step {} r now (.find q off lim)).2 =
      .tasks (takeLim lim (((byCreated r.tasks).filter (fun t => decide (MatchesDoc q t))).drop off.toNat)) := by
  have hp : (fun t => decide (MatchesDoc q t)) = (q.normalize true).matches :=
    funext (C11_match_spec_bool q)
  rw [hp]
  show Out.tasks (findLoop (q.normalize true).matches (byCreated r.tasks) off lim) = _
  rw [C11_loop _ _ _ _ h]

/-- "oldest-created first": the list `Find` windows is the stored tasks sorted by creation time -
a permutation of the store, non-decreasing in `created_at`, tasks of one creation time in insertion
order; under a clock that never stepped back it is the insertion order itself. -/
theorem C11_oldest_first (ts : List Task) :
    (byCreated ts).Perm ts ∧ (byCreated ts).Pairwise (fun a b => a.createdAt ≤ b.createdAt) ∧
    (∀ c : Time, (byCreated ts).filter (fun x => x.createdAt == c) = ts.filter (fun x => x.createdAt == c)) ∧
    (ts.Pairwise (fun a b => a.createdAt ≤ b.createdAt) → byCreated ts = ts) :=
  ⟨byCreated_perm ts, byCreated_sorted ts, byCreated_stable ts, byCreated_of_sorted ts⟩

/-- Non-vacuity / the situation of defect D20: the clock stepped back between two additions; the task
added later but created earlier is listed first. -/
example :
    let a : Task := { Task.blank "a" 5000000 with workId := "w", scheduledAt := 9000000 }
    let b : Task := { Task.blank "b" 2000000 with workId := "w", scheduledAt := 9000000 }
    (byCreated [a, b]).map (·.id) = ["b", "a"] ∧
    ((Repo.step {} ⟨[a, b]⟩ 0 (.find {} 0 1)).2 = .tasks [b]) := by decide

/-- `Find` does not change the repository. -/
theorem C11_find_readonly (fl : Flags) (r : Repo) (now : Time) (q : Query) (off lim : Int) :
    (Repo.step fl r now (.find q off lim)).1 = r := rfl

/-! ## 7. D6: the pinned source does not normalise the `Deadline` operand -/

def d6Query : Query := { deadline := some (some ⟨.equal, 5000000 + 500⟩) }

def d6Task : Task :=
  { Task.blank "t" 1000000 with workId := "w", scheduledAt := 2000000, deadline := some 5000000 }

/-- A well-formed (in particular normalised) task whose deadline is the millisecond the query asks
for is missed by the pre-fix matcher and found by the fixed one. -/
theorem C11_D6_witness :
    d6Task.wellFormed = true ∧ d6Task.timesNormalized = true ∧
    (d6Query.normalize false).matches d6Task = false ∧
    (d6Query.normalize true).matches d6Task = true := by decide

end Gk
