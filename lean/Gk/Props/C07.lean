/-
C07 — the mutation-hook timer is never late and never idle (repaired code, `Hook.fixed = true`),
a stopped timer is silent, `GetNext` errors surface, and the witness of the defect in the pinned
decision logic (`Hook.fixed = false`, D2).

Definitions (`Obs.run`, `Obs.FreshHist`, `Obs.init`, `Inv`) and all helper lemmas are in
`Gk/Proofs/Hook.lean` and `Gk/Proofs/GetNext.lean`.
-/
import Gk.Hook
import Gk.Proofs.Hook
namespace Gk

/-! ### The invariant (exported facts) -/

theorem C07_inv_init (t0 : Time) : Inv (Obs.init t0) := Inv_init t0

theorem C07_inv_step (o : Obs) (op : Obs.OOp) (f : Option Err) :
    Inv o → o.FreshOp op → Inv (o.step op f).1 :=
  fun hI hf => Inv_step hI op f hf

theorem C07_inv_never_late (o : Obs) : Inv o → o.neverLate = true := Inv.neverLate

theorem C07_inv_stopped_silent (o : Obs) : Inv o → o.stoppedSilent = true := Inv.stoppedSilent

/-! ### 1. never late, never idle -/

/-- After EVERY history (adds, updates, cancels, dispatches, start/stop, time advances, fires, with
`GetNext` faults injected into any re-arm) the timer is armed no later than the head is due, or a
fire is pending — provided only that `add` is handed fresh ids.
No bound on `t0` or on the `advance` targets is needed. -/
theorem C07_never_late (t0 : Time) (ops : List (Obs.OOp × Option Err)) :
    Obs.FreshHist (Obs.init t0) ops → (Obs.run (Obs.init t0) ops).neverLate = true :=
  fun hf => (Inv_run (Inv_init t0) ops hf).neverLate

/-- The form asked for, with the (unneeded) bounds on the start time. -/
theorem C07_never_late' (t0 : Time) (ops : List (Obs.OOp × Option Err))
    (_h0 : msNs ≤ t0) (_h1 : t0 < farFuture) :
    Obs.FreshHist (Obs.init t0) ops → (Obs.run (Obs.init t0) ops).neverLate = true :=
  C07_never_late t0 ops

/-! ### 2. stopped is silent -/

theorem C07_stopped_silent (t0 : Time) (ops : List (Obs.OOp × Option Err)) :
    Obs.FreshHist (Obs.init t0) ops → (Obs.run (Obs.init t0) ops).stoppedSilent = true :=
  fun hf => (Inv_run (Inv_init t0) ops hf).stoppedSilent

/-- Spelled out: while the timer is not started nothing is armed and nothing is pending, hence the
scheduler's `fire` finds nothing to receive and changes nothing. -/
theorem C07_stopped_no_fire (o : Obs) (f : Option Err) (hI : Inv o) (hs : o.hook.started = false) :
    o.clock.armed = none ∧ o.clock.pending = false ∧ o.step .fire f = (o, .err .other) := by
  have ⟨_, _, a, b, _⟩ := hI.2.stopped hs
  exact ⟨a, b, by simp [Obs.step, Clock.consume, b]⟩

/-! ### 3. errors surface; `NextScheduled` is accurate -/

theorem C07_error_surfaces (o : Obs) (e : Err) :
    o.hook.started = true →
      (o.update (some e)).hook.lastErr = some e ∧ (o.update (some e)).hook.timerReset = false := by
  intro hs
  simp [Obs.update, hs]

/-- Lifted to steps: a step with the fault `some e` injected either surfaces it
(`lastErr = some e`, timer idle, cache empty — so the next hook re-arms) or never consulted
`GetNext` at all (the resulting state does not depend on the fault). -/
theorem C07_error_surfaces_step (o : Obs) (op : Obs.OOp) (e : Err) :
    ((o.step op (some e)).1.hook.lastErr = some e ∧
      (o.step op (some e)).1.hook.timerReset = false ∧
      (o.step op (some e)).1.hook.cached = none) ∨
    ∀ f, (o.step op f).1 = (o.step op (some e)).1 :=
  step_dich o op e

/-- After an error the very next mutation hook re-arms (nothing is cached). -/
theorem C07_error_then_rearm (o : Obs) (e : Err) (hI : Inv o) (he : o.hook.lastErr = some e) :
    o.hook.cached = none ∧ o.hook.timerReset = false :=
  hI.2.errd e he

theorem C07_next_scheduled (o : Obs) (hI : Inv o) (hs : o.hook.started = true)
    (he : o.hook.lastErr = none) (hst : o.hook.stale = false) :
    (∀ h, o.repo.getNext = some h → o.nextScheduled = (h.scheduledAt, true)) ∧
    (o.repo.getNext = none → o.nextScheduled = (0, false)) := by
  obtain ⟨_, hH⟩ := hI
  unfold Obs.nextScheduled
  cases hc : o.hook.cached with
  | none =>
    have ⟨a, b⟩ := hH.empty hs he hc
    constructor
    · intro h hn; rw [a] at hn; cases hn
    · intro _; simp [b]
  | some c0 =>
    have ⟨a, ⟨hd, b1, _, b2, _⟩, _⟩ := hH.live hs he c0 hc hst
    constructor
    · intro h hn
      rw [b1] at hn; cases hn
      simp [a, b2]
    · intro hn; rw [b1] at hn; cases hn

/-- Under the invariant a trusted cache names the head. -/
theorem C07_cache_accurate (o : Obs) (hI : Inv o) (hs : o.hook.started = true)
    (he : o.hook.lastErr = none) (hst : o.hook.stale = false) (c : Task)
    (hc : o.hook.cached = some c) :
    ∃ h, o.repo.getNext = some h ∧ h.id = c.id ∧ h.scheduledAt = c.scheduledAt ∧
      h.priority = c.priority :=
  (hI.2.live hs he c hc hst).2.1

/-- Virtual time never runs backwards. -/
theorem C07_clock_monotone (o : Obs) (ops : List (Obs.OOp × Option Err)) :
    o.clock.now ≤ (o.run ops).clock.now := run_now_mono o ops

/-! ### 4. the defect of the pinned decision logic (D2) -/

def C07.t0 : Time := 63808128000000000000
def C07.at5 : Time := C07.t0 + 5000000000

/-- start, add t1 (5 s, prio 1), update t1 (prio −1, same time), add t2 (5 s, prio 1),
advance to 5 s, fire. -/
def C07.origOps : List (Obs.OOp × Option Err) :=
  [ (.start, none),
    (.add "t1" { workId := some "w", scheduledAt := some C07.at5, priority := some 1 }, none),
    (.update "t1" { priority := some (-1), scheduledAt := some C07.at5 }, none),
    (.add "t2" { workId := some "w", scheduledAt := some C07.at5, priority := some 1 }, none),
    (.advance C07.at5, none),
    (.fire, none) ]

/-- The initial state with the ORIGINAL decision logic. -/
def C07.origInit : Obs := { Obs.init C07.t0 with hook := { fixed := false } }

/-- With the original logic the timer ends idle (nothing armed, nothing pending) although `t1` is
still scheduled and due. -/
theorem C07_orig_witness :
    (Obs.run C07.origInit C07.origOps).neverLate = false ∧
    (Obs.run C07.origInit C07.origOps).clock.armed = none ∧
    (Obs.run C07.origInit C07.origOps).clock.pending = false ∧
    (Obs.run C07.origInit C07.origOps).hook.started = true ∧
    (Obs.run C07.origInit C07.origOps).hook.lastErr = none ∧
    ((Obs.run C07.origInit C07.origOps).repo.getNext.map
        (fun t => (t.id, decide (t.scheduledAt ≤ (Obs.run C07.origInit C07.origOps).clock.now))))
      = some ("t1", true) := by
  decide

/-- The same history on the repaired logic is fine (instance of `C07_never_late`). -/
theorem C07_fixed_same_history : (Obs.run (Obs.init C07.t0) C07.origOps).neverLate = true := by
  decide

/-! ### 5. non-vacuity -/

/-- start, add t1, add t2 (with a `GetNext` fault injected into its re-arm), update t1 (priority only;
this re-arms and clears the error), advance by 1 s, cancel t2. -/
def C07.liveOps : List (Obs.OOp × Option Err) :=
  [ (.start, none),
    (.add "t1" { workId := some "w", scheduledAt := some C07.at5, priority := some 1 }, none),
    (.add "t2" { workId := some "w", scheduledAt := some (C07.at5 + 1000000000) }, some .other),
    (.update "t1" { priority := some (-1) }, none),
    (.advance (C07.t0 + 1000000000), none),
    (.cancel "t2", none) ]

/-- A concrete 6-op history satisfies `FreshHist` (and the bounds on `t0`) and reaches a state with a
scheduled task, a started timer and an armed deadline: the hypotheses of the theorems above are
satisfiable and the conclusion `neverLate` is not trivially true there. -/
example :
    Obs.FreshHist (Obs.init C07.t0) C07.liveOps ∧
    msNs ≤ C07.t0 ∧ C07.t0 < farFuture ∧
    (Obs.run (Obs.init C07.t0) C07.liveOps).hook.started = true ∧
    (Obs.run (Obs.init C07.t0) C07.liveOps).hook.lastErr = none ∧
    (Obs.run (Obs.init C07.t0) C07.liveOps).clock.armed = some C07.at5 ∧
    (Obs.run (Obs.init C07.t0) C07.liveOps).clock.pending = false ∧
    ((Obs.run (Obs.init C07.t0) C07.liveOps).repo.getNext.map (·.id)) = some "t1" := by
  decide

/-! ### 6. outside the property's quantifier: a core-level error AFTER effect on a USER mutation -/

/-- What `repository.Repository.AddTask` does when the CORE repository stores the task and then reports an error:
the wrapper returns the error and does not call its timer hook (`if err != nil { return err }`). C07 quantifies over
mutations that complete and over `GetNext` faults during re-arming, not over this; the scheduler-side instance of the
same wrapper behaviour was defect D21 (repaired in the scheduler, DESIGN 15.5). -/
def C07.coreOnlyAdd (o : Obs) (id : String) (p : Param) : Obs :=
  { o with repo := (Repo.step {} o.repo o.clock.now (.add id p)).1 }

/-- Machine-checked statement of that limit: timer started on an empty repository; an `AddTask` whose core call
takes effect but is reported as failed leaves a scheduled task with the timer neither armed nor pending and no
timer error recorded — `neverLate` is false there, and stays false until another mutation or a restart. -/
theorem C07_core_after_effect_user_witness :
    let o := C07.coreOnlyAdd (Obs.run (Obs.init C07.t0) [(.start, none)]) "t1"
      { workId := some "w", scheduledAt := some C07.at5 }
    o.neverLate = false ∧ o.clock.armed = none ∧ o.clock.pending = false ∧
    o.hook.started = true ∧ o.hook.lastErr = none ∧ (o.repo.getNext.map (·.id)) = some "t1" ∧
    -- any later mutation through the wrapper heals it
    ((o.step (.add "t2" { workId := some "w", scheduledAt := some (C07.at5 + 1000000000) }) none).1.neverLate = true) := by
  decide

end Gk
