/-
C05 — "the scheduler never ends up waiting on an idle timer while a due task exists" (repaired code,
all `Fix` switches on, `Hook.fixed = true`), the witness of the defect of the pinned source (D12), and
what a `Step` over an un-retried `DispatchErr` does now that `dispatchTask` sets the restart request
when it gives up (D21 repaired): the former witness `C05_step_over_dispatchErr_witness` ("the task is
stranded") is no longer true and is replaced by `C05_step_over_dispatchErr_now`.

Setting, helper lemmas and the invariant `Live.LiveInv` are in `Gk/Proofs/WorldLive.lean`.

Shape of the invariant: `LiveInv w` says `w.fix = {}`, a control-flow fact about `lastTask` /
`getNextErr`, and

    Inv w.obs   ∨   (nothing armed ∧ nothing pending ∧ Inv (w.obs with the fire put back) ∧ Owes w)

where `Inv` is the hook-timer invariant of C07 and `Owes w` is a predicate on
`(pc, lastTask, getNextErr, ret)`: the scheduler has consumed the fire and is at `s_getNext`, or holds
a task `t` (`s_nextSched t`, `d_wait t false`, `d_mark t _`, `r_getById t`, `lastTask = some t`,
`ret = DispatchErr t e` with `e` not a repository verdict) that is still scheduled and is the cached
head whenever the cache is trusted (so marking it re-arms), or `getNextErr` is set (with a state that
`Retry` does not hand back to `dispatchTask`), or the timer is being restarted.

WORLDCORE (the action `SAct.markDispatchedCore`: `MarkAsDispatched` takes effect in the core repository below
the wrapper and is reported as failed, the wrapper's timer hook is NOT called — D21's trigger). After such a
step the hook's cache / the armed deadline no longer answer to the repository, so neither alternative above
holds. `LiveInv.hook` has a third alternative

    Obs.Loose w.obs ∧ Restart w

`Obs.Loose`: what survives a write the hook was not told about and is preserved by every later hook call run
against the stale cache — the repository part of `Inv`, the clock discipline, "stopped is silent", and "an armed
deadline is not later than any scheduled task (nor than the trusted cached task)"; the timer may be SILENT
while a task is scheduled. `Restart w`: `getNextErr` is set and `pc` is one of `idle, s_stop, r_stop,
r_getById, d_wait, d_mark, d_get` — the control states from which the next thing that happens to the timer is
`StopTimer(); StartTimer()` (which turns `Loose` back into `Inv`); every `DispatchErr` exit sets the request.
`Owes w` (the predicate of `C05_never_late_or_owed`) is now `OwesHeld w ∨ Restart w`, `OwesHeld` being the
former `Owes`. All registered statements of this file are unchanged and hold for scripts with the new action.
-/
import Gk.World
import Gk.Proofs.WorldLive
namespace Gk
open Live

/-! ### 1. the invariant is inductive -/

theorem C05_liveInv_init (t0 : Time) : LiveInv (World.init' t0) := LiveInv.init t0

/-- PARTIAL with respect to "every script": besides `UserOk` (users add fresh ids / update / cancel)
the step needs `DriverOk`: the driver does not call `Step` while the previous call returned a
`DispatchErr` whose error is not a repository verdict (`def.IsDefError`) — it calls `Retry`.
Everything else is arbitrary: user mutations at every call boundary, advances, completions, faults
before/after effect on every scheduler call, hook `GetNext` faults, context cancellation, busy
workers, `Step`/`Retry` in any order, calls that are not enabled (`stuck`).
WORLDFIX (D21): on the code where `dispatchTask` sets `getNextErr` when it gives up, `DriverOk` is no longer
needed (`C05_liveInv_step` below); the statement is kept as it was. The witness that used to show that
`DriverOk` cannot be dropped (`C05_step_over_dispatchErr_witness`) is false now, see §4. -/
theorem C05_liveInv_step_partial (w : World) (a : Act) :
    LiveInv w → World.UserOk w a → World.DriverOk w a → LiveInv (w.step a) :=
  fun h hu hd => h.step a hu hd

theorem C05_liveInv_run_partial (t0 : Time) (acts : List Act) :
    World.Script (World.init' t0) acts → LiveInv ((World.init' t0).run acts) :=
  fun hs => (LiveInv.init t0).run acts hs

/-- NEW with D21 repaired — FULL: the invariant is preserved by every action of every driver (no `DriverOk`):
a `Step` issued over an un-retried `DispatchErr` finds the restart request set and restarts the timer. -/
theorem C05_liveInv_step (w : World) (a : Act) :
    LiveInv w → World.UserOk w a → LiveInv (w.step a) :=
  fun h hu => h.step_free a hu

theorem C05_liveInv_run (t0 : Time) (acts : List Act) :
    World.UserScript (World.init' t0) acts → LiveInv ((World.init' t0).run acts) :=
  fun hs => (LiveInv.init t0).run_free acts hs

/-- between two calls a `DispatchErr` state always comes with the restart request -/
theorem C05_dispatchErr_sets_restart (w : World) (t : Task) (e : Err) :
    LiveInv w → w.pc = .idle → w.ret = .dispatchErr t e → w.getNextErr = true :=
  fun h hpc hr => h.dispatchErr_restart hpc hr

/-! ### 2. no idle timer -/

/-- The main statement: under the invariant, between two calls (`pc = idle`) a due scheduled task
implies that the driver's next `Step`/`Retry` makes progress. (Only "a scheduled task exists" is
used.) -/
theorem C05_no_idle_timer (w : World) :
    LiveInv w → w.pc = .idle →
    (∃ t ∈ w.obs.repo.tasks, t.state = .scheduled ∧ t.scheduledAt ≤ w.obs.clock.now) →
    World.WakeUp w := by
  intro h hpc ⟨t, ht, hs, _⟩
  unfold World.WakeUp
  rcases h.hook with hI | ⟨_, _, ho⟩ | ⟨_, hR⟩
  · cases hst : w.obs.hook.started with
    | false => simp
    | true =>
      cases he : w.obs.hook.lastErr with
      | some e => simp
      | none =>
        have hnl := hI.neverLate
        obtain ⟨hd, hn⟩ := Repo.getNext_isSome_of_scheduled ht hs
        unfold Obs.neverLate at hnl
        simp only [hst, he, Option.isNone_none, Bool.and_self, ↓reduceIte, hn, Bool.or_eq_true] at hnl
        rcases hnl with hp | ha
        · exact Or.inl hp
        · cases har : w.obs.clock.armed with
          | none => simp [har] at ha
          | some d => exact Or.inr (Or.inl ⟨d, rfl⟩)
  · have ho' : Sticky w ∨ DErr w := by simpa [OwesHeld, hpc] using ho
    rcases ho' with (⟨t, h1, _⟩ | hg) | ⟨t, e, h1, _, _⟩
    · simp [h1]
    · simp [hg]
    · right; right; right; right; right; right; left; exact ⟨t, e, h1⟩
  · -- D21: the hook is out of sync with the repository, the restart request is set
    simp [hR.1]

/-- End-to-end form over scripts (PARTIAL: `Script` contains `DriverOk`, see above). -/
theorem C05_no_idle_timer_run_partial (t0 : Time) (acts : List Act) :
    World.Script (World.init' t0) acts →
    ((World.init' t0).run acts).pc = .idle →
    (∃ t ∈ ((World.init' t0).run acts).obs.repo.tasks,
      t.state = .scheduled ∧ t.scheduledAt ≤ ((World.init' t0).run acts).obs.clock.now) →
    World.WakeUp ((World.init' t0).run acts) :=
  fun hs => C05_no_idle_timer _ (C05_liveInv_run_partial t0 acts hs)

/-- Stronger, at every pc: with the timer started and no timer error, either a fire is pending, or
the timer is armed NO LATER than the head task is due, or nothing is armed/pending and the scheduler
owes the wake-up (`Owes`). -/
theorem C05_never_late_or_owed (w : World) (hd : Task) :
    LiveInv w → w.obs.hook.started = true → w.obs.hook.lastErr = none →
    w.obs.repo.getNext = some hd →
    w.obs.clock.pending = true ∨ (∃ d, w.obs.clock.armed = some d ∧ d ≤ hd.scheduledAt) ∨
      (w.obs.clock.armed = none ∧ w.obs.clock.pending = false ∧ Owes w) := by
  intro h hst he hn
  rcases h.hook with hI | ⟨hdd, _, ho⟩ | ⟨hl, hR⟩
  · have hnl := hI.neverLate
    unfold Obs.neverLate at hnl
    simp only [hst, he, Option.isNone_none, Bool.and_self, ↓reduceIte, hn, Bool.or_eq_true] at hnl
    rcases hnl with hp | ha
    · exact Or.inl hp
    · cases har : w.obs.clock.armed with
      | none => simp [har] at ha
      | some d =>
        simp only [har, decide_eq_true_eq] at ha
        exact Or.inr (Or.inl ⟨d, rfl, ha⟩)
  · exact Or.inr (Or.inr ⟨hdd.1, hdd.2, Or.inl ho⟩)
  · -- D21: the hook is out of sync with the repository (`Obs.Loose`): an armed deadline is still not later than
    -- any scheduled task; a silent timer is covered by the pending restart
    cases har : w.obs.clock.armed with
    | some d =>
      exact Or.inr (Or.inl ⟨d, rfl, (hl.early he d har).1 hd (Repo.getNext_mem hn) (Repo.getNext_scheduled hn)⟩)
    | none =>
      cases hp : w.obs.clock.pending with
      | true => exact Or.inl rfl
      | false => exact Or.inr (Or.inr ⟨rfl, rfl, Or.inr hR⟩)

/-- The timer is never set later than the next task. -/
theorem C05_armed_not_late (w : World) (hd : Task) (d : Time) :
    LiveInv w → w.obs.hook.started = true → w.obs.hook.lastErr = none →
    w.obs.repo.getNext = some hd → w.obs.clock.armed = some d → d ≤ hd.scheduledAt := by
  intro h hst he hn ha
  have hclk : w.obs.clock.pending = false := by
    rcases h.hook with hI | ⟨hdd, _, _⟩ | ⟨hl, _⟩
    · exact hI.2.clk (by simp [ha])
    · exact hdd.2
    · exact hl.clk (by simp [ha])
  rcases C05_never_late_or_owed w hd h hst he hn with hp | ⟨d', h1, h2⟩ | ⟨h1, _, _⟩
  · rw [hclk] at hp; cases hp
  · rw [ha] at h1; cases h1; exact h2
  · rw [ha] at h1; cases h1

/-- What `Owes` means between two calls. WORLDCORE: `Owes` now has the alternative "a restart of the timer is
pending" (`Restart`, D21), which between two calls is just `getNextErr`. -/
theorem C05_owes_idle (w : World) (hpc : w.pc = .idle) :
    Owes w ↔ (((∃ t, w.lastTask = some t ∧ w.obs.Held t) ∨ (w.getNextErr = true ∧ quietRet w.ret = true)) ∨
      (∃ t e, w.ret = .dispatchErr t e ∧ World.isDefError e = false ∧ w.obs.Held t)) ∨
      w.getNextErr = true := by
  simp [Owes, OwesHeld, Restart, restartPc, hpc, Sticky, LastDebt, DErr]

/-! ### 3. concrete scripts -/

def C05.t0 : Time := 63808128000000000000
def C05.sec (n : Int) : Time := C05.t0 + n * 1000000000

/-- one fault-free `Step` through the timer branch -/
def C05.stepTimer : List Act :=
  [.sched .beginStep, .sched .lastTimerErr, .sched .selTimer, .sched (.getNext .none),
   .sched .nextScheduled]

/-- add t1 (5 s), advance to 5 s, Step (timer branch: announces t1). -/
def C05.announce : List Act :=
  [.user (.add "t1" { workId := some "w", scheduledAt := some (C05.sec 5) }) none,
   .advance (C05.sec 5)] ++ C05.stepTimer

/-- Non-vacuity of `C05_no_idle_timer` / `C05_no_idle_timer_run_partial`: a script that satisfies
`Script`, ends between two calls with a due scheduled task, with NOTHING armed and NOTHING pending
(the fire is consumed): the wake-up is the announced task. -/
example :
    World.Script (World.init' C05.t0) C05.announce ∧
    ((World.init' C05.t0).run C05.announce).pc = .idle ∧
    ((World.init' C05.t0).run C05.announce).obs.clock.pending = false ∧
    ((World.init' C05.t0).run C05.announce).obs.clock.armed = none ∧
    ((World.init' C05.t0).run C05.announce).obs.hook.started = true ∧
    ((World.init' C05.t0).run C05.announce).obs.hook.lastErr = none ∧
    ((World.init' C05.t0).run C05.announce).lastTask.map (·.id) = some "t1" ∧
    (((World.init' C05.t0).run C05.announce).obs.repo.tasks.map
      (fun t => (t.id, t.state, decide (t.scheduledAt ≤ ((World.init' C05.t0).run C05.announce).obs.clock.now))))
      = [("t1", .scheduled, true)] := by
  decide

/-- Non-vacuity of `C05_armed_not_late`: add t1 (5 s) at time 0: armed exactly at 5 s. -/
example :
    World.Script (World.init' C05.t0) (C05.announce.take 1) ∧
    ((World.init' C05.t0).run (C05.announce.take 1)).obs.clock.armed = some (C05.sec 5) ∧
    ((World.init' C05.t0).run (C05.announce.take 1)).obs.hook.started = true ∧
    ((World.init' C05.t0).run (C05.announce.take 1)).obs.hook.lastErr = none ∧
    ((World.init' C05.t0).run (C05.announce.take 1)).obs.repo.getNext.map (·.id) = some "t1" := by
  decide

/-! ### 4. a `Step` over an un-retried `DispatchErr` (D21)

Before the repair of D21 this section held the witness `C05_step_over_dispatchErr_witness`: "a `Step` issued
after an un-retried `DispatchErr(ctx)` strands the due task (no wake-up)". With `dispatchTask` setting
`getNextErr` when it gives up this is FALSE: the next `Step` restarts the timer in its prologue, the restarted
timer fires at once (t1 is due) and the task is announced again. The witness is replaced by the true statement
about the same situation. -/

/-- announce t1; Step: no worker is acquired before the context is cancelled → `DispatchErr t1 ctx`;
then the driver calls `Step` again (instead of `Retry`) — the call sequence of the code BEFORE the repair of D21
(`LastTimerUpdateError`, then `select`, where the context ends the wait). -/
def C05.dropDispatchErr : List Act :=
  C05.announce ++
  [.sched .beginStep, .sched .lastTimerErr, .sched (.waitWorker false),
   .sched .beginStep, .sched .lastTimerErr, .sched .selCtx]

/-- the same situation, the call sequence of the repaired code: the second `Step` finds `getNextErr` set,
stops and starts the timer, finds no timer error, and in `select` the timer branch is ready (t1 is due) -/
def C05.dropDispatchErrNow : List Act :=
  C05.announce ++
  [.sched .beginStep, .sched .lastTimerErr, .sched (.waitWorker false),
   .sched .beginStep, .sched .stopTimer, .sched (.startTimer none), .sched .lastTimerErr,
   .sched .selTimer, .sched (.getNext .none), .sched .nextScheduled]

-- WORLDFIX: `C05_step_over_dispatchErr_witness` is no longer true (D21 repaired) — its script is not even a run
-- of the code any more (first conjunct of `C05_step_over_dispatchErr_now`); kept for the record:
-- theorem C05_step_over_dispatchErr_witness :
--     let w := (World.init' C05.t0).run C05.dropDispatchErr
--     World.UserScript (World.init' C05.t0) C05.dropDispatchErr ∧
--     ¬ World.Script (World.init' C05.t0) C05.dropDispatchErr ∧
--     w.pc = .idle ∧ w.stuck = false ∧
--     (w.obs.repo.tasks.map (fun t => (t.id, t.state, decide (t.scheduledAt ≤ w.obs.clock.now))))
--       = [("t1", .scheduled, true)] ∧
--     ¬ World.WakeUp w

/-- What happens NOW when the driver calls `Step` (instead of `Retry`) after `DispatchErr(t1, ctx)`:
* the old call sequence is not a run of the code: after `beginStep` the automaton is at `s_stop` (restart
  prologue) with `getNextErr` set, the old next call (`LastTimerUpdateError`) is not enabled (`stuck`);
* the actual run (`C05.dropDispatchErrNow`; all user actions `UserOk`, `DriverOk` still violated at the third
  `beginStep`, never stuck) restarts the timer and ends between two calls with t1 ANNOUNCED AGAIN
  (`NextTask t1`, `lastTask = t1`, restart request cleared): `WakeUp` holds, nothing is stranded;
* one more `Step` starts the work function of t1. -/
theorem C05_step_over_dispatchErr_now :
    let w := (World.init' C05.t0).run C05.dropDispatchErrNow
    ((World.init' C05.t0).run (C05.dropDispatchErr.take 11)).pc = .s_stop ∧
    ((World.init' C05.t0).run (C05.dropDispatchErr.take 11)).getNextErr = true ∧
    ((World.init' C05.t0).run (C05.dropDispatchErr.take 11)).stuck = false ∧
    ((World.init' C05.t0).run C05.dropDispatchErr).stuck = true ∧
    World.UserScript (World.init' C05.t0) C05.dropDispatchErrNow ∧
    ¬ World.Script (World.init' C05.t0) C05.dropDispatchErrNow ∧
    w.pc = .idle ∧ w.stuck = false ∧
    (w.obs.repo.tasks.map (fun t => (t.id, t.state, decide (t.scheduledAt ≤ w.obs.clock.now))))
      = [("t1", .scheduled, true)] ∧
    (match w.ret with | .nextTask (some t) none => t.id == "t1" | _ => false) = true ∧
    w.lastTask.map (·.id) = some "t1" ∧ w.getNextErr = false ∧
    World.WakeUp w ∧
    (let w' := w.run [.sched .beginStep, .sched .lastTimerErr, .sched (.waitWorker true),
        .sched (.markDispatched .none none), .sched (.getById .none)]
     w'.pc = .idle ∧ w'.stuck = false ∧ w'.ret = .dispatched "t1" ∧ w'.log.map (·.id) = ["t1"]) := by
  refine ⟨by decide, by decide, by decide, by decide, by decide, by decide, by decide, by decide, by decide,
    by decide, by decide, by decide, ?_, by decide⟩
  right; right; left
  decide

/-- The same situation with the driver keeping its part (`Retry`): the task is run. -/
example :
    let acts := C05.announce ++
      [.sched .beginStep, .sched .lastTimerErr, .sched (.waitWorker false),
       .sched .beginRetry, .sched (.getById .none), .sched (.waitWorker true),
       .sched (.markDispatched .none none), .sched (.getById .none)]
    World.Script (World.init' C05.t0) acts ∧
    ((World.init' C05.t0).run acts).pc = .idle ∧
    ((World.init' C05.t0).run acts).log.map (·.id) = ["t1"] ∧
    ((World.init' C05.t0).run acts).ret = .dispatched "t1" := by
  decide

/-! ### 5. the defect of the pinned source (D12) -/

/-- add t2 (5 s, prio 1); update t2 (prio 0, 15 s) — the hook marks its cache stale, the timer stays
armed at 5 s; advance to 5 s; Step: the timer branch reads t2 at 15 s, the cached time is 5 s →
`ErrScheduleStoppedOrChanged`; advance to 15 s. -/
def C05.d12 : List Act :=
  [.user (.add "t2" { workId := some "w", scheduledAt := some (C05.sec 5), priority := some 1 }) none,
   .user (.update "t2" { priority := some 0, scheduledAt := some (C05.sec 15) }) none,
   .advance (C05.sec 5)] ++ C05.stepTimer ++ [.advance (C05.sec 15)]

/-- the pinned source: `ErrScheduleStoppedOrChanged` does not remember to restart the timer -/
def C05.origInit : World := { World.init' C05.t0 with fix := { restartOnChanged := false } }

/-- With `restartOnChanged = false` the scheduler ends between two calls with t2 scheduled and due,
nothing pending, nothing armed, no restart flag, no announced task, a non-retryable state:
`WakeUp` is false — `Step` blocks forever (D12). -/
theorem C05_D12_witness :
    let w := C05.origInit.run C05.d12
    World.Script C05.origInit C05.d12 ∧
    w.pc = .idle ∧ w.stuck = false ∧
    w.ret = .nextTask none (some .schedChanged) ∧
    (w.obs.repo.tasks.map (fun t => (t.id, t.state, decide (t.scheduledAt ≤ w.obs.clock.now))))
      = [("t2", .scheduled, true)] ∧
    ¬ World.WakeUp w := by
  have hw : let w := C05.origInit.run C05.d12
      World.Script C05.origInit C05.d12 ∧
      w.pc = .idle ∧ w.stuck = false ∧
      w.ret = .nextTask none (some .schedChanged) ∧
      (w.obs.repo.tasks.map (fun t => (t.id, t.state, decide (t.scheduledAt ≤ w.obs.clock.now))))
        = [("t2", .scheduled, true)] ∧
      w.obs.clock.pending = false ∧ w.obs.clock.armed = none ∧ w.lastTask = none ∧
      w.getNextErr = false ∧ w.obs.hook.lastErr = none ∧ w.obs.hook.started = true := by decide
  obtain ⟨h0, h1, h2, h3, h4, h5, h6, h7, h8, h9, h10⟩ := hw
  refine ⟨h0, h1, h2, h3, h4, ?_⟩
  simp [World.WakeUp, h3, h5, h6, h7, h8, h9, h10]

/-- The same script on the repaired code: `getNextErr` is set, the next `Step` restarts the timer
(instance of `C05_no_idle_timer_run_partial`). -/
theorem C05_D12_fixed :
    let w := (World.init' C05.t0).run C05.d12
    World.Script (World.init' C05.t0) C05.d12 ∧ w.pc = .idle ∧ w.getNextErr = true ∧
      World.WakeUp w := by
  have hw : let w := (World.init' C05.t0).run C05.d12
      World.Script (World.init' C05.t0) C05.d12 ∧ w.pc = .idle ∧ w.getNextErr = true := by decide
  obtain ⟨h0, h1, h2⟩ := hw
  exact ⟨h0, h1, h2, Or.inr (Or.inr (Or.inr (Or.inl h2)))⟩

/-! ### 6. progress of the fair fault-free driver (PARTIAL)

`Live.driveRound w` is ONE call of the fair fault-free driver on a world between two calls:
`Retry` if the last returned state is retryable (`Live.retryable`), else `Step`; every scheduler call
succeeds without fault, a worker is always free, the context is never cancelled, no user mutation
interferes; inside `select` the timer branch is taken if a fire is pending, else the oldest queued
completion, else — nothing being ready — the environment first completes the oldest running work
function, else advances the clock to the armed deadline; only if nothing at all can happen the call
ends with `AwaitingNext` (`Live.autoAct`, `Live.drive`).

Proved: every round returns (`C05_round_ends`), keeps all invariants (`C05_round_invariants`),
NEVER ends blocked while a task is scheduled (`C05_round_never_blocks`), and the three rounds that
carry a due head to its work function do exactly that (`C05_round_restart_announce`,
`C05_round_announce`, `C05_round_dispatch`, combined in `C05_progress_partial`).
MISSING for the measure-based theorem "at most `μ w` rounds until nothing due is scheduled": the
global induction. It needs (a) the same symbolic evaluation for the remaining round types (result /
completion / advance rounds, the three `Retry` rounds, refused dispatch), which are routine, and
(b) one more invariant, "the cache is fresh" (`stale = false ∧ (pending → cached time ≤ now)`),
established by every re-arm and kept by fault-free rounds, to show that the announce round cannot
fail (`ErrScheduleStoppedOrChanged`) twice in a row; with it the measure
`10^4·#scheduled + 4·10^3·[retryable DispatchErr] + 3·10^3·#running + 10^3·#completed + phase`
(phase < 10^3 ordering: stale announced task > unfresh cache > restart pending > waiting for the fire
> fire pending > announced) decreases in every round while a task is scheduled. -/

theorem C05_round_ends (w : World) : (driveRound w).pc = .idle := driveRound_idle w

theorem C05_round_invariants (w : World) :
    LiveInv w → StartedOk w → DispInv w → w.pc = .idle →
    LiveInv (driveRound w) ∧ StartedOk (driveRound w) ∧ DispInv (driveRound w) := by
  intro hL hS hD hpc
  have hR : RoundInv w := ⟨hL, hS, fun h => by rw [hpc] at h; cases h⟩
  exact ⟨(hR.drive 12).1, (hR.drive 12).2.1, hD.drive hL 12⟩

/-- The invariants hold after every script from `init'`. -/
theorem C05_round_invariants_init (t0 : Time) (acts : List Act) :
    World.Script (World.init' t0) acts →
    LiveInv ((World.init' t0).run acts) ∧ StartedOk ((World.init' t0).run acts) ∧
      DispInv ((World.init' t0).run acts) :=
  fun hs => ⟨(LiveInv.init t0).run acts hs, (StartedOk.init t0).run acts hs,
    (DispInv.init t0).run (LiveInv.init t0) acts hs⟩

/-- Liveness core: the fair fault-free driver never blocks while a task is scheduled — a round that
returns `AwaitingNext` (the only blocking exit of `Step`) leaves NO scheduled task behind, due or
not. -/
theorem C05_round_never_blocks (w : World) :
    LiveInv w → StartedOk w → w.pc = .idle → (driveRound w).ret = .awaitingNext →
    ∀ t ∈ (driveRound w).obs.repo.tasks, t.state ≠ .scheduled :=
  fun hL hS hpc hr => round_never_blocks hL hS hpc hr

/-- Blocked inside `select` with a healthy timer and a scheduled task: the timer is pending or armed
(state form of the previous theorem). -/
theorem C05_select_not_idle (w : World) (hd : Task) :
    LiveInv w → w.pc = .s_select → w.obs.hook.started = true → w.obs.hook.lastErr = none →
    w.obs.repo.getNext = some hd →
    w.obs.clock.pending = true ∨ ∃ d, w.obs.clock.armed = some d ∧ d ≤ hd.scheduledAt := by
  intro h hpc hst he hn
  rcases C05_never_late_or_owed w hd h hst he hn with h1 | h1 | ⟨_, _, ho⟩
  · exact Or.inl h1
  · exact Or.inr h1
  · simp [Owes, OwesHeld, Restart, restartPc, hpc] at ho

/-- OBSERVATION (why `lastErr = none` is a hypothesis above, and why liveness of a blocked `Step`
rests on its context): `Step` is blocked in `select`; a user `AddTask` whose hook fails in `GetNext`
records the error and leaves the timer unarmed; the task becomes due, yet nothing is pending or
armed — the blocked `Step` is not woken by the error. It returns only when its context ends
(`AwaitingNext`); between the calls `WakeUp` then holds through `LastTimerUpdateError` and the next
`Step` restarts the timer. The script satisfies `Script`, so `LiveInv` holds throughout. -/
theorem C05_select_hook_fault_witness :
    let acts : List Act :=
      [.sched .beginStep, .sched .lastTimerErr,
       .user (.add "t1" { workId := some "w", scheduledAt := some (C05.sec 5) }) (some .other),
       .advance (C05.sec 5)]
    let w := (World.init' C05.t0).run acts
    World.Script (World.init' C05.t0) acts ∧ w.pc = .s_select ∧
    w.obs.clock.pending = false ∧ w.obs.clock.armed = none ∧ w.obs.hook.lastErr = some .other ∧
    (w.obs.repo.tasks.map (fun t => (t.id, t.state, decide (t.scheduledAt ≤ w.obs.clock.now))))
      = [("t1", .scheduled, true)] ∧
    World.WakeUp (w.step (.sched .selCtx)) := by
  refine ⟨by decide, by decide, by decide, by decide, by decide, by decide, ?_⟩
  right; right; right; right; left
  decide

theorem C05_round_announce (w : World) (hd : Task) :
    Inv w.obs → w.pc = .idle → retryable w.ret = false → w.getNextErr = false →
    w.obs.hook.started = true → w.obs.hook.lastErr = none → w.lastTask = none →
    w.obs.clock.pending = true → w.obs.hook.stale = false → w.obs.repo.getNext = some hd →
    hd.scheduledAt ≤ w.obs.clock.now →
    driveRound w = afterAnnounce w hd :=
  fun hI hpc hq hg hst he hl hp hs hn hdue => round_announce hI hpc hq hg hst he hl hp hs hn hdue

theorem C05_round_restart_announce (w : World) (hd : Task) :
    w.pc = .idle → retryable w.ret = false → w.getNextErr = true → w.lastTask = none →
    w.obs.repo.getNext = some hd → hd.scheduledAt ≤ w.obs.clock.now →
    driveRound w = afterAnnounce { w with obs := restartedDue w.obs hd } hd :=
  fun hpc hq hg hl hn hdue => round_restart_announce hpc hq hg hl hn hdue

theorem C05_round_dispatch (w : World) (t u : Task) :
    w.pc = .idle → retryable w.ret = false → w.getNextErr = false → w.obs.hook.lastErr = none →
    w.lastTask = some t → w.obs.repo.lookup t.id = some u → u.state = .scheduled →
    driveRound w = afterDispatch w t
      { u with state := .dispatched, dispatchedAt := some (normalize w.obs.clock.now) } :=
  fun hpc hq hg he hl hu hs => round_dispatch hpc hq hg he hl hu hs

/-- PARTIAL progress: between two calls, with a healthy timer, nothing announced, a non-retryable
last state and a DUE head `hd`, if the restart flag is set, or a fire is pending and the cache is
trusted, then TWO rounds of the fair fault-free driver start the work function of `hd`: the log grows
by exactly the entry of `hd` (handed over in state `dispatched`, at the current time), `hd` is stored
as dispatched, the driver holds `Dispatched hd.id`, and nothing is left announced. -/
theorem C05_progress_partial (w : World) (hd : Task) :
    LiveInv w → w.pc = .idle → retryable w.ret = false → w.lastTask = none →
    w.obs.hook.started = true → w.obs.hook.lastErr = none →
    w.obs.repo.getNext = some hd → hd.scheduledAt ≤ w.obs.clock.now →
    (w.getNextErr = true ∨
      (w.getNextErr = false ∧ w.obs.clock.pending = true ∧ w.obs.hook.stale = false)) →
    let cur : Task := { hd with state := .dispatched, dispatchedAt := some (normalize w.obs.clock.now) }
    let w2 := rounds 2 w
    w2.pc = .idle ∧ w2.ret = .dispatched hd.id ∧ w2.lastTask = none ∧ w2.getNextErr = false ∧
    w2.log = w.log ++ [{ id := hd.id, at_ := w.obs.clock.now, task := cur }] ∧
    w2.running = w.running ++ [(hd.id, cur)] ∧
    w2.obs.repo.lookup hd.id = some cur := by
  intro hL hpc hq hl hst he hn hdue hc cur w2
  obtain ⟨w1, h1, _, hrepo, hnow, hlog, hrun, h2⟩ := two_rounds_run_head hL hpc hq hl hst he hn hdue hc
  have hw2 : w2 = afterDispatch w1 hd cur := by
    show rounds 2 w = _
    simp only [rounds, h1, h2, cur]
  have hlk : w1.obs.repo.lookup hd.id = some hd := by
    rw [hrepo]; exact head_lookup hL.tasksOk hn
  have hd2 := (dispatch_step_scheduled w1.obs hd.id none hlk (Repo.getNext_scheduled hn)).2
  rw [hw2]
  refine ⟨rfl, rfl, rfl, rfl, ?_, ?_, ?_⟩
  · simp only [afterDispatch, hlog, hnow]
  · simp only [afterDispatch, hrun]
  · simp only [afterDispatch, hd2, hnow, cur]

/-- Non-vacuity of `C05_progress_partial` (fire pending, trusted cache) and a run of the fair driver
to quiescence: add t1 (5 s) and t2 (7 s), advance to 5 s; two rounds start t1; after 6 rounds both work
functions ran, both results are recorded, nothing is scheduled, running or queued, and the seventh
round blocks (`AwaitingNext`) — legitimately, by `C05_round_never_blocks`. -/
example :
    let acts : List Act :=
      [.user (.add "t1" { workId := some "w", scheduledAt := some (C05.sec 5) }) none,
       .user (.add "t2" { workId := some "w", scheduledAt := some (C05.sec 7) }) none,
       .advance (C05.sec 5)]
    let w := (World.init' C05.t0).run acts
    World.Script (World.init' C05.t0) acts ∧
    w.pc = .idle ∧ retryable w.ret = false ∧ w.lastTask = none ∧ w.obs.hook.started = true ∧
    w.obs.hook.lastErr = none ∧ w.obs.repo.getNext.map (·.id) = some "t1" ∧
    w.getNextErr = false ∧ w.obs.clock.pending = true ∧ w.obs.hook.stale = false ∧
    (rounds 2 w).log.map (·.id) = ["t1"] ∧
    (rounds 6 w).log.map (fun e => (e.id, decide (e.task.scheduledAt ≤ e.at_))) =
      [("t1", true), ("t2", true)] ∧
    (rounds 6 w).obs.repo.tasks.map (fun t => (t.id, t.state)) = [("t1", .done), ("t2", .done)] ∧
    (rounds 6 w).running = [] ∧ (rounds 6 w).completed = [] ∧
    (rounds 6 w).ret ≠ .awaitingNext ∧ (rounds 7 w).ret = .awaitingNext := by
  decide

/-- Non-vacuity of the restart case: the D12 script on the repaired code ends with `getNextErr` set
and t2 due; two rounds start t2. -/
example :
    let w := (World.init' C05.t0).run C05.d12
    w.pc = .idle ∧ retryable w.ret = false ∧ w.lastTask = none ∧ w.getNextErr = true ∧
    w.obs.repo.getNext.map (·.id) = some "t2" ∧
    (rounds 2 w).log.map (·.id) = ["t2"] ∧ (rounds 2 w).ret = .dispatched "t2" := by
  decide

end Gk
