/- Axiom audit of the C15 / C16 / C17 property theorems (and the cron clause of C18): only
`propext`, `Classical.choice`, `Quot.sound` may appear. -/
import Gk.Props.C15
import Gk.Props.C16
import Gk.Props.C17
open Gk
#print axioms C15_one_pending
#print axioms C15_inv_step
#print axioms C15_core_run
#print axioms C15_pop_is_min
#print axioms C15_schedule_head
#print axioms C15_schedule_head_run
#print axioms C15_stream_step_ent
#print axioms C15_stream_step
#print axioms C15_stream_pop
#print axioms C15_stream_pop_others
#print axioms C15_stream
#print axioms C15_stream_consecutive
#print axioms C18_cron_cursor_pop
#print axioms C18_cron_cursor_pop_indep
#print axioms C18_cron_cursor_edit
#print axioms C18_cron_cursor_edit_indep
#print axioms C16_rejected_noop_flag
#print axioms C16_rejected_noop
#print axioms C16_rejected_noop_edit
#print axioms C16_rejected_noop_fields
#print axioms accepted_of_not_rejected
#print axioms Cron.Accepted.staged_of_mem
#print axioms C16_dup_rejected_stored
#print axioms C16_accepted_distinct
#print axioms C16_dup_rejected_added
#print axioms C16_dup_rejected_load
#print axioms C16_dup_rejected
#print axioms C16_D9_witness
#print axioms C16_D9_fixed
#print axioms C16_D9b_witness
#print axioms C16_D9b_fixed
#print axioms Cron.stopAndDrain_now
#print axioms Cron.wrap_stopTimerRaw
#print axioms C16_success
#print axioms C16_success_edit
#print axioms C16_success_kept_cursor
#print axioms C17_inv_init
#print axioms C17_inv_step
#print axioms C17_inv_run
#print axioms C17_armed_exact_step
#print axioms C17_armed_exact
#print axioms C17_silent_when_stopped
#print axioms C17_stopped_no_fire
#print axioms C17_clock_sane
#print axioms C17_next_scheduled
#print axioms C17_D10_witness
#print axioms C17_D10_fires
#print axioms C17_D10_fixed
-- the supporting invariants and characterisations
#print axioms Cron.stage_spec
#print axioms Cron.updateTask_accept
#print axioms Cron.updateTask_reject
#print axioms Cron.Inv.run
#print axioms Cron.ClockInv.run
#print axioms Cron.run_stream
