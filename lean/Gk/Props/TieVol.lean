/-
Tie theorems, `scheduler/repository.go` (`volatileTaskRepo`): `GetById`, `GetNext`, `MarkAsDispatched`, `MarkAsDone` as
generated from the CURRENT Go source (Gk/Gen/Volatile.lean) do to the `record` map exactly what the cron configuration of
the scheduler model (`Gk.CWorld.sched`, Gk/WorldCron.lean) does to `VRepo.record` in its `peek` / `pop` /
`markDispatched` / `markDone` / `getById` transitions, for every pair of answers of the cron store's `Peek` and `Pop`
(independent: an edit can land between the two calls — finding D18 lives exactly there).

`volSpec*` are those transitions' effect on the record, written as functions; `cworld_*` link them to `CWorld.sched`.
-/
import Gk.Gen.Volatile
import Gk.WorldCron
import Gk.GenGlueSched
namespace Gk.Tie
open Gk Gk.Gen Gk.Gen.Volatile

/-- the Go map that stands for the model's record list -/
def recGo (rec : List (String × Gk.Task)) : List (String × Def.Task) := rec.map fun kt => (kt.1, toGenT kt.2)

/-- what the cron store's `Peek` / `Pop` answer, in Go's shape -/
def ansGo : Option Gk.Task → Def.Task × GoError
  | some t => (toGenT t, none)
  | none => (default, some (.repo "" "exhausted"))

def mkVol (v : VRepo) (pk pp : Option Gk.Task) : GoVol := { record := recGo v.record, peekAns := ansGo pk, popAns := ansGo pp }

theorem lookupT_recGo (rec : List (String × Gk.Task)) (id : String) :
    Go.mapLookupT (recGo rec) id =
      match (rec.find? (·.1 == id)) with
      | some kt => (toGenT kt.2, true)
      | none => (default, false) := by
  unfold Go.mapLookupT recGo
  rw [List.find?_map]
  cases h : List.find? ((fun x => x.1 == id) ∘ fun kt => (kt.1, toGenT kt.2)) rec with
  | none =>
    have : List.find? (fun x => x.1 == id) rec = none := by simpa [Function.comp_def] using h
    simp [this]
  | some kt =>
    have : List.find? (fun x => x.1 == id) rec = some kt := by simpa [Function.comp_def] using h
    simp [this]

theorem setT_recGo (rec : List (String × Gk.Task)) (id : String) (t : Gk.Task) :
    Go.mapSetT (recGo rec) id (toGenT t) = recGo (rec.filter (·.1 != id) ++ [(id, t)]) := by
  simp [Go.mapSetT, recGo, List.filter_map, Function.comp_def]

theorem deleteT_recGo (rec : List (String × Gk.Task)) (id : String) :
    Go.mapDeleteT (recGo rec) id = recGo (rec.filter (·.1 != id)) := by
  simp [Go.mapDeleteT, recGo, List.filter_map, Function.comp_def]

theorem toGenT_id (t : Gk.Task) : (toGenT t).Id = t.id := rfl

/-! ### GetById, MarkAsDone -/

theorem tie_vol_GetById (v : VRepo) (pk pp : Option Gk.Task) (ctx : Ctx) (id : String) :
    volatileTaskRepo.GetById (mkVol v pk pp) ctx id =
      match v.lookup id with
      | some t => (toGenT t, none)
      | none => (default, some (.repo id "id_not_found")) := by
  simp only [volatileTaskRepo.GetById, mkVol, lookupT_recGo, VRepo.lookup]
  cases h : List.find? (fun x => x.1 == id) v.record <;>
    simp [h, Go.repoErr, Def.IdNotFound, Def.Task.Clone, Go.maps_Clone, Go.nil]

theorem tie_vol_MarkAsDone (v : VRepo) (pk pp : Option Gk.Task) (ctx : Ctx) (id : String) (e : GoError) :
    volatileTaskRepo.MarkAsDone (mkVol v pk pp) ctx id e = (mkVol (v.del id) pk pp, none) := by
  simp [volatileTaskRepo.MarkAsDone, mkVol, deleteT_recGo, VRepo.del, Go.nil]

/-! ### GetNext = Peek + remember -/

/-- the record after the `peek` transition at `s_getNext` -/
def volSpecGetNext (v : VRepo) (pk : Option Gk.Task) : VRepo :=
  match pk with
  | some t => v.put t.id t
  | none => v

theorem tie_vol_GetNext (v : VRepo) (pk pp : Option Gk.Task) (ctx : Ctx) :
    volatileTaskRepo.GetNext (mkVol v pk pp) ctx =
      (mkVol (volSpecGetNext v pk) pk pp, (ansGo pk).1, (ansGo pk).2) := by
  cases pk with
  | none => simp [volatileTaskRepo.GetNext, GoVol.peek, mkVol, ansGo, Go.isNil, Go.IsNil.isNil, volSpecGetNext]
  | some t =>
    simp only [volatileTaskRepo.GetNext, GoVol.peek, mkVol, ansGo, Go.isNil, Go.IsNil.isNil, Option.isNone_none,
      Bool.not_true, Bool.false_eq_true, if_false, toGenT_id, setT_recGo, volSpecGetNext, VRepo.put]
    rfl

/-! ### MarkAsDispatched = Peek; [Pop]; bookkeeping -/

/-- record and answer after the `peek` (and, when the head is the announced task, the `pop`) transitions at `d_mark` -/
def volSpecMark (v : VRepo) (id : String) (pk pp : Option Gk.Task) : VRepo × Option Gk.Err :=
  match pk with
  | none => (v, some .exhausted)
  | some p =>
    if p.id == id then
      match pp with
      | none => (v, some .exhausted)
      | some _ =>
        (match v.lookup id with
         | some r => v.put id { r with state := .dispatched }
         | none => v, none)
    else if (v.lookup id).isSome then (v.del id, some .alreadyCancelled)
    else (v, none)

def errGoVol (id : String) : Option Gk.Err → GoError
  | none => none
  | some .alreadyCancelled => some (.repo id "already_cancelled")
  | some _ => some (.repo "" "exhausted")

theorem tie_vol_MarkAsDispatched (v : VRepo) (pk pp : Option Gk.Task) (ctx : Ctx) (id : String) :
    volatileTaskRepo.MarkAsDispatched (mkVol v pk pp) ctx id =
      (mkVol (volSpecMark v id pk pp).1 pk pp, errGoVol id (volSpecMark v id pk pp).2) := by
  cases pk with
  | none => simp [volatileTaskRepo.MarkAsDispatched, GoVol.peek, mkVol, ansGo, Go.isNil, Go.IsNil.isNil, volSpecMark, errGoVol]
  | some p =>
    simp only [volatileTaskRepo.MarkAsDispatched, GoVol.peek, GoVol.pop, mkVol, ansGo, Go.isNil, Go.IsNil.isNil,
      Option.isNone_none, Bool.not_true, Bool.false_eq_true, if_false, toGenT_id, volSpecMark, lookupT_recGo, VRepo.lookup]
    by_cases hid : (p.id == id) = true
    · simp only [hid, if_true]
      cases pp with
      | none => simp [errGoVol]
      | some q =>
        simp only [Option.isNone_none, Bool.not_true, Bool.false_eq_true, if_false]
        have hc : List.find? (fun x => x.1 == id) v.record = none ∨ ∃ kt, List.find? (fun x => x.1 == id) v.record = some kt := by
          cases List.find? (fun x => x.1 == id) v.record <;> simp
        rcases hc with hn | ⟨kt, hk⟩
        · simp [hn, errGoVol, Go.nil]
        · have hst : ({ toGenT kt.2 with State := Def.TaskDispatched } : Def.Task) = toGenT { kt.2 with state := .dispatched } := rfl
          simp only [hk, Option.map_some, if_true, hst, setT_recGo, errGoVol, Go.nil, VRepo.put]
    · have hid' : (p.id == id) = false := by simpa using hid
      simp only [hid', Bool.false_eq_true, if_false]
      have hc : List.find? (fun x => x.1 == id) v.record = none ∨ ∃ kt, List.find? (fun x => x.1 == id) v.record = some kt := by
        cases List.find? (fun x => x.1 == id) v.record <;> simp
      rcases hc with hn | ⟨kt, hk⟩
      · simp [hn, errGoVol, Go.nil]
      · simp [hk, errGoVol, deleteT_recGo, VRepo.del, Go.repoErr, Def.AlreadyCancelled]

/-! ### the `volSpec*` functions ARE the record bookkeeping of `CWorld.sched` -/

/-- `GetNext`: the `peek` transition at `s_getNext` -/
theorem cworld_getNext_peek (w : CWorld) (h : w.pc = .s_getNext) :
    (w.sched .peek).1.v = volSpecGetNext w.v w.v.peek ∧ (w.sched .peek).1.pc = .s_getNextRet w.v.peek ∧
      (w.sched .peek).2 = .otask w.v.peek := by
  simp only [CWorld.sched, h, volSpecGetNext]
  cases w.v.peek <;> simp

/-- `MarkAsDispatched`, first half: the `peek` transition at `d_mark t`. Either the head is the announced task and the
automaton goes on to `pop` with the record untouched, or the call is decided and record / answer are `volSpecMark`'s
(whatever `Pop` would have answered). -/
theorem cworld_mark_peek (w : CWorld) (t : Gk.Task) (h : w.pc = .d_mark t) (pp : Option Gk.Task) :
    ((∃ p, w.v.peek = some p ∧ (p.id == t.id) = true) ∧ (w.sched .peek).1.pc = .d_markPop t ∧ (w.sched .peek).1.v = w.v) ∨
    ((¬ ∃ p, w.v.peek = some p ∧ (p.id == t.id) = true) ∧
      (w.sched .peek).1.pc = .d_markRet t (volSpecMark w.v t.id w.v.peek pp).2 ∧
      (w.sched .peek).1.v = (volSpecMark w.v t.id w.v.peek pp).1) := by
  simp only [CWorld.sched, h, volSpecMark]
  cases hp : w.v.peek with
  | none => simp
  | some p =>
    by_cases hid : (p.id == t.id) = true
    · left; simp [hid]; exact (beq_iff_eq.1 hid)
    · right
      have hid' : (p.id == t.id) = false := by simpa using hid
      have hne : ¬ p.id = t.id := fun he => hid (beq_iff_eq.2 he)
      by_cases hl : (w.v.lookup t.id).isSome = true <;> simp [hid', hl, hne]

/-- `MarkAsDispatched`, second half: the `pop` transition at `d_markPop t` (the cron store may have been edited since the
`peek`: `w` is ANY world at that program counter). The record is `volSpecMark`'s for a head that WAS the announced task
and whatever `Pop` hands out now. -/
theorem cworld_mark_pop (w : CWorld) (t : Gk.Task) (h : w.pc = .d_markPop t) :
    (w.sched .pop).1.v.record = (volSpecMark w.v t.id (some t) (w.v.cron.head.map WTask.out)).1.record ∧
    (w.sched .pop).1.pc = .d_markRet t (volSpecMark w.v t.id (some t) (w.v.cron.head.map WTask.out)).2 := by
  simp only [CWorld.sched, h, volSpecMark, beq_self_eq_true, if_true]
  cases hh : w.v.cron.head with
  | none => simp
  | some hd =>
    simp only [Option.map_some]
    have hl : ({ w.v with cron := (w.v.cron.pop).1 } : VRepo).lookup t.id = w.v.lookup t.id := rfl
    cases hk : w.v.lookup t.id with
    | none => simp [hl, hk]
    | some r => simp [hl, hk, VRepo.put]

end Gk.Tie
