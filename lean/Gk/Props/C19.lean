/-
C19 — no mutable state is shared across the API boundary.
If every crossing clones, the cells reachable from the store are disjoint from every cell the client
ever held (`C19_separation`); hence whatever the client scribbles, the store's contents by value are
those of the value-semantic run (`C19_value_semantics`). A crossing that does not clone breaks it
(`C19_D13_witness`). Which crossings of gokugen clone is hand-transcribed (see Gk/Alias.lean) and
validated by the scribbling correspondence only.
-/
import Gk.Alias
namespace Gk
open Alias

structure Alias.Sep (s : Sys) : Prop where
  store_lt : ∀ t ∈ s.store, t.pc < s.next ∧ t.mc < s.next
  client_lt : ∀ c ∈ s.client, c < s.next
  disjoint : ∀ t ∈ s.store, t.pc ∉ s.client ∧ t.mc ∉ s.client

theorem Alias.sep_init : Sep {} := ⟨by simp, by simp, by simp⟩

/-- value view is insensitive to allocation -/
theorem Alias.deref_alloc (s : Sys) (h : ∀ t ∈ s.store, t.pc < s.next ∧ t.mc < s.next) (v : SMap) :
    deref (alloc s v).1 = deref s := by
  simp only [deref, alloc]
  apply List.map_congr_left
  intro t ht
  have := h t ht
  simp [Nat.ne_of_lt this.1, Nat.ne_of_lt this.2]

theorem Alias.step_sep (s : Sys) (op : AOp) (h : Sep s) : Sep (step {} s op) ∧ deref (step {} s op) = vstep (deref s) op := by
  obtain ⟨hs, hc, hd⟩ := h
  cases op with
  | add id p m =>
    simp only [step, cross, alloc, if_true, deref, vstep]
    refine ⟨⟨?_, ?_, ?_⟩, ?_⟩ <;> try dsimp only
    · intro t ht
      simp only [List.mem_append, List.mem_singleton] at ht
      rcases ht with ht | rfl
      · have := hs t ht; omega
      · dsimp only; omega
    · intro c hcm
      simp only [List.mem_cons] at hcm
      rcases hcm with rfl | rfl | rfl | rfl | hcm <;> try omega
      have := hc c hcm; omega
    · intro t ht
      simp only [List.mem_append, List.mem_singleton] at ht
      simp only [List.mem_cons, not_or]
      rcases ht with ht | rfl
      · have h1 := hs t ht; have h2 := hd t ht
        refine ⟨⟨by omega, by omega, by omega, by omega, h2.1⟩, ⟨by omega, by omega, by omega, by omega, h2.2⟩⟩
      · dsimp only
        refine ⟨⟨by omega, by omega, by omega, by omega, ?_⟩, ⟨by omega, by omega, by omega, by omega, ?_⟩⟩
        · intro hm; have := hc _ hm; omega
        · intro hm; have := hc _ hm; omega
    · simp only [List.map_append, List.map_cons, List.map_nil]
      congr 1
      · apply List.map_congr_left
        intro t ht
        have := hs t ht
        have a0 : t.pc ≠ s.next := by omega
        have a1 : t.pc ≠ s.next + 1 := by omega
        have a2 : t.pc ≠ s.next + 1 + 1 := by omega
        have a3 : t.pc ≠ s.next + 1 + 1 + 1 := by omega
        have a4 : t.pc ≠ s.next + 1 + 1 + 1 + 1 := by omega
        have a5 : t.pc ≠ s.next + 1 + 1 + 1 + 1 + 1 := by omega
        have b0 : t.mc ≠ s.next := by omega
        have b1 : t.mc ≠ s.next + 1 := by omega
        have b2 : t.mc ≠ s.next + 1 + 1 := by omega
        have b3 : t.mc ≠ s.next + 1 + 1 + 1 := by omega
        have b4 : t.mc ≠ s.next + 1 + 1 + 1 + 1 := by omega
        have b5 : t.mc ≠ s.next + 1 + 1 + 1 + 1 + 1 := by omega
        simp only [a0, a1, a2, a3, a4, a5, b0, b1, b2, b3, b4, b5, if_false]
      · have c1 : s.next + 1 + 1 ≠ s.next + 1 + 1 + 1 + 1 + 1 := by omega
        have c2 : s.next + 1 + 1 ≠ s.next + 1 + 1 + 1 + 1 := by omega
        have c3 : s.next + 1 + 1 ≠ s.next + 1 + 1 + 1 := by omega
        have c4 : s.next ≠ s.next + 1 := by omega
        have c5 : s.next + 1 + 1 + 1 ≠ s.next + 1 + 1 + 1 + 1 + 1 := by omega
        have c6 : s.next + 1 + 1 + 1 ≠ s.next + 1 + 1 + 1 + 1 := by omega
        have c7 : s.next + 1 ≠ s.next + 1 + 1 := by omega
        simp only [c1, c2, c3, c4, c5, c6, c7, if_false, if_true]
  | get id =>
    simp only [step]
    cases hf : s.store.find? (·.id == id) with
    | none => exact ⟨⟨hs, hc, hd⟩, by simp [vstep]⟩
    | some t =>
      simp only [cross, alloc, if_true, deref, vstep]
      refine ⟨⟨?_, ?_, ?_⟩, ?_⟩ <;> try dsimp only
      · intro u hu; have := hs u hu; omega
      · intro c hcm
        simp only [List.mem_cons] at hcm
        rcases hcm with rfl | rfl | hcm <;> try omega
        have := hc c hcm; omega
      · intro u hu
        have h1 := hs u hu; have h2 := hd u hu
        simp only [List.mem_cons, not_or]
        exact ⟨⟨by omega, by omega, h2.1⟩, ⟨by omega, by omega, h2.2⟩⟩
      · apply List.map_congr_left
        intro u hu
        have := hs u hu
        have e1 : u.pc ≠ s.next := by omega
        have e2 : u.mc ≠ s.next := by omega
        have e3 : u.pc ≠ s.next + 1 := by omega
        have e4 : u.mc ≠ s.next + 1 := by omega
        simp only [e1, e2, e3, e4, if_false]
  | update id p =>
    simp only [step, cross, alloc, if_true, deref, vstep]
    refine ⟨⟨?_, ?_, ?_⟩, ?_⟩ <;> try dsimp only
    · intro t ht
      simp only [List.mem_map] at ht
      obtain ⟨u, hu, rfl⟩ := ht
      have := hs u hu
      split <;> (try dsimp only) <;> omega
    · intro c hcm
      simp only [List.mem_cons] at hcm
      rcases hcm with rfl | hcm <;> try omega
      have := hc c hcm; omega
    · intro t ht
      simp only [List.mem_map] at ht
      obtain ⟨u, hu, rfl⟩ := ht
      have h1 := hs u hu; have h2 := hd u hu
      simp only [List.mem_cons, not_or]
      split <;> try dsimp only
      · refine ⟨⟨by omega, ?_⟩, ⟨by omega, h2.2⟩⟩
        intro hm; have := hc _ hm; omega
      · exact ⟨⟨by omega, h2.1⟩, ⟨by omega, h2.2⟩⟩
    · simp only [List.map_map]
      apply List.map_congr_left
      intro u hu
      have := hs u hu
      have e1 : u.pc ≠ s.next := by omega
      have e2 : u.mc ≠ s.next := by omega
      have e3 : u.mc ≠ s.next + 1 := by omega
      have e4 : u.pc ≠ s.next + 1 := by omega
      have e5 : s.next ≠ s.next + 1 := by omega
      simp only [Function.comp]
      split
      · dsimp only; simp only [if_true]
      · rfl
  | scribble c v =>
    simp only [step]
    split
    · rename_i hin
      refine ⟨⟨hs, hc, hd⟩, ?_⟩
      simp only [deref, vstep]
      apply List.map_congr_left
      intro t ht
      have := hd t ht
      have e1 : t.pc ≠ c := fun e => this.1 (e ▸ hin)
      have e2 : t.mc ≠ c := fun e => this.2 (e ▸ hin)
      simp only [e1, e2, if_false]
    · exact ⟨⟨hs, hc, hd⟩, by simp [vstep]⟩

/-- C19_separation: with every crossing cloning, for every sequence of calls and client scribbles the
cells reachable from the store are disjoint from every cell the client has ever held. -/
theorem C19_separation (ops : List AOp) : Sep (run {} {} ops) := by
  have : ∀ s, Sep s → Sep (run {} s ops) := by
    induction ops with
    | nil => intro s h; exact h
    | cons op rest ih => intro s h; exact ih _ (step_sep s op h).1
  exact this {} sep_init

/-- C19_value_semantics: …hence the store's contents by value equal the value-semantic run, whatever the
client overwrote after each call. -/
theorem C19_value_semantics (ops : List AOp) : deref (run {} {} ops) = vrun [] ops := by
  have : ∀ s, Sep s → deref (run {} s ops) = vrun (deref s) ops := by
    induction ops with
    | nil => intro s _; rfl
    | cons op rest ih =>
      intro s h
      have := step_sep s op h
      simp only [run, vrun, List.foldl_cons] at *
      rw [ih _ this.1, this.2]
  simpa [deref] using this {} sep_init

/-- D13 / D17: a crossing that hands out the stored cell itself lets a client scribble change the store. -/
theorem C19_D13_witness :
    deref (run { cloneOut := false } {} [.add "a" [("k", "v")] [], .get "a", .scribble 2 [("k", "scribbled")]])
      ≠ vrun [] [.add "a" [("k", "v")] [], .get "a", .scribble 2 [("k", "scribbled")]] := by decide

/-- non-vacuity: the same script with cloning crossings keeps the stored value -/
example : deref (run {} {} [.add "a" [("k", "v")] [], .get "a", .scribble 2 [("k", "scribbled")], .scribble 6 [("x", "y")]])
    = [("a", [("k", "v")], [])] := by decide

end Gk
