/-
C06 — outcomes are recorded faithfully and every completion is reported once.
-/
import Gk.Proofs.World
namespace Gk
open World WP

/-! ### bookkeeping of running / completed / reported work -/

theorem C06_counts (t0 : Time) (acts : List Act) (hs : (init t0).Script acts) (x : String) :
    let w := (init t0).run acts
    (w.running.map (·.1)).count x + (w.completed.map (·.1)).count x + (w.reported.map (·.1)).count x ≤ 1 ∧
    (x ∉ w.log.map (·.id) →
      (w.running.map (·.1)).count x + (w.completed.map (·.1)).count x + (w.reported.map (·.1)).count x = 0) :=
  (Inv_run (Inv_init t0) hs).counts x

/-- Step's result branch receives the completion of a work function at most once. -/
theorem C06_reported_once (t0 : Time) (acts : List Act) (hs : (init t0).Script acts) :
    (((init t0).run acts).reported.map (·.1)).Nodup := by
  rw [List.nodup_iff_count]
  intro x
  have := (C06_counts t0 acts hs x).1
  simp only at this
  omega

/-- An id is in at most one of `running`, `completed`, `reported`, in each at most once, and only if
its work function was started. -/
theorem C06_running_completed_disjoint (t0 : Time) (acts : List Act) (hs : (init t0).Script acts) :
    let w := (init t0).run acts
    (w.running.map (·.1)).Nodup ∧ (w.completed.map (·.1)).Nodup ∧
    (∀ x ∈ w.running.map (·.1), x ∉ w.completed.map (·.1) ∧ x ∉ w.reported.map (·.1)) ∧
    (∀ x ∈ w.completed.map (·.1), x ∉ w.reported.map (·.1)) ∧
    (∀ x, x ∈ w.running.map (·.1) ∨ x ∈ w.completed.map (·.1) ∨ x ∈ w.reported.map (·.1) →
      x ∈ w.log.map (·.id)) := by
  intro w
  have hc : ∀ x, _ := fun x => C06_counts t0 acts hs x
  have hw : w = (init t0).run acts := rfl
  clear_value w
  subst hw
  simp only at hc
  refine ⟨?_, ?_, ?_, ?_, ?_⟩
  · rw [List.nodup_iff_count]; intro x; have := (hc x).1; omega
  · rw [List.nodup_iff_count]; intro x; have := (hc x).1; omega
  · intro x hx
    have h1 := List.count_pos_iff.mpr hx
    have := (hc x).1
    constructor <;> (intro h2; have h3 := List.count_pos_iff.mpr h2; omega)
  · intro x hx h2
    have h1 := List.count_pos_iff.mpr hx
    have h3 := List.count_pos_iff.mpr h2
    have := (hc x).1
    omega
  · intro x hx
    apply Classical.byContradiction
    intro hn
    have h0 := (hc x).2 hn
    rcases hx with hx | hx | hx <;> (have := List.count_pos_iff.mpr hx; omega)

/-! ### `MarkAsDone` as the scheduler calls it -/

/-- the two places the scheduler calls `MarkAsDone` from -/
def C06.atMarkDone (w : World) (id : String) (o : Outcome) : Prop :=
  w.pc = .s_markDone id o ∨ w.pc = .r_markDone id o

/-- the stored task records outcome `o` -/
def C06.recorded (o : Outcome) (t : Task) : Prop :=
  match o with
  | .nil => t.state = .done
  | .err msg => t.state = .err ∧ t.err = msg
  | .ctxCanceled => t.state = .err ∧ t.err = "context canceled"

/-- **Faithful.** When the scheduler's `MarkAsDone` takes effect (fault `.none` / `.after`, context
alive) on a dispatched task, the task is stored as `done` for outcome nil, as `err` with exactly the
error text for outcome `err msg`; nothing else about the task changes except `doneAt`. The returned
state is an error state iff the call reported an error (`.after`). -/
theorem C06_markdone_faithful (w : World) (hwf : w.obs.repo.WF) (id : String) (o : Outcome) (f : Fault)
    (t : Task) (hpc : C06.atMarkDone w id o) (hl : w.obs.repo.lookup id = some t)
    (hd : t.state = .dispatched) (hf : f ≠ .before) (hc : w.ctxDone = false) :
    let w' := (w.sched (.markDone f)).1
    w'.obs.repo.lookup id = some (doneTask w.obs.clock.now (outcomeErr o) t) ∧
    C06.recorded o (doneTask w.obs.clock.now (outcomeErr o) t) ∧
    w'.pc = .idle ∧
    (f = .after → w'.ret = .taskDone id o (some .other)) ∧
    (f = .none → w'.ret = (if w.pc = .s_markDone id o then .taskDone id o none else .zero)) := by
  have hb : (f == Fault.before) = false := by simpa using hf
  have hstep : Repo.step {} w.obs.repo w.obs.clock.now (.done id (outcomeErr o)) =
      (w.obs.repo.replace id (doneTask w.obs.clock.now (outcomeErr o)), .ok) := by
    rw [done_spec' hwf, hl]; simp only [hd]
  have hlk : (w.obs.repo.replace id (doneTask w.obs.clock.now (outcomeErr o))).lookup id =
      some (doneTask w.obs.clock.now (outcomeErr o) t) := by
    rw [lookup_replace _ _ _ (by intro t; unfold doneTask; split <;> rfl), if_pos rfl, hl]; rfl
  have hrec : C06.recorded o (doneTask w.obs.clock.now (outcomeErr o) t) := by
    cases o <;> simp [C06.recorded, doneTask, outcomeErr]
  rcases hpc with hpc | hpc
  · unfold World.sched
    simp only [hpc, hb, hc, hstep, Bool.false_eq_true, if_false]
    refine ⟨hlk, hrec, rfl, ?_, ?_⟩
    · rintro rfl; rfl
    · rintro rfl; rfl
  · unfold World.sched
    simp only [hpc, hb, hc, hstep, Bool.false_eq_true, if_false]
    cases f with
    | before => exact absurd rfl hf
    | none =>
      have e1 : (Fault.none == Fault.after) = false := rfl
      simp only [e1, Bool.false_eq_true, if_false, Option.isSome_none, Bool.false_and, World.finish]
      refine ⟨hlk, hrec, ?_⟩
      simp
    | after =>
      have e1 : (Fault.after == Fault.after) = true := rfl
      have e2 : (some Err.other != some Err.alreadyDone) = true := by decide
      simp only [e1, if_true, Option.isSome_some, Bool.true_and, e2, World.finish]
      refine ⟨hlk, hrec, ?_⟩
      simp

/-- **Nothing stored on failure.** With fault `.before`, or with a cancelled context, the repository is
untouched and the scheduler returns `TaskDone(id, o, some _)` — an error state carrying the outcome,
so that `Retry` applies it again. -/
theorem C06_markdone_failed_keeps_outcome (w : World) (id : String) (o : Outcome) (f : Fault)
    (hpc : C06.atMarkDone w id o) (hf : f = .before ∨ w.ctxDone = true) :
    let w' := (w.sched (.markDone f)).1
    w'.obs.repo = w.obs.repo ∧ w'.pc = .idle ∧ ∃ e, w'.ret = .taskDone id o (some e) := by
  rcases hpc with hpc | hpc <;> unfold World.sched <;> simp only [hpc]
  all_goals
    by_cases hb : f = .before
    · subst hb; exact ⟨rfl, rfl, _, rfl⟩
    · have hb' : (f == Fault.before) = false := by simpa using hb
      have hc : w.ctxDone = true := hf.resolve_left hb
      simp only [hb', hc, Bool.false_eq_true, if_false, if_true]
      exact ⟨rfl, rfl, _, rfl⟩

/-- `Retry` picks the outcome up again: from `TaskDone(id, o, _)` it calls `MarkAsDone(id, o)`. -/
theorem C06_retry_reapplies (w : World) (id : String) (o : Outcome) (e : Option Err)
    (hpc : w.pc = .idle) (hr : w.ret = .taskDone id o e) :
    (w.sched .beginRetry).1.pc = .r_markDone id o ∧ (w.sched .beginRetry).1.obs.repo = w.obs.repo := by
  unfold World.sched
  simp [hpc, hr]

/-- `Retry`'s `MarkAsDone` tolerates `alreadyDone`: if the outcome is already recorded (the failed
attempt took effect, fault `.after`) the repository is untouched and `Retry` succeeds. -/
theorem C06_retry_tolerates_already_done (w : World) (hwf : w.obs.repo.WF) (id : String) (o : Outcome)
    (t : Task) (hpc : w.pc = .r_markDone id o) (hl : w.obs.repo.lookup id = some t)
    (hd : t.state = .done ∨ t.state = .err) (hc : w.ctxDone = false) :
    let w' := (w.sched (.markDone .none)).1
    w'.obs.repo = w.obs.repo ∧ w'.pc = .idle ∧ w'.ret = .zero := by
  have hstep : Repo.step {} w.obs.repo w.obs.clock.now (.done id (outcomeErr o)) =
      (w.obs.repo, .err .alreadyDone) := by
    rw [done_spec' hwf, hl]; rcases hd with hd | hd <;> simp only [hd]
  unfold World.sched
  simp only [hpc, hc, hstep]
  simp [World.finish]

/-- **Dispatcher cancellation.** A completion with outcome `context.Canceled` makes no repository call:
the task stays as it is (dispatched) and the state `TaskDone(id, Canceled, nil)` is returned. -/
theorem C06_cancel_left_dispatched (w : World) (id x : String) (hpc : w.pc = .s_select)
    (hfind : w.completed.find? (·.1 == id) = some (x, .ctxCanceled)) :
    let w' := (w.sched (.selResult id)).1
    w'.obs.repo = w.obs.repo ∧ w'.pc = .idle ∧ w'.ret = .taskDone id .ctxCanceled none ∧
    w'.reported = w.reported ++ [(id, .ctxCanceled)] := by
  unfold World.sched
  simp only [hpc, hfind]
  exact ⟨rfl, rfl, rfl, rfl⟩

/-- … and it is still dispatched there: a task whose work function was started and whose outcome has
not been recorded is stored in state dispatched, done or err at every moment (C04), and no user
operation can change a dispatched task. -/
theorem C06_started_never_rescheduled (t0 : Time) (acts : List Act) (hs : (init t0).Script acts) :
    ∀ e ∈ ((init t0).run acts).log, ∃ t, ((init t0).run acts).obs.repo.lookup e.id = some t ∧
      t.state ≠ .scheduled ∧ t.state ≠ .cancelled := by
  intro e he
  obtain ⟨_, _, t, hl, hst⟩ := (Inv_run (Inv_init t0) hs).logged e he
  refine ⟨t, hl, ?_, ?_⟩ <;> (intro h; rw [h] at hst; simp [started] at hst)

/-! ### Recorded at quiescence -/

/-- the outcomes `Step` reports are the ones the work functions delivered -/
theorem C06_reported_from_complete (t0 : Time) (acts : List Act) :
    ∀ p ∈ ((init t0).run acts).reported, Act.complete p.1 p.2 ∈ acts := by
  intro p hp
  rcases lists_run (init t0) acts p (.inr hp) with h | h | h
  · simp [World.init] at h
  · simp [World.init] at h
  · exact h

/-- **Recorded at quiescence.** Assume the driver's retry discipline (`World.RetryDiscipline`): a `Step`
is never begun while the last returned state is a `TaskDone` whose `MarkAsDone` failed — such a state
is handed to `Retry`, as often as needed — and `TaskDone(id, Canceled, _)` is never handed to `Retry`.
Whenever the scheduler is then idle and its last returned state is not an error state, every
completion it has reported is recorded faithfully: `done` for nil, `err` with the very message for an
error, and left `dispatched` for a dispatcher cancellation. If moreover no work function is running
and no completion is waiting in the queue, this covers every work function that was ever started. -/
theorem C06_recorded_at_quiescence (t0 : Time) (acts : List Act) (hs : (init t0).Script acts)
    (hr : (init t0).RetryDiscipline acts)
    (hpc : ((init t0).run acts).pc = .idle) (he : ((init t0).run acts).ret.err = none) :
    (∀ id o, (id, o) ∈ ((init t0).run acts).reported →
      ∃ t, ((init t0).run acts).obs.repo.lookup id = some t ∧ recordedQ o t) ∧
    (((init t0).run acts).running = [] → ((init t0).run acts).completed = [] →
      ∀ e ∈ ((init t0).run acts).log, ∃ o, (e.id, o) ∈ ((init t0).run acts).reported ∧
        Act.complete e.id o ∈ acts) := by
  have hI := Inv_run (Inv_init t0) hs
  have hQ := QInv_run (Inv_init t0) (QInv_init t0) hs hr
  refine ⟨?_, ?_⟩
  · intro id o h
    rcases hQ.rep id o h with hrec | hp
    · exact hrec
    · exfalso
      rcases hp.2.2 with h' | h' | ⟨_, e, h'⟩
      · rw [hpc] at h'; cases h'
      · rw [hpc] at h'; cases h'
      · rw [h'] at he; simp [SS.err] at he
  · intro h1 h2 e hel
    have := hQ.cover e hel
    rw [h1, h2] at this
    simp only [cnt_nil, Nat.zero_add] at this
    obtain ⟨o, ho⟩ := cnt_pos_mem this
    exact ⟨o, ho, C06_reported_from_complete t0 acts _ ho⟩

/-! ### Non-vacuity, and an observation about `Retry` of a non-error state -/

namespace C06

def t0 : Time := 63808128000000000000
def sec : Time := 1000000000
def pT : Param := { workId := some "w", scheduledAt := some (t0 + 10 * sec) }

def started : List Act :=
  [ .user .start none, .user (.add "t" pT) none, .advance (t0 + 40 * sec),
    .sched .beginStep, .sched .lastTimerErr, .sched .selTimer, .sched (.getNext .none),
    .sched .nextScheduled,
    .sched .beginStep, .sched .lastTimerErr, .sched (.waitWorker true),
    .sched (.markDispatched .none none), .sched (.getById .none) ]

/-- the work function fails with "boom"; the first `MarkAsDone` fails before taking effect, `Retry`'s
fails after taking effect, the second `Retry` sees `alreadyDone` and succeeds -/
def failAndRetry : List Act :=
  started ++
  [ .complete "t" (.err "boom"),
    .sched .beginStep, .sched .lastTimerErr, .sched (.selResult "t"), .sched (.markDone .before),
    .sched .beginRetry, .sched (.markDone .after),
    .sched .beginRetry, .sched (.markDone .none) ]

def cancelled : List Act :=
  started ++
  [ .complete "t" .ctxCanceled, .sched .beginStep, .sched .lastTimerErr, .sched (.selResult "t") ]

end C06

example :
    (init C06.t0).Script C06.failAndRetry ∧
    ((init C06.t0).run C06.failAndRetry).reported = [("t", .err "boom")] ∧
    (((init C06.t0).run C06.failAndRetry).obs.repo.lookup "t").map (fun t => (t.state, t.err))
      = some (.err, "boom") ∧
    ((init C06.t0).run C06.failAndRetry).ret = .zero ∧
    ((init C06.t0).run (C06.failAndRetry.take 18)).ret = .taskDone "t" (.err "boom") (some .other) ∧
    ((init C06.t0).run (C06.failAndRetry.take 20)).ret = .taskDone "t" (.err "boom") (some .other) := by
  decide

/-- non-vacuity of `C06_recorded_at_quiescence`: the script with two failed `MarkAsDone` calls obeys the
retry discipline and ends quiescent with the outcome recorded -/
example :
    (init C06.t0).Script C06.failAndRetry ∧ (init C06.t0).RetryDiscipline C06.failAndRetry ∧
    ((init C06.t0).run C06.failAndRetry).pc = .idle ∧
    ((init C06.t0).run C06.failAndRetry).ret.err = none ∧
    ((init C06.t0).run C06.failAndRetry).running = [] ∧
    ((init C06.t0).run C06.failAndRetry).completed = [] ∧
    ((init C06.t0).run C06.failAndRetry).log.length = 1 := by
  decide

/-- the discipline is needed: if the failed `TaskDone` is abandoned (a new `Step` instead of `Retry`)
the outcome is lost — the task stays dispatched although the scheduler is idle without error -/
example :
    let s := C06.started ++
      [ .complete "t" (.err "boom"),
        .sched .beginStep, .sched .lastTimerErr, .sched (.selResult "t"), .sched (.markDone .before),
        .sched .beginStep, .sched .lastTimerErr, .sched .selCtx, .sched .beginRetry ]
    (init C06.t0).Script s ∧ ¬ (init C06.t0).RetryDiscipline s ∧
    ((init C06.t0).run s).pc = .idle ∧ ((init C06.t0).run s).ret.err = none ∧
    ((init C06.t0).run s).reported = [("t", .err "boom")] ∧
    (((init C06.t0).run s).obs.repo.lookup "t").map (·.state) = some .dispatched := by
  decide

example :
    (init C06.t0).Script C06.cancelled ∧
    ((init C06.t0).run C06.cancelled).ret = .taskDone "t" .ctxCanceled none ∧
    (((init C06.t0).run C06.cancelled).obs.repo.lookup "t").map (·.state) = some .dispatched := by
  decide

/-- OBSERVATION. `TaskDone(id, context.Canceled, nil)` is not an error state (`Err() = nil`), but if it
is nevertheless handed to `Retry`, `Retry` calls `MarkAsDone(id, context.Canceled)`: the task that
`Step` deliberately left dispatched is recorded as failed with "context canceled". -/
theorem C06_retry_of_cancelled_marks_err :
    (init C06.t0).Script (C06.cancelled ++ [.sched .beginRetry, .sched (.markDone .none)]) ∧
    ((init C06.t0).run C06.cancelled).ret.err = none ∧
    (((init C06.t0).run (C06.cancelled ++ [.sched .beginRetry, .sched (.markDone .none)])).obs.repo.lookup
        "t").map (fun t => (t.state, t.err)) = some (.err, "context canceled") := by
  decide

end Gk
