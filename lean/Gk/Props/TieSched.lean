/-
Tie theorems, `scheduler/scheduler.go`: `Step` (with `dispatchTask`, `setGetNextResult`) as generated from the CURRENT Go
source (Gk/Gen/Scheduler.lean) drives the program-counter automaton `Gk.World.sched` (Gk/World.lean) — the model that
C03–C06 and C20 are proved about — CORRECTLY, whatever the environment does between two of its calls:

* it never makes a call the automaton does not expect at its program counter (the world never gets `stuck`),
* when the method returns the automaton is back at `idle`,
* the returned `StepState` is the automaton's `ret`,
* Go's private fields `lastTask` / `getNextErr` are the automaton's.

The environment `orc.env k` (applied before the k-th scheduler action) is ANY function on worlds that leaves the
scheduler's own registers alone (`EnvOk`): user mutations, time, completions of work functions, context cancellation
are instances. Faults, the worker's availability and the preferred `select` case are the other fields of `orc`.
-/
import Gk.Gen.Scheduler
namespace Gk.Tie
open Gk Gk.Gen Gk.Gen.Scheduler

/-- the environment never touches the scheduler's registers -/
def EnvOk (env : Nat → World → World) : Prop :=
  ∀ k w, (env k w).pc = w.pc ∧ (env k w).lastTask = w.lastTask ∧ (env k w).getNextErr = w.getNextErr ∧
    (env k w).ret = w.ret ∧ (env k w).fix = w.fix ∧ (env k w).stuck = w.stuck

/-- the Go-shaped scheduler that stands for the world `w` between two calls -/
def mkSched (w : World) (orc : SchedOrc) : GoSched :=
  { w := w, lastTask := w.lastTask.map toGenT,
    getNextErr := if w.getNextErr then some (.other "getNextErr") else none, orc := orc, k := 0 }

/-- the automaton's `ret` in Go's shape -/
def ssGo : SS → GoStepState
  | .zero => .zero
  | .timerUpdateError e => .timerUpdateError (some (goErrS e))
  | .awaitingNext => .awaitingNext none
  | .nextTask (some t) _ => .nextTask (toGenT t) none
  | .nextTask none e => .nextTask default (e.map goErrS)
  | .dispatchErr t e => .dispatchErr (toGenT t) (some (goErrS e))
  | .dispatched id => .dispatched id
  | .taskDone id o ue => .taskDone id (GoSched.outcomeGo o) (ue.map goErrS)

/-- `StateAwaitingNext(ctx.Err())` carries the context's error, which the model does not record -/
def normSt : GoStepState → GoStepState
  | .awaitingNext _ => .awaitingNext none
  | s => s

/-- what "the generated method drove the automaton correctly" means -/
structure Drove (r : GoSched × GoStepState) : Prop where
  not_stuck : r.1.w.stuck = false
  idle : r.1.w.pc = .idle
  ret : normSt r.2 = ssGo r.1.w.ret
  lastTask : r.1.lastTask = r.1.w.lastTask.map toGenT
  getNextErr : r.1.getNextErr.isSome = r.1.w.getNextErr


/-! ### helper lemmas -/

/-- the scheduler's registers at a call boundary: the automaton's and Go's copies agree -/
structure Regs (s : GoSched) (p : Pc) (lt : Option Gk.Task) (g : Bool) : Prop where
  env : EnvOk s.orc.env
  pc : s.w.pc = p
  ns : s.w.stuck = false
  fix : s.w.fix = {}
  wlt : s.w.lastTask = lt
  wgne : s.w.getNextErr = g
  glt : s.lastTask = lt.map toGenT
  ggne : s.getNextErr.isSome = g

theorem Regs.envw {s : GoSched} {p lt g} (h : Regs s p lt g) :
    (s.orc.env s.k s.w).pc = p ∧ (s.orc.env s.k s.w).stuck = false ∧ (s.orc.env s.k s.w).fix = {} ∧
      (s.orc.env s.k s.w).lastTask = lt ∧ (s.orc.env s.k s.w).getNextErr = g := by
  obtain ⟨e1, e2, e3, _, e5, e6⟩ := h.env s.k s.w
  exact ⟨e1.trans h.pc, e6.trans h.ns, e5.trans h.fix, e2.trans h.wlt, e3.trans h.wgne⟩

theorem regs_stop {s : GoSched} {lt g} (h : Regs s .s_stop lt g) :
    Regs (GoSched.repoStopTimer s) .s_start lt g := by
  obtain ⟨hpc, hns, hfix, hlt, hg⟩ := h.envw
  obtain ⟨henv, -, -, -, -, -, hglt, hggne⟩ := h
  simp only [GoSched.repoStopTimer, GoSched.act]
  generalize s.orc.env s.k s.w = w1 at *
  simp only [World.sched, hpc]
  exact ⟨henv, rfl, hns, hfix, hlt, hg, hglt, hggne⟩

theorem regs_start {s : GoSched} {lt g} (ctx : Ctx) (h : Regs s .s_start lt g) :
    Regs (GoSched.repoStartTimer s ctx) .s_lastErr1 lt g := by
  obtain ⟨hpc, hns, hfix, hlt, hg⟩ := h.envw
  obtain ⟨henv, -, -, -, -, -, hglt, hggne⟩ := h
  simp only [GoSched.repoStartTimer, GoSched.act]
  generalize s.orc.env s.k s.w = w1 at *
  simp only [World.sched, hpc]
  exact ⟨henv, rfl, hns, hfix, hlt, hg, hglt, hggne⟩


/-! the tail of `Step` (the translator duplicates it three times), cut into named pieces -/

/-- after `GetNext` succeeded: compare with the hook timer's `NextScheduled` and the clock -/
def nsArm (s : GoSched) (next_ : Def.Task) : GoSched × GoStepState :=
  let (s, nextScheduled, ok) := (GoSched.repoNextScheduled s)
  if (((!ok) || (!((nextScheduled).Equal next_.ScheduledAt))) || ((next_.ScheduledAt).After (GoSched.clockNow s))) then
    let s := (Scheduler.setGetNextResult s (default : Def.Task) ErrScheduleStoppedOrChanged)
    (s, (StateNextTask (default : Def.Task) ErrScheduleStoppedOrChanged))
  else
    let s := (Scheduler.setGetNextResult s next_ Go.nil)
    (s, (StateNextTask next_ Go.nil))

/-- the timer arm of the `select` -/
def timerArm (s : GoSched) (ctx : Ctx) : GoSched × GoStepState :=
  let (s, next_, err) := (GoSched.repoGetNext s ctx)
  if (!(Go.isNil err)) then
    let s := (Scheduler.setGetNextResult s (default : Def.Task) err)
    (s, (StateNextTask (default : Def.Task) err))
  else nsArm s next_

/-- the result arm of the `select` -/
def resultArm (s : GoSched) (ctx : Ctx) (res : GoTaskResult) : GoSched × GoStepState :=
  let err : GoError := default
  if (!(Go.errors_Is res.err Go.context_Canceled)) then
    let (s, err) := (GoSched.repoMarkAsDone s ctx res.beforeDispatch.Id res.err)
    (s, (StateTaskDone res.beforeDispatch.Id res.err err))
  else
    (s, (StateTaskDone res.beforeDispatch.Id res.err err))

/-- the `select` -/
def selTail (s : GoSched) (ctx : Ctx) : GoSched × GoStepState :=
  let (s, selCase) := (GoSched.selectCase s)
  match selCase with
  | .ctxDone => (s, (StateAwaitingNext ((ctx).Err)))
  | .result res => resultArm s ctx res
  | .timer => timerArm s ctx

/-- everything after the restart prologue -/
def stepTail (s : GoSched) (ctx : Ctx) : GoSched × GoStepState :=
  let s := { s with getNextErr := Go.nil }
  if (!(Go.isNil s.lastTask)) then
    let next_ := (s.lastTask).Value
    let s := { s with lastTask := Go.nil }
    (Scheduler.dispatchTask s ctx next_ false)
  else selTail s ctx

/-- look at the timer error after a restart -/
def lastErr1Arm (s : GoSched) (ctx : Ctx) : GoSched × GoStepState :=
  let (s, err) := (GoSched.repoLastTimerUpdateError s)
  if (!(Go.isNil err)) then (s, (StateTimerUpdateError err)) else stepTail s ctx

/-- stop, start, look at the timer error -/
def restartArm (s : GoSched) (ctx : Ctx) : GoSched × GoStepState :=
  let s := (GoSched.repoStopTimer s)
  let s := (GoSched.repoStartTimer s ctx)
  lastErr1Arm s ctx

/-- `getNextErr == nil`: look at the timer error first -/
def lastErr0Arm (s : GoSched) (ctx : Ctx) : GoSched × GoStepState :=
  let (s, hv1) := (GoSched.repoLastTimerUpdateError s)
  if (!(Go.isNil hv1)) then restartArm s ctx else stepTail s ctx

/-- the fetcher closure `dispatchTask` hands to the dispatcher -/
def fetcher (next_ : Def.Task) (isRetry : Bool) : Ctx → GoSched → GoSched × Def.Task × GoError :=
  fun (ctx : Ctx) (s : GoSched) =>
    let err : GoError := default
    if (!isRetry) then
      let (s, err) := (GoSched.repoMarkAsDispatched s ctx next_.Id)
      if (!(Go.isNil err)) then
        (s, (default : Def.Task), err)
      else
        let (s, task, err) := (GoSched.repoGetById s ctx next_.Id)
        if (!(Go.isNil err)) then
          (s, (default : Def.Task), err)
        else
          (s, task, Go.nil)
    else
      if (!(Go.isNil err)) then
        (s, (default : Def.Task), err)
      else
        let (s, task, err) := (GoSched.repoGetById s ctx next_.Id)
        if (!(Go.isNil err)) then
          (s, (default : Def.Task), err)
        else
          (s, task, Go.nil)

theorem dispatchTask_eq (s : GoSched) (ctx : Ctx) (next_ : Def.Task) (isRetry : Bool) :
    Scheduler.dispatchTask s ctx next_ isRetry =
    (let (s, errCh, dispatchErr) := (GoSched.dispatch s ctx (fetcher next_ isRetry))
     if (!(Go.isNil dispatchErr)) then
       (s, (StateDispatchErr next_ dispatchErr))
     else
       let s := (GoSched.reserve s (fun (_ : Unit) =>
           let err := (Go.chanRecv errCh)
           ({ beforeDispatch := next_, err := err } : taskResult)))
       (s, (StateDispatched next_.Id))) := rfl

theorem Step_eq (s : GoSched) (ctx : Ctx) : Scheduler.Step s ctx =
    (let s := GoSched.beginStep s
     if (!(Go.isNil s.getNextErr)) then restartArm s ctx else lastErr0Arm s ctx) := rfl


set_option linter.unusedSimpArgs false

theorem default_goError : (default : GoError) = none := rfl
theorem toGenT_Id (t : Gk.Task) : (toGenT t).Id = t.id := rfl

/-- closes `Drove (s', st)` for explicit `s'`, `st` -/
macro "drove_fin" : tactic => `(tactic| (constructor <;>
  simp [World.finish, Scheduler.setGetNextResult, ErrScheduleStoppedOrChanged, Go.sched_ErrScheduleStoppedOrChanged,
    Go.isNil, Go.IsNil.isNil, Go.nil, Go.addr, StateNextTask, StateTimerUpdateError, StateAwaitingNext,
    StateDispatchErr, StateDispatched, StateTaskDone, GoSched.errOfResp, GoSched.reserve, default_goError, toGenT_Id, normSt, ssGo, *]))

theorem go_cond_eq (ok : Bool) (ns a now : Int) :
    (((!ok) || (!(Int.Equal ns a))) || (Int.After a now)) =
      (!ok || ns != a || !(!true || decide (a ≤ now))) := by
  have : decide (now < a) = !decide (a ≤ now) := by
    by_cases h : a ≤ now
    · simp [h]
    · simp [h]; omega
  cases ok <;> simp [Int.Equal, Int.After, bne, this]

theorem drove_nextSched {s : GoSched} {t : Gk.Task} (h : Regs s (.s_nextSched t) none false) :
    Drove (nsArm s (toGenT t)) := by
  obtain ⟨hpc, hns, hfix, hlt, hg⟩ := h.envw
  obtain ⟨henv, -, -, -, -, -, hglt, hggne⟩ := h
  have hdc : (s.orc.env s.k s.w).fix.dueCheck = true := by rw [hfix]
  have hrc : (s.orc.env s.k s.w).fix.restartOnChanged = true := by rw [hfix]
  obtain ⟨w1, hw⟩ : ∃ w1, s.orc.env s.k s.w = w1 := ⟨_, rfl⟩
  simp only [hw] at hpc hns hfix hlt hg hdc hrc
  by_cases hc : (!w1.obs.nextScheduled.snd || w1.obs.nextScheduled.fst != t.scheduledAt ||
      !(!true || decide (t.scheduledAt ≤ w1.obs.clock.now))) = true
  · have hs : w1.sched .nextScheduled =
        (({ w1 with getNextErr := true }).finish (.nextTask none (some .schedChanged)),
          .nextSched w1.obs.nextScheduled.fst w1.obs.nextScheduled.snd) := by
      simp only [World.sched, hpc, hdc, hrc, if_pos hc]
    simp only [nsArm, GoSched.repoNextScheduled, GoSched.act, hw, hs]
    split
    · drove_fin
    · exact absurd ((go_cond_eq _ _ _ _).trans hc) ‹_›
  · have hs : w1.sched .nextScheduled =
        (({ w1 with lastTask := some t, getNextErr := false }).finish (.nextTask (some t) none),
          .nextSched w1.obs.nextScheduled.fst w1.obs.nextScheduled.snd) := by
      simp only [World.sched, hpc, hdc, hrc, if_neg hc]
    simp only [nsArm, GoSched.repoNextScheduled, GoSched.act, hw, hs]
    split
    · exact absurd ((go_cond_eq _ _ _ _).symm.trans ‹_›) hc
    · drove_fin

theorem drove_timerArm {s : GoSched} (ctx : Ctx) (h : Regs s .s_getNext none false) :
    Drove (timerArm s ctx) := by
  obtain ⟨hpc, hns, hfix, hlt, hg⟩ := h.envw
  obtain ⟨henv, -, -, -, -, -, hglt, hggne⟩ := h
  obtain ⟨w1, hw⟩ : ∃ w1, s.orc.env s.k s.w = w1 := ⟨_, rfl⟩
  simp only [hw] at hpc hns hfix hlt hg
  by_cases hf : s.orc.fGetNext = .none
  · cases hgn : w1.obs.repo.getNext with
    | none =>
      have hs : w1.sched (.getNext s.orc.fGetNext) =
          (({ w1 with lastTask := none, getNextErr := true }).finish (.nextTask none (some .exhausted)),
            .err (some .exhausted)) := by
        simp [World.sched, hpc, hf, hgn]
      simp only [timerArm, GoSched.repoGetNext, GoSched.act, hw, hs]
      drove_fin
    | some t =>
      have hs : w1.sched (.getNext s.orc.fGetNext) = ({ w1 with pc := .s_nextSched t }, .task t) := by
        simp [World.sched, hpc, hf, hgn]
      simp only [timerArm, GoSched.repoGetNext, GoSched.act, hw, hs]
      simp only [Go.isNil, Go.IsNil.isNil, Option.isNone, Bool.not_true, Bool.false_eq_true, if_false]
      exact drove_nextSched ⟨henv, rfl, hns, hfix, hlt, hg, hglt, hggne⟩
  · have hf' : (s.orc.fGetNext != Fault.none) = true := by simp [hf]
    have hs : w1.sched (.getNext s.orc.fGetNext) =
        (({ w1 with lastTask := none, getNextErr := true }).finish (.nextTask none (some .other)),
          .err (some .other)) := by
      simp only [World.sched, hpc, if_pos hf']
    simp only [timerArm, GoSched.repoGetNext, GoSched.act, hw, hs]
    drove_fin

theorem drove_markDone {s : GoSched} {id : String} {o : Outcome} (ctx : Ctx) (id' : String) (e' : GoError)
    (h : Regs s (.s_markDone id o) none false) :
    Drove ((GoSched.repoMarkAsDone s ctx id' e').1,
      StateTaskDone id (GoSched.outcomeGo o) (GoSched.repoMarkAsDone s ctx id' e').2) := by
  obtain ⟨hpc, hns, hfix, hlt, hg⟩ := h.envw
  obtain ⟨henv, -, -, -, -, -, hglt, hggne⟩ := h
  obtain ⟨w1, hw⟩ : ∃ w1, s.orc.env s.k s.w = w1 := ⟨_, rfl⟩
  simp only [hw] at hpc hns hfix hlt hg
  have hs : ∃ w' e, w1.sched (.markDone s.orc.fMarkDone) = (World.finish w' (.taskDone id o e), .err e) ∧
      w'.stuck = false ∧ w'.lastTask = none ∧ w'.getNextErr = false := by
    simp only [World.sched, hpc]
    split
    · exact ⟨_, _, rfl, hns, hlt, hg⟩
    · split
      · exact ⟨_, _, rfl, hns, hlt, hg⟩
      · exact ⟨_, _, rfl, hns, hlt, hg⟩
  obtain ⟨w', e, hs, hns', hlt', hg'⟩ := hs
  simp only [GoSched.repoMarkAsDone, GoSched.act, hw, hs]
  cases e <;> drove_fin

theorem errorsIs_outcome (o : Outcome) :
    Go.errors_Is (GoSched.outcomeGo o) Go.context_Canceled = (o == .ctxCanceled) := by
  cases o with
  | nil => rfl
  | ctxCanceled => decide
  | err m =>
    have h1 : (GoErr.other m == GoErr.sentinel "context canceled") = false := by simp
    have h2 : (Outcome.err m == Outcome.ctxCanceled) = false := by simp
    simp only [GoSched.outcomeGo, Go.errors_Is, Go.context_Canceled, Go.isErr, h1, h2]

theorem drove_selTail {s : GoSched} (ctx : Ctx) (h : Regs s .s_select none false) :
    Drove (selTail s ctx) := by
  obtain ⟨hpc, hns, hfix, hlt, hg⟩ := h.envw
  obtain ⟨henv, -, -, -, -, -, hglt, hggne⟩ := h
  obtain ⟨w1, hw⟩ : ∃ w1, s.orc.env s.k s.w = w1 := ⟨_, rfl⟩
  simp only [hw] at hpc hns hfix hlt hg
  have hctx : w1.sched .selCtx = (w1.finish .awaitingNext, .unit) := by
    simp only [World.sched, hpc]
  by_cases he : GoSched.selEnabled w1 s.orc.sel = true
  · cases hsel : s.orc.sel with
    | selTimer =>
      rw [hsel] at he
      have hp : w1.obs.clock.pending = true := he
      have hs : w1.sched .selTimer =
          ({ w1 with obs := { w1.obs with clock := { w1.obs.clock with pending := false } }, pc := .s_getNext },
            .unit) := by
        simp [World.sched, hpc, Clock.consume, hp]
      simp only [selTail, GoSched.selectCase, hw, hsel, if_pos he, hs]
      exact drove_timerArm ctx ⟨henv, rfl, hns, hfix, hlt, hg, hglt, hggne⟩
    | selResult id =>
      rw [hsel] at he
      obtain ⟨⟨id', o⟩, hfind⟩ := Option.isSome_iff_exists.mp he
      by_cases ho : (o == Outcome.ctxCanceled) = true
      · have hs : ∃ w' : World, w1.sched (.selResult id) = (World.finish w' (.taskDone id o none), .unit) ∧
            w'.stuck = false ∧ w'.lastTask = none ∧ w'.getNextErr = false := by
          simp only [World.sched, hpc, hfind, if_pos ho]
          exact ⟨_, rfl, hns, hlt, hg⟩
        obtain ⟨w', hs, hns', hlt', hg'⟩ := hs
        simp only [selTail, GoSched.selectCase, hw, hsel, if_pos he, hs, hfind, resultArm, errorsIs_outcome, ho]
        drove_fin
      · have ho' : (o == Outcome.ctxCanceled) = false := by simpa using ho
        have hs : ∃ w' : World, w1.sched (.selResult id) = (w', .unit) ∧ w'.pc = .s_markDone id o ∧
            w'.stuck = false ∧ w'.fix = {} ∧ w'.lastTask = none ∧ w'.getNextErr = false := by
          simp only [World.sched, hpc, hfind, if_neg ho]
          exact ⟨_, rfl, rfl, hns, hfix, hlt, hg⟩
        obtain ⟨w', hs, hpc', hns', hfix', hlt', hg'⟩ := hs
        simp only [selTail, GoSched.selectCase, hw, hsel, if_pos he, hs, hfind, resultArm, errorsIs_outcome,
          Option.map_some, Option.getD_some, ho', Bool.not_false, if_true]
        exact drove_markDone ctx _ _ ⟨henv, hpc', hns', hfix', hlt', hg', hglt, hggne⟩
    | _ => simp [GoSched.selEnabled, hsel] at he
  · simp only [selTail, GoSched.selectCase, hw, if_neg he, hctx]
    drove_fin

/-- what the fetcher leaves behind: the automaton has finished, with `dispatchErr` iff the fetcher failed -/
def FetchPost (t : Gk.Task) (r : GoSched × Def.Task × GoError) : Prop :=
  r.1.w.stuck = false ∧ r.1.w.pc = .idle ∧ r.1.w.lastTask = none ∧ r.1.w.getNextErr = false ∧
    r.1.lastTask = none ∧ r.1.getNextErr.isSome = false ∧
    ((∃ e, r.2.2 = some (goErrS e) ∧ r.1.w.ret = .dispatchErr t e) ∨
      (r.2.2 = none ∧ r.1.w.ret = .dispatched t.id))

theorem get_post {s : GoSched} {t : Gk.Task} (ctx : Ctx) (id' : String) (h : Regs s (.d_get t) none false) :
    FetchPost t (GoSched.repoGetById s ctx id') := by
  obtain ⟨hpc, hns, hfix, hlt, hg⟩ := h.envw
  obtain ⟨henv, -, -, -, -, -, hglt, hggne⟩ := h
  obtain ⟨w1, hw⟩ : ∃ w1, s.orc.env s.k s.w = w1 := ⟨_, rfl⟩
  simp only [hw] at hpc hns hfix hlt hg
  have hs : ∃ w' : World,
      ((∃ e, w1.sched (.getById s.orc.fGet) = (w'.finish (.dispatchErr t e), .err (some e))) ∨
       (∃ cur, w1.sched (.getById s.orc.fGet) = (w'.finish (.dispatched t.id), .task cur))) ∧
      w'.stuck = false ∧ w'.lastTask = none ∧ w'.getNextErr = false := by
    simp only [World.sched, hpc]
    split
    · exact ⟨_, .inl ⟨_, rfl⟩, hns, hlt, hg⟩
    · split
      · exact ⟨_, .inl ⟨_, rfl⟩, hns, hlt, hg⟩
      · split
        · exact ⟨_, .inl ⟨_, rfl⟩, hns, hlt, hg⟩
        · exact ⟨_, .inr ⟨_, rfl⟩, hns, hlt, hg⟩
  obtain ⟨w', ⟨e, hs⟩ | ⟨cur, hs⟩, hns', hlt', hg'⟩ := hs
  · simp only [GoSched.repoGetById, GoSched.act, hw, hs]
    exact ⟨hns', rfl, hlt', hg', hglt, hggne, .inl ⟨e, rfl, rfl⟩⟩
  · simp only [GoSched.repoGetById, GoSched.act, hw, hs]
    exact ⟨hns', rfl, hlt', hg', hglt, hggne, .inr ⟨rfl, rfl⟩⟩

theorem fetch_post {s : GoSched} {t : Gk.Task} (ctx : Ctx) (h : Regs s (.d_mark t false) none false) :
    FetchPost t (fetcher (toGenT t) false ctx s) := by
  obtain ⟨hpc, hns, hfix, hlt, hg⟩ := h.envw
  obtain ⟨henv, -, -, -, -, -, hglt, hggne⟩ := h
  obtain ⟨w1, hw⟩ : ∃ w1, s.orc.env s.k s.w = w1 := ⟨_, rfl⟩
  simp only [hw] at hpc hns hfix hlt hg
  have hs : ∃ w' : World,
      ((∃ e, w1.sched (.markDispatched s.orc.fMark s.orc.hfMark) = (w'.finish (.dispatchErr t e), .err (some e))) ∨
       (w1.sched (.markDispatched s.orc.fMark s.orc.hfMark) = (w', .err none) ∧ w'.pc = .d_get t)) ∧
      w'.stuck = false ∧ w'.fix = {} ∧ w'.lastTask = none ∧ w'.getNextErr = false := by
    simp only [World.sched, hpc]
    split
    · exact ⟨_, .inl ⟨_, rfl⟩, hns, hfix, hlt, hg⟩
    · split
      · exact ⟨_, .inl ⟨_, rfl⟩, hns, hfix, hlt, hg⟩
      · split
        · exact ⟨_, .inl ⟨_, rfl⟩, hns, hfix, hlt, hg⟩
        · exact ⟨_, .inr ⟨rfl, rfl⟩, hns, hfix, hlt, hg⟩
  obtain ⟨w', ⟨e, hs⟩ | ⟨hs, hpc'⟩, hns', hfix', hlt', hg'⟩ := hs
  · simp only [fetcher, GoSched.repoMarkAsDispatched, GoSched.act, hw, hs]
    exact ⟨hns', rfl, hlt', hg', hglt, hggne, .inl ⟨e, rfl, rfl⟩⟩
  · simp only [fetcher, GoSched.repoMarkAsDispatched, GoSched.act, hw, hs]
    have hp : FetchPost t (GoSched.repoGetById ⟨w', s.lastTask, s.getNextErr, s.orc, s.k + 1, s.reserved⟩ ctx
        (toGenT t).Id) := get_post ctx _ ⟨henv, hpc', hns', hfix', hlt', hg', hglt, hggne⟩
    generalize GoSched.repoGetById _ ctx (toGenT t).Id = r at hp ⊢
    rcases r with ⟨s3, task, err⟩
    cases err <;> simpa [FetchPost, GoSched.errOfResp, Go.isNil, Go.IsNil.isNil, Go.nil] using hp

theorem drove_dispatch {s : GoSched} {t : Gk.Task} (ctx : Ctx) (h : Regs s (.d_wait t false) none false) :
    Drove (Scheduler.dispatchTask s ctx (toGenT t) false) := by
  obtain ⟨hpc, hns, hfix, hlt, hg⟩ := h.envw
  obtain ⟨henv, -, -, -, -, -, hglt, hggne⟩ := h
  obtain ⟨w1, hw⟩ : ∃ w1, s.orc.env s.k s.w = w1 := ⟨_, rfl⟩
  simp only [hw] at hpc hns hfix hlt hg
  rw [dispatchTask_eq]
  by_cases hacq : s.orc.acquired = true
  · have hs : w1.sched (.waitWorker s.orc.acquired) = ({ w1 with pc := .d_mark t false }, .unit) := by
      simp [World.sched, hpc, hacq]
    simp only [GoSched.dispatch, GoSched.act, hw, hs]
    have hp : FetchPost t (fetcher (toGenT t) false ctx
        ⟨{ w1 with pc := .d_mark t false }, s.lastTask, s.getNextErr, s.orc, s.k + 1, s.reserved⟩) :=
      fetch_post ctx ⟨henv, rfl, hns, hfix, hlt, hg, hglt, hggne⟩
    generalize fetcher (toGenT t) false ctx _ = r at hp ⊢
    rcases r with ⟨s3, task, err⟩
    obtain ⟨h1, h2, h3, h4, h5, h6, ⟨e, h7, h8⟩ | ⟨h7, h8⟩⟩ := hp
    · simp only at h1 h2 h3 h4 h5 h6 h7 h8
      subst h7
      drove_fin
    · simp only at h1 h2 h3 h4 h5 h6 h7 h8
      subst h7
      drove_fin
  · have hacq' : s.orc.acquired = false := by simpa using hacq
    have hs : w1.sched (.waitWorker s.orc.acquired) = (w1.finish (.dispatchErr t .ctx), .err (some .ctx)) := by
      simp [World.sched, hpc, hacq']
    simp only [GoSched.dispatch, GoSched.act, hw, hs]
    drove_fin

theorem drove_stepTail {s : GoSched} {w0 : World} (ctx : Ctx) (hw : s.w = w0.afterPrologue)
    (henv : EnvOk s.orc.env) (hns : w0.stuck = false) (hfix : w0.fix = {})
    (hglt : s.lastTask = w0.lastTask.map toGenT) : Drove (stepTail s ctx) := by
  rcases s with ⟨w, lt, gne, orc, k, res⟩
  simp only at hw hglt henv
  subst hw hglt
  cases hl : w0.lastTask with
  | none =>
    simp only [stepTail, hl, Option.map, Go.isNil, Go.IsNil.isNil, Option.isNone, Bool.not_true,
      Bool.false_eq_true, if_false]
    refine drove_selTail ctx ⟨henv, ?_, ?_, ?_, ?_, ?_, rfl, rfl⟩ <;> simp [World.afterPrologue, hl, hns, hfix]
  | some t =>
    simp only [stepTail, hl, Option.map, Go.isNil, Go.IsNil.isNil, Option.isNone, Bool.not_false, if_true,
      Option.Value, Option.getD]
    refine drove_dispatch ctx ⟨henv, ?_, ?_, ?_, ?_, ?_, rfl, rfl⟩ <;> simp [World.afterPrologue, hl, hns, hfix]

theorem drove_lastErr1 {s : GoSched} {lt : Option Gk.Task} {g : Bool} (ctx : Ctx)
    (h : Regs s .s_lastErr1 lt g) : Drove (lastErr1Arm s ctx) := by
  obtain ⟨hpc, hns, hfix, hlt, hg⟩ := h.envw
  obtain ⟨henv, -, -, -, -, -, hglt, hggne⟩ := h
  obtain ⟨w1, hw⟩ : ∃ w1, s.orc.env s.k s.w = w1 := ⟨_, rfl⟩
  simp only [hw] at hpc hns hfix hlt hg
  cases hle : w1.obs.hook.lastErr with
  | some e =>
    have hs : w1.sched .lastTimerErr = (w1.finish (.timerUpdateError e), .err (some e)) := by
      simp only [World.sched, hpc, hle]
    simp only [lastErr1Arm, GoSched.repoLastTimerUpdateError, GoSched.act, hw, hs]
    drove_fin
  | none =>
    have hs : w1.sched .lastTimerErr = (w1.afterPrologue, .err none) := by
      simp only [World.sched, hpc, hle]
    simp only [lastErr1Arm, GoSched.repoLastTimerUpdateError, GoSched.act, hw, hs, GoSched.errOfResp,
      Go.isNil, Go.IsNil.isNil, Option.isNone, Bool.not_true, Bool.false_eq_true, if_false]
    exact drove_stepTail (w0 := w1) ctx rfl henv hns hfix (by rw [hlt]; exact hglt)

theorem drove_restart {s : GoSched} {lt : Option Gk.Task} {g : Bool} (ctx : Ctx)
    (h : Regs s .s_stop lt g) : Drove (restartArm s ctx) :=
  drove_lastErr1 ctx (regs_start ctx (regs_stop h))

theorem drove_lastErr0 {s : GoSched} {lt : Option Gk.Task} (ctx : Ctx)
    (h : Regs s .s_lastErr0 lt false) : Drove (lastErr0Arm s ctx) := by
  obtain ⟨hpc, hns, hfix, hlt, hg⟩ := h.envw
  obtain ⟨henv, -, -, -, -, -, hglt, hggne⟩ := h
  obtain ⟨w1, hw⟩ : ∃ w1, s.orc.env s.k s.w = w1 := ⟨_, rfl⟩
  simp only [hw] at hpc hns hfix hlt hg
  cases hle : w1.obs.hook.lastErr with
  | some e =>
    have hs : w1.sched .lastTimerErr = ({ w1 with pc := .s_stop }, .err (some e)) := by
      simp [World.sched, hpc, hle]
    simp only [lastErr0Arm, GoSched.repoLastTimerUpdateError, GoSched.act, hw, hs, GoSched.errOfResp,
      Go.isNil, Go.IsNil.isNil, Option.isNone, Bool.not_false, if_true]
    exact drove_restart ctx ⟨henv, rfl, hns, hfix, hlt, hg, hglt, hggne⟩
  | none =>
    have hs : w1.sched .lastTimerErr = (w1.afterPrologue, .err none) := by
      simp [World.sched, hpc, hle]
    simp only [lastErr0Arm, GoSched.repoLastTimerUpdateError, GoSched.act, hw, hs, GoSched.errOfResp,
      Go.isNil, Go.IsNil.isNil, Option.isNone, Bool.not_true, Bool.false_eq_true, if_false]
    exact drove_stepTail (w0 := w1) ctx rfl henv hns hfix (by rw [hlt]; exact hglt)

theorem tie_sched_Step (w : World) (orc : SchedOrc) (ctx : Ctx)
    (hidle : w.pc = .idle) (hns : w.stuck = false) (hfix : w.fix = {}) (henv : EnvOk orc.env) :
    Drove (Scheduler.Step (mkSched w orc) ctx) := by
  have h : Regs (mkSched w orc) .idle w.lastTask w.getNextErr :=
    ⟨henv, hidle, hns, hfix, rfl, rfl, rfl, by simp only [mkSched]; cases w.getNextErr <;> rfl⟩
  obtain ⟨hpc, hns1, hfix1, hlt, hg⟩ := h.envw
  obtain ⟨-, -, -, -, -, -, hglt, hggne⟩ := h
  obtain ⟨w1, hw⟩ : ∃ w1, (mkSched w orc).orc.env (mkSched w orc).k (mkSched w orc).w = w1 := ⟨_, rfl⟩
  simp only [hw] at hpc hns1 hfix1 hlt hg
  rw [Step_eq]
  by_cases hge : w.getNextErr = true
  · have hs : w1.sched .beginStep = ({ w1 with ctxDone := false, pc := .s_stop }, .unit) := by
      simp [World.sched, hpc, hg, hge]
    simp only [GoSched.beginStep, GoSched.act, hw, hs]
    simp only [mkSched, hge, if_true, Go.isNil, Go.IsNil.isNil, Option.isNone, Bool.not_false]
    refine drove_restart (lt := w.lastTask) (g := true) ctx ⟨henv, rfl, hns1, hfix1, hlt, ?_, rfl, rfl⟩
    rw [← hge]; exact hg
  · have hge' : w.getNextErr = false := by simpa using hge
    have hs : w1.sched .beginStep = ({ w1 with ctxDone := false, pc := .s_lastErr0 }, .unit) := by
      simp [World.sched, hpc, hg, hge']
    simp only [GoSched.beginStep, GoSched.act, hw, hs]
    simp only [mkSched, hge', Bool.false_eq_true, if_false, Go.isNil, Go.IsNil.isNil, Option.isNone, Bool.not_true]
    refine drove_lastErr0 (lt := w.lastTask) ctx ⟨henv, rfl, hns1, hfix1, hlt, ?_, rfl, rfl⟩
    rw [← hge']; exact hg

end Gk.Tie
