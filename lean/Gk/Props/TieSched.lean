/-
Tie theorems, `scheduler/scheduler.go`: `Step` (with `dispatchTask`, `setGetNextResult`) as generated from the CURRENT Go
source (Gk/Gen/Scheduler.lean) drives the program-counter automaton `Gk.World.sched` (Gk/World.lean) — the model that
C03–C06 and C20 are proved about — CORRECTLY, whatever the environment does between two of its calls:

* it never makes a call the automaton does not expect at its program counter (the world never gets `stuck`),
* when the method returns the automaton is back at `idle`,
* the returned `StepState` is the automaton's `ret`,
* Go's private fields `lastTask` / `getNextErr` are the automaton's.

The environment `orc.env k` (applied before the k-th scheduler action) is ANY function on worlds that leaves the
scheduler's own registers alone (`EnvOk`): user mutations, time, completions of work functions, context cancellation
are instances. Faults, the worker's availability and the preferred `select` case are the other fields of `orc`.
-/
import Gk.Gen.Scheduler
namespace Gk.Tie
open Gk Gk.Gen Gk.Gen.Scheduler

/-- the environment never touches the scheduler's registers -/
def EnvOk (env : Nat → World → World) : Prop :=
  ∀ k w, (env k w).pc = w.pc ∧ (env k w).lastTask = w.lastTask ∧ (env k w).getNextErr = w.getNextErr ∧
    (env k w).ret = w.ret ∧ (env k w).fix = w.fix ∧ (env k w).stuck = w.stuck

/-- the Go-shaped scheduler that stands for the world `w` between two calls -/
def mkSched (w : World) (orc : SchedOrc) : GoSched :=
  { w := w, lastTask := w.lastTask.map toGenT,
    getNextErr := if w.getNextErr then some (.other "getNextErr") else none, orc := orc, k := 0 }

/-- the automaton's `ret` in Go's shape -/
def ssGo : SS → GoStepState
  | .zero => .zero
  | .timerUpdateError e => .timerUpdateError (some (goErrS e))
  | .awaitingNext => .awaitingNext none
  | .nextTask (some t) _ => .nextTask (toGenT t) none
  | .nextTask none e => .nextTask default (e.map goErrS)
  | .dispatchErr t e => .dispatchErr (toGenT t) (some (goErrS e))
  | .dispatched id => .dispatched id
  | .taskDone id o ue => .taskDone id (GoSched.outcomeGo o) (ue.map goErrS)

/-- `StateAwaitingNext(ctx.Err())` carries the context's error, which the model does not record -/
def normSt : GoStepState → GoStepState
  | .awaitingNext _ => .awaitingNext none
  | s => s

/-- what "the generated method drove the automaton correctly" means -/
structure Drove (r : GoSched × GoStepState) : Prop where
  not_stuck : r.1.w.stuck = false
  idle : r.1.w.pc = .idle
  ret : normSt r.2 = ssGo r.1.w.ret
  lastTask : r.1.lastTask = r.1.w.lastTask.map toGenT
  getNextErr : r.1.getNextErr.isSome = r.1.w.getNextErr


/-! ### helper lemmas -/

/-- the scheduler's registers at a call boundary: the automaton's and Go's copies agree -/
structure Regs (s : GoSched) (p : Pc) (lt : Option Gk.Task) (g : Bool) : Prop where
  env : EnvOk s.orc.env
  pc : s.w.pc = p
  ns : s.w.stuck = false
  fix : s.w.fix = {}
  wlt : s.w.lastTask = lt
  wgne : s.w.getNextErr = g
  glt : s.lastTask = lt.map toGenT
  ggne : s.getNextErr.isSome = g

theorem Regs.envw {s : GoSched} {p lt g} (h : Regs s p lt g) :
    (s.orc.env s.k s.w).pc = p ∧ (s.orc.env s.k s.w).stuck = false ∧ (s.orc.env s.k s.w).fix = {} ∧
      (s.orc.env s.k s.w).lastTask = lt ∧ (s.orc.env s.k s.w).getNextErr = g := by
  obtain ⟨e1, e2, e3, _, e5, e6⟩ := h.env s.k s.w
  exact ⟨e1.trans h.pc, e6.trans h.ns, e5.trans h.fix, e2.trans h.wlt, e3.trans h.wgne⟩

theorem regs_stop {s : GoSched} {lt g} (h : Regs s .s_stop lt g) :
    Regs (GoSched.repoStopTimer s) .s_start lt g := by
  obtain ⟨hpc, hns, hfix, hlt, hg⟩ := h.envw
  obtain ⟨henv, -, -, -, -, -, hglt, hggne⟩ := h
  simp only [GoSched.repoStopTimer, GoSched.act]
  generalize s.orc.env s.k s.w = w1 at *
  simp only [World.sched, hpc]
  exact ⟨henv, rfl, hns, hfix, hlt, hg, hglt, hggne⟩

theorem regs_start {s : GoSched} {lt g} (ctx : Ctx) (h : Regs s .s_start lt g) :
    Regs (GoSched.repoStartTimer s ctx) .s_lastErr1 lt g := by
  obtain ⟨hpc, hns, hfix, hlt, hg⟩ := h.envw
  obtain ⟨henv, -, -, -, -, -, hglt, hggne⟩ := h
  simp only [GoSched.repoStartTimer, GoSched.act]
  generalize s.orc.env s.k s.w = w1 at *
  simp only [World.sched, hpc]
  exact ⟨henv, rfl, hns, hfix, hlt, hg, hglt, hggne⟩


/-! the tail of `Step` (the translator duplicates it three times), cut into named pieces -/

/-- after `GetNext` succeeded: compare with the hook timer's `NextScheduled` and the clock -/
def nsArm (s : GoSched) (next_ : Def.Task) : GoSched × GoStepState :=
  let (s, nextScheduled, ok) := (GoSched.repoNextScheduled s)
  if (((!ok) || (!((nextScheduled).Equal next_.ScheduledAt))) || ((next_.ScheduledAt).After (GoSched.clockNow s))) then
    let s := (Scheduler.setGetNextResult s (default : Def.Task) ErrScheduleStoppedOrChanged)
    (s, (StateNextTask (default : Def.Task) ErrScheduleStoppedOrChanged))
  else
    let s := (Scheduler.setGetNextResult s next_ Go.nil)
    (s, (StateNextTask next_ Go.nil))

/-- the timer arm of the `select` -/
def timerArm (s : GoSched) (ctx : Ctx) : GoSched × GoStepState :=
  let (s, next_, err) := (GoSched.repoGetNext s ctx)
  if (!(Go.isNil err)) then
    let s := (Scheduler.setGetNextResult s (default : Def.Task) err)
    (s, (StateNextTask (default : Def.Task) err))
  else nsArm s next_

/-- the result arm of the `select` -/
def resultArm (s : GoSched) (ctx : Ctx) (res : GoTaskResult) : GoSched × GoStepState :=
  let err : GoError := default
  if (!(Go.errors_Is res.err Go.context_Canceled)) then
    let (s, err) := (GoSched.repoMarkAsDone s ctx res.beforeDispatch.Id res.err)
    (s, (StateTaskDone res.beforeDispatch.Id res.err err))
  else
    (s, (StateTaskDone res.beforeDispatch.Id res.err err))

/-- the `select` -/
def selTail (s : GoSched) (ctx : Ctx) : GoSched × GoStepState :=
  let (s, selCase) := (GoSched.selectCase s)
  match selCase with
  | .ctxDone => (s, (StateAwaitingNext ((ctx).Err)))
  | .result res => resultArm s ctx res
  | .timer => timerArm s ctx

/-- everything after the restart prologue -/
def stepTail (s : GoSched) (ctx : Ctx) : GoSched × GoStepState :=
  let s := { s with getNextErr := Go.nil }
  if (!(Go.isNil s.lastTask)) then
    let next_ := (s.lastTask).Value
    let s := { s with lastTask := Go.nil }
    (Scheduler.dispatchTask s ctx next_ false)
  else selTail s ctx

/-- look at the timer error after a restart -/
def lastErr1Arm (s : GoSched) (ctx : Ctx) : GoSched × GoStepState :=
  let (s, err) := (GoSched.repoLastTimerUpdateError s)
  if (!(Go.isNil err)) then (s, (StateTimerUpdateError err)) else stepTail s ctx

/-- stop, start, look at the timer error -/
def restartArm (s : GoSched) (ctx : Ctx) : GoSched × GoStepState :=
  let s := (GoSched.repoStopTimer s)
  let s := (GoSched.repoStartTimer s ctx)
  lastErr1Arm s ctx

/-- `getNextErr == nil`: look at the timer error first -/
def lastErr0Arm (s : GoSched) (ctx : Ctx) : GoSched × GoStepState :=
  let (s, hv1) := (GoSched.repoLastTimerUpdateError s)
  if (!(Go.isNil hv1)) then restartArm s ctx else stepTail s ctx

/-- the fetcher closure `dispatchTask` hands to the dispatcher -/
def fetcher (next_ : Def.Task) (isRetry : Bool) : Ctx → GoSched → GoSched × Def.Task × GoError :=
  fun (ctx : Ctx) (s : GoSched) =>
    let err : GoError := default
    if (!isRetry) then
      let (s, err) := (GoSched.repoMarkAsDispatched s ctx next_.Id)
      if (!(Go.isNil err)) then
        (s, (default : Def.Task), err)
      else
        let (s, task, err) := (GoSched.repoGetById s ctx next_.Id)
        if (!(Go.isNil err)) then
          (s, (default : Def.Task), err)
        else
          (s, task, Go.nil)
    else
      if (!(Go.isNil err)) then
        (s, (default : Def.Task), err)
      else
        let (s, task, err) := (GoSched.repoGetById s ctx next_.Id)
        if (!(Go.isNil err)) then
          (s, (default : Def.Task), err)
        else
          (s, task, Go.nil)

theorem dispatchTask_eq (s : GoSched) (ctx : Ctx) (next_ : Def.Task) (isRetry : Bool) :
    Scheduler.dispatchTask s ctx next_ isRetry =
    (let (s, errCh, dispatchErr) := (GoSched.dispatch s ctx (fetcher next_ isRetry))
     if (!(Go.isNil dispatchErr)) then
       let s := { s with getNextErr := dispatchErr }
       (s, (StateDispatchErr next_ dispatchErr))
     else
       let s := (GoSched.reserve s (fun (_ : Unit) =>
           let err := (Go.chanRecv errCh)
           ({ beforeDispatch := next_, err := err } : taskResult)))
       (s, (StateDispatched next_.Id))) := rfl

theorem Step_eq (s : GoSched) (ctx : Ctx) : Scheduler.Step s ctx =
    (let s := GoSched.beginStep s
     if (!(Go.isNil s.getNextErr)) then restartArm s ctx else lastErr0Arm s ctx) := rfl


set_option linter.unusedSimpArgs false

theorem default_goError : (default : GoError) = none := rfl
theorem toGenT_Id (t : Gk.Task) : (toGenT t).Id = t.id := rfl

/-- closes `Drove (s', st)` for explicit `s'`, `st` -/
macro "drove_fin" : tactic => `(tactic| (constructor <;>
  simp [World.finish, Scheduler.setGetNextResult, ErrScheduleStoppedOrChanged, Go.sched_ErrScheduleStoppedOrChanged,
    Go.isNil, Go.IsNil.isNil, Go.nil, Go.addr, StateNextTask, StateTimerUpdateError, StateAwaitingNext,
    StateDispatchErr, StateDispatched, StateTaskDone, GoSched.errOfResp, GoSched.reserve, default_goError, toGenT_Id, normSt, ssGo, *]))

theorem go_cond_eq (ok : Bool) (ns a now : Int) :
    (((!ok) || (!(Int.Equal ns a))) || (Int.After a now)) =
      (!ok || ns != a || !(!true || decide (a ≤ now))) := by
  have : decide (now < a) = !decide (a ≤ now) := by
    by_cases h : a ≤ now
    · simp [h]
    · simp [h]; omega
  cases ok <;> simp [Int.Equal, Int.After, bne, this]

theorem drove_nextSched {s : GoSched} {t : Gk.Task} (h : Regs s (.s_nextSched t) none false) :
    Drove (nsArm s (toGenT t)) := by
  obtain ⟨hpc, hns, hfix, hlt, hg⟩ := h.envw
  obtain ⟨henv, -, -, -, -, -, hglt, hggne⟩ := h
  have hdc : (s.orc.env s.k s.w).fix.dueCheck = true := by rw [hfix]
  have hrc : (s.orc.env s.k s.w).fix.restartOnChanged = true := by rw [hfix]
  obtain ⟨w1, hw⟩ : ∃ w1, s.orc.env s.k s.w = w1 := ⟨_, rfl⟩
  simp only [hw] at hpc hns hfix hlt hg hdc hrc
  by_cases hc : (!w1.obs.nextScheduled.snd || w1.obs.nextScheduled.fst != t.scheduledAt ||
      !(!true || decide (t.scheduledAt ≤ w1.obs.clock.now))) = true
  · have hs : w1.sched .nextScheduled =
        (({ w1 with getNextErr := true }).finish (.nextTask none (some .schedChanged)),
          .nextSched w1.obs.nextScheduled.fst w1.obs.nextScheduled.snd) := by
      simp only [World.sched, hpc, hdc, hrc, if_pos hc]
    simp only [nsArm, GoSched.repoNextScheduled, GoSched.act, hw, hs]
    split
    · drove_fin
    · exact absurd ((go_cond_eq _ _ _ _).trans hc) ‹_›
  · have hs : w1.sched .nextScheduled =
        (({ w1 with lastTask := some t, getNextErr := false }).finish (.nextTask (some t) none),
          .nextSched w1.obs.nextScheduled.fst w1.obs.nextScheduled.snd) := by
      simp only [World.sched, hpc, hdc, hrc, if_neg hc]
    simp only [nsArm, GoSched.repoNextScheduled, GoSched.act, hw, hs]
    split
    · exact absurd ((go_cond_eq _ _ _ _).symm.trans ‹_›) hc
    · drove_fin

theorem drove_timerArm {s : GoSched} (ctx : Ctx) (h : Regs s .s_getNext none false) :
    Drove (timerArm s ctx) := by
  obtain ⟨hpc, hns, hfix, hlt, hg⟩ := h.envw
  obtain ⟨henv, -, -, -, -, -, hglt, hggne⟩ := h
  obtain ⟨w1, hw⟩ : ∃ w1, s.orc.env s.k s.w = w1 := ⟨_, rfl⟩
  simp only [hw] at hpc hns hfix hlt hg
  by_cases hf : s.orc.fGetNext = .none
  · cases hgn : w1.obs.repo.getNext with
    | none =>
      have hs : w1.sched (.getNext s.orc.fGetNext) =
          (({ w1 with lastTask := none, getNextErr := true }).finish (.nextTask none (some .exhausted)),
            .err (some .exhausted)) := by
        simp [World.sched, hpc, hf, hgn]
      simp only [timerArm, GoSched.repoGetNext, GoSched.act, hw, hs]
      drove_fin
    | some t =>
      have hs : w1.sched (.getNext s.orc.fGetNext) = ({ w1 with pc := .s_nextSched t }, .task t) := by
        simp [World.sched, hpc, hf, hgn]
      simp only [timerArm, GoSched.repoGetNext, GoSched.act, hw, hs]
      simp only [Go.isNil, Go.IsNil.isNil, Option.isNone, Bool.not_true, Bool.false_eq_true, if_false]
      exact drove_nextSched ⟨henv, rfl, hns, hfix, hlt, hg, hglt, hggne⟩
  · have hf' : (s.orc.fGetNext != Fault.none) = true := by simp [hf]
    have hs : w1.sched (.getNext s.orc.fGetNext) =
        (({ w1 with lastTask := none, getNextErr := true }).finish (.nextTask none (some .other)),
          .err (some .other)) := by
      simp only [World.sched, hpc, if_pos hf']
    simp only [timerArm, GoSched.repoGetNext, GoSched.act, hw, hs]
    drove_fin

theorem drove_markDone {s : GoSched} {id : String} {o : Outcome} (ctx : Ctx) (id' : String) (e' : GoError)
    (h : Regs s (.s_markDone id o) none false) :
    Drove ((GoSched.repoMarkAsDone s ctx id' e').1,
      StateTaskDone id (GoSched.outcomeGo o) (GoSched.repoMarkAsDone s ctx id' e').2) := by
  obtain ⟨hpc, hns, hfix, hlt, hg⟩ := h.envw
  obtain ⟨henv, -, -, -, -, -, hglt, hggne⟩ := h
  obtain ⟨w1, hw⟩ : ∃ w1, s.orc.env s.k s.w = w1 := ⟨_, rfl⟩
  simp only [hw] at hpc hns hfix hlt hg
  have hs : ∃ w' e, w1.sched (.markDone s.orc.fMarkDone) = (World.finish w' (.taskDone id o e), .err e) ∧
      w'.stuck = false ∧ w'.lastTask = none ∧ w'.getNextErr = false := by
    simp only [World.sched, hpc]
    split
    · exact ⟨_, _, rfl, hns, hlt, hg⟩
    · split
      · exact ⟨_, _, rfl, hns, hlt, hg⟩
      · exact ⟨_, _, rfl, hns, hlt, hg⟩
  obtain ⟨w', e, hs, hns', hlt', hg'⟩ := hs
  simp only [GoSched.repoMarkAsDone, GoSched.act, hw, hs]
  cases e <;> drove_fin

theorem errorsIs_outcome (o : Outcome) :
    Go.errors_Is (GoSched.outcomeGo o) Go.context_Canceled = (o == .ctxCanceled) := by
  cases o with
  | nil => rfl
  | ctxCanceled => decide
  | err m =>
    have h1 : (GoErr.other m == GoErr.sentinel "context canceled") = false := by simp
    have h2 : (Outcome.err m == Outcome.ctxCanceled) = false := by simp
    simp only [GoSched.outcomeGo, Go.errors_Is, Go.context_Canceled, Go.isErr, h1, h2]

theorem drove_selTail {s : GoSched} (ctx : Ctx) (h : Regs s .s_select none false) :
    Drove (selTail s ctx) := by
  obtain ⟨hpc, hns, hfix, hlt, hg⟩ := h.envw
  obtain ⟨henv, -, -, -, -, -, hglt, hggne⟩ := h
  obtain ⟨w1, hw⟩ : ∃ w1, s.orc.env s.k s.w = w1 := ⟨_, rfl⟩
  simp only [hw] at hpc hns hfix hlt hg
  have hctx : w1.sched .selCtx = (w1.finish .awaitingNext, .unit) := by
    simp only [World.sched, hpc]
  by_cases he : GoSched.selEnabled w1 s.orc.sel = true
  · cases hsel : s.orc.sel with
    | selTimer =>
      rw [hsel] at he
      have hp : w1.obs.clock.pending = true := he
      have hs : w1.sched .selTimer =
          ({ w1 with obs := { w1.obs with clock := { w1.obs.clock with pending := false } }, pc := .s_getNext },
            .unit) := by
        simp [World.sched, hpc, Clock.consume, hp]
      simp only [selTail, GoSched.selectCase, hw, hsel, if_pos he, hs]
      exact drove_timerArm ctx ⟨henv, rfl, hns, hfix, hlt, hg, hglt, hggne⟩
    | selResult id =>
      rw [hsel] at he
      obtain ⟨⟨id', o⟩, hfind⟩ := Option.isSome_iff_exists.mp he
      by_cases ho : (o == Outcome.ctxCanceled) = true
      · have hs : ∃ w' : World, w1.sched (.selResult id) = (World.finish w' (.taskDone id o none), .unit) ∧
            w'.stuck = false ∧ w'.lastTask = none ∧ w'.getNextErr = false := by
          simp only [World.sched, hpc, hfind, if_pos ho]
          exact ⟨_, rfl, hns, hlt, hg⟩
        obtain ⟨w', hs, hns', hlt', hg'⟩ := hs
        simp only [selTail, GoSched.selectCase, hw, hsel, if_pos he, hs, hfind, resultArm, errorsIs_outcome, ho]
        drove_fin
      · have ho' : (o == Outcome.ctxCanceled) = false := by simpa using ho
        have hs : ∃ w' : World, w1.sched (.selResult id) = (w', .unit) ∧ w'.pc = .s_markDone id o ∧
            w'.stuck = false ∧ w'.fix = {} ∧ w'.lastTask = none ∧ w'.getNextErr = false := by
          simp only [World.sched, hpc, hfind, if_neg ho]
          exact ⟨_, rfl, rfl, hns, hfix, hlt, hg⟩
        obtain ⟨w', hs, hpc', hns', hfix', hlt', hg'⟩ := hs
        simp only [selTail, GoSched.selectCase, hw, hsel, if_pos he, hs, hfind, resultArm, errorsIs_outcome,
          Option.map_some, Option.getD_some, ho', Bool.not_false, if_true]
        exact drove_markDone ctx _ _ ⟨henv, hpc', hns', hfix', hlt', hg', hglt, hggne⟩
    | _ => simp [GoSched.selEnabled, hsel] at he
  · simp only [selTail, GoSched.selectCase, hw, if_neg he, hctx]
    drove_fin

/-- what the fetcher leaves behind: the automaton has finished, with `dispatchErr` iff the fetcher failed — and then
the automaton has already set its restart request (`finishDE`), which Go's `dispatchTask` sets after `Dispatch` has
returned the error; Go's copy of `getNextErr` is still the one before the call -/
def FetchPost (t : Gk.Task) (lt : Option Gk.Task) (g : Bool) (r : GoSched × Def.Task × GoError) : Prop :=
  r.1.w.stuck = false ∧ r.1.w.pc = .idle ∧ r.1.w.lastTask = lt ∧
    r.1.lastTask = lt.map toGenT ∧ r.1.getNextErr.isSome = g ∧
    ((∃ e, r.2.2 = some (goErrS e) ∧ r.1.w.ret = .dispatchErr t e ∧ r.1.w.getNextErr = true) ∨
      (r.2.2 = none ∧ r.1.w.ret = .dispatched t.id ∧ r.1.w.getNextErr = g))

theorem get_post {s : GoSched} {t : Gk.Task} {lt g} (ctx : Ctx) (id' : String) (h : Regs s (.d_get t) lt g) :
    FetchPost t lt g (GoSched.repoGetById s ctx id') := by
  obtain ⟨hpc, hns, hfix, hlt, hg⟩ := h.envw
  obtain ⟨henv, -, -, -, -, -, hglt, hggne⟩ := h
  obtain ⟨w1, hw⟩ : ∃ w1, s.orc.env s.k s.w = w1 := ⟨_, rfl⟩
  simp only [hw] at hpc hns hfix hlt hg
  have hs : ∃ w' : World,
      ((∃ e, w1.sched (.getById s.orc.fGet) = (w'.finishDE (.dispatchErr t e), .err (some e))) ∨
       (∃ cur, w1.sched (.getById s.orc.fGet) = (w'.finish (.dispatched t.id), .task cur))) ∧
      w'.stuck = false ∧ w'.lastTask = lt ∧ w'.getNextErr = g := by
    simp only [World.sched, hpc]
    split
    · exact ⟨_, .inl ⟨_, rfl⟩, hns, hlt, hg⟩
    · split
      · exact ⟨_, .inl ⟨_, rfl⟩, hns, hlt, hg⟩
      · split
        · exact ⟨_, .inl ⟨_, rfl⟩, hns, hlt, hg⟩
        · exact ⟨_, .inr ⟨_, rfl⟩, hns, hlt, hg⟩
  obtain ⟨w', ⟨e, hs⟩ | ⟨cur, hs⟩, hns', hlt', hg'⟩ := hs
  · simp only [GoSched.repoGetById, GoSched.act, hw, hs]
    exact ⟨hns', rfl, hlt', hglt, hggne, .inl ⟨e, rfl, rfl, rfl⟩⟩
  · simp only [GoSched.repoGetById, GoSched.act, hw, hs]
    exact ⟨hns', rfl, hlt', hglt, hggne, .inr ⟨rfl, rfl, hg'⟩⟩

theorem fetch_post_retry {s : GoSched} {t : Gk.Task} {lt g} (ctx : Ctx) (next_ : Def.Task)
    (h : Regs s (.d_get t) lt g) : FetchPost t lt g (fetcher next_ true ctx s) := by
  have hp := get_post ctx next_.Id h
  simp only [fetcher]
  generalize GoSched.repoGetById s ctx next_.Id = r at hp ⊢
  rcases r with ⟨s3, task, err⟩
  cases err <;> simpa [FetchPost, Go.isNil, Go.IsNil.isNil, Go.nil, default_goError] using hp

theorem fetch_post {s : GoSched} {t : Gk.Task} {lt g} (ctx : Ctx) (next_ : Def.Task)
    (h : Regs s (.d_mark t false) lt g) : FetchPost t lt g (fetcher next_ false ctx s) := by
  obtain ⟨hpc, hns, hfix, hlt, hg⟩ := h.envw
  obtain ⟨henv, -, -, -, -, -, hglt, hggne⟩ := h
  obtain ⟨w1, hw⟩ : ∃ w1, s.orc.env s.k s.w = w1 := ⟨_, rfl⟩
  simp only [hw] at hpc hns hfix hlt hg
  have hs : ∃ w' : World,
      ((∃ e, w1.sched (.markDispatched s.orc.fMark s.orc.hfMark) = (w'.finishDE (.dispatchErr t e), .err (some e))) ∨
       (w1.sched (.markDispatched s.orc.fMark s.orc.hfMark) = (w', .err none) ∧ w'.pc = .d_get t)) ∧
      w'.stuck = false ∧ w'.fix = {} ∧ w'.lastTask = lt ∧ w'.getNextErr = g := by
    simp only [World.sched, hpc]
    split
    · exact ⟨_, .inl ⟨_, rfl⟩, hns, hfix, hlt, hg⟩
    · split
      · exact ⟨_, .inl ⟨_, rfl⟩, hns, hfix, hlt, hg⟩
      · split
        · exact ⟨_, .inl ⟨_, rfl⟩, hns, hfix, hlt, hg⟩
        · exact ⟨_, .inr ⟨rfl, rfl⟩, hns, hfix, hlt, hg⟩
  obtain ⟨w', ⟨e, hs⟩ | ⟨hs, hpc'⟩, hns', hfix', hlt', hg'⟩ := hs
  · simp only [fetcher, GoSched.repoMarkAsDispatched, GoSched.act, hw, hs]
    exact ⟨hns', rfl, hlt', hglt, hggne, .inl ⟨e, rfl, rfl, rfl⟩⟩
  · simp only [fetcher, GoSched.repoMarkAsDispatched, GoSched.act, hw, hs]
    have hp : FetchPost t lt g (GoSched.repoGetById ⟨w', s.lastTask, s.getNextErr, s.orc, s.k + 1, s.reserved⟩ ctx
        next_.Id) := get_post ctx _ ⟨henv, hpc', hns', hfix', hlt', hg', hglt, hggne⟩
    generalize GoSched.repoGetById _ ctx next_.Id = r at hp ⊢
    rcases r with ⟨s3, task, err⟩
    cases err <;> simpa [FetchPost, GoSched.errOfResp, Go.isNil, Go.IsNil.isNil, Go.nil] using hp

/-- what `dispatchTask` leaves behind: the automaton finished with `dispatchErr t e` / `dispatched t.id`, Go returns
`StateDispatchErr next_ e` / `StateDispatched next_.Id`; after a failure BOTH have set the restart request (D21), after a
success both have left it alone -/
def DispPost (t : Gk.Task) (next_ : Def.Task) (lt : Option Gk.Task) (g : Bool) (r : GoSched × GoStepState) : Prop :=
  r.1.w.stuck = false ∧ r.1.w.pc = .idle ∧ r.1.w.lastTask = lt ∧ r.1.lastTask = lt.map toGenT ∧
    ((∃ e, r.2 = .dispatchErr next_ (some (goErrS e)) ∧ r.1.w.ret = .dispatchErr t e ∧
        r.1.w.getNextErr = true ∧ r.1.getNextErr.isSome = true) ∨
      (r.2 = .dispatched next_.Id ∧ r.1.w.ret = .dispatched t.id ∧
        r.1.w.getNextErr = g ∧ r.1.getNextErr.isSome = g))

theorem dispatch_post {s : GoSched} {t : Gk.Task} {retry : Bool} {lt g} (ctx : Ctx) (next_ : Def.Task)
    (h : Regs s (.d_wait t retry) lt g) : DispPost t next_ lt g (Scheduler.dispatchTask s ctx next_ retry) := by
  obtain ⟨hpc, hns, hfix, hlt, hg⟩ := h.envw
  obtain ⟨henv, -, -, -, -, -, hglt, hggne⟩ := h
  obtain ⟨w1, hw⟩ : ∃ w1, s.orc.env s.k s.w = w1 := ⟨_, rfl⟩
  simp only [hw] at hpc hns hfix hlt hg
  rw [dispatchTask_eq]
  by_cases hacq : s.orc.acquired = true
  · have hp : ∃ w' : World, w1.sched (.waitWorker s.orc.acquired) = (w', .unit) ∧
        FetchPost t lt g (fetcher next_ retry ctx ⟨w', s.lastTask, s.getNextErr, s.orc, s.k + 1, s.reserved⟩) := by
      cases retry with
      | false =>
        refine ⟨{ w1 with pc := .d_mark t false }, by simp [World.sched, hpc, hacq], ?_⟩
        exact fetch_post ctx next_ ⟨henv, rfl, hns, hfix, hlt, hg, hglt, hggne⟩
      | true =>
        refine ⟨{ w1 with pc := .d_get t }, by simp [World.sched, hpc, hacq], ?_⟩
        exact fetch_post_retry ctx next_ ⟨henv, rfl, hns, hfix, hlt, hg, hglt, hggne⟩
    obtain ⟨w', hs, hp⟩ := hp
    simp only [GoSched.dispatch, GoSched.act, hw, hs]
    generalize fetcher next_ retry ctx _ = r at hp ⊢
    rcases r with ⟨s3, task, err⟩
    obtain ⟨h1, h2, h3, h5, h6, ⟨e, h7, h8, h4⟩ | ⟨h7, h8, h4⟩⟩ := hp
    · simp only at h1 h2 h3 h4 h5 h6 h7 h8
      subst h7
      refine ⟨?_, ?_, ?_, ?_, .inl ⟨e, ?_, ?_, ?_, ?_⟩⟩ <;>
        simp [Go.isNil, Go.IsNil.isNil, StateDispatchErr, *]
    · simp only at h1 h2 h3 h4 h5 h6 h7 h8
      subst h7
      refine ⟨?_, ?_, ?_, ?_, .inr ⟨?_, ?_, ?_, ?_⟩⟩ <;>
        simp [Go.isNil, Go.IsNil.isNil, StateDispatched, GoSched.reserve, *]
  · have hacq' : s.orc.acquired = false := by simpa using hacq
    have hs : w1.sched (.waitWorker s.orc.acquired) = (w1.finishDE (.dispatchErr t .ctx), .err (some .ctx)) := by
      simp [World.sched, hpc, hacq']
    simp only [GoSched.dispatch, GoSched.act, hw, hs]
    refine ⟨?_, ?_, ?_, ?_, .inl ⟨.ctx, ?_, ?_, ?_, ?_⟩⟩ <;>
      simp [Go.isNil, Go.IsNil.isNil, StateDispatchErr, GoSched.errOfResp, World.finishDE, World.finish, *]

theorem drove_dispatch {s : GoSched} {t : Gk.Task} (ctx : Ctx) (h : Regs s (.d_wait t false) none false) :
    Drove (Scheduler.dispatchTask s ctx (toGenT t) false) := by
  have hp := dispatch_post ctx (toGenT t) h
  generalize Scheduler.dispatchTask s ctx (toGenT t) false = r at hp ⊢
  rcases r with ⟨s', st⟩
  obtain ⟨h1, h2, h3, h5, ⟨e, h7, h8, h4, h6⟩ | ⟨h7, h8, h4, h6⟩⟩ := hp
  · simp only at h1 h2 h3 h4 h5 h6 h7 h8
    subst h7
    drove_fin
  · simp only at h1 h2 h3 h4 h5 h6 h7 h8
    subst h7
    drove_fin

theorem drove_stepTail {s : GoSched} {w0 : World} (ctx : Ctx) (hw : s.w = w0.afterPrologue)
    (henv : EnvOk s.orc.env) (hns : w0.stuck = false) (hfix : w0.fix = {})
    (hglt : s.lastTask = w0.lastTask.map toGenT) : Drove (stepTail s ctx) := by
  rcases s with ⟨w, lt, gne, orc, k, res⟩
  simp only at hw hglt henv
  subst hw hglt
  cases hl : w0.lastTask with
  | none =>
    simp only [stepTail, hl, Option.map, Go.isNil, Go.IsNil.isNil, Option.isNone, Bool.not_true,
      Bool.false_eq_true, if_false]
    refine drove_selTail ctx ⟨henv, ?_, ?_, ?_, ?_, ?_, rfl, rfl⟩ <;> simp [World.afterPrologue, hl, hns, hfix]
  | some t =>
    simp only [stepTail, hl, Option.map, Go.isNil, Go.IsNil.isNil, Option.isNone, Bool.not_false, if_true,
      Option.Value, Option.getD]
    refine drove_dispatch ctx ⟨henv, ?_, ?_, ?_, ?_, ?_, rfl, rfl⟩ <;> simp [World.afterPrologue, hl, hns, hfix]

theorem drove_lastErr1 {s : GoSched} {lt : Option Gk.Task} {g : Bool} (ctx : Ctx)
    (h : Regs s .s_lastErr1 lt g) : Drove (lastErr1Arm s ctx) := by
  obtain ⟨hpc, hns, hfix, hlt, hg⟩ := h.envw
  obtain ⟨henv, -, -, -, -, -, hglt, hggne⟩ := h
  obtain ⟨w1, hw⟩ : ∃ w1, s.orc.env s.k s.w = w1 := ⟨_, rfl⟩
  simp only [hw] at hpc hns hfix hlt hg
  cases hle : w1.obs.hook.lastErr with
  | some e =>
    have hs : w1.sched .lastTimerErr = (w1.finish (.timerUpdateError e), .err (some e)) := by
      simp only [World.sched, hpc, hle]
    simp only [lastErr1Arm, GoSched.repoLastTimerUpdateError, GoSched.act, hw, hs]
    drove_fin
  | none =>
    have hs : w1.sched .lastTimerErr = (w1.afterPrologue, .err none) := by
      simp only [World.sched, hpc, hle]
    simp only [lastErr1Arm, GoSched.repoLastTimerUpdateError, GoSched.act, hw, hs, GoSched.errOfResp,
      Go.isNil, Go.IsNil.isNil, Option.isNone, Bool.not_true, Bool.false_eq_true, if_false]
    exact drove_stepTail (w0 := w1) ctx rfl henv hns hfix (by rw [hlt]; exact hglt)

theorem drove_restart {s : GoSched} {lt : Option Gk.Task} {g : Bool} (ctx : Ctx)
    (h : Regs s .s_stop lt g) : Drove (restartArm s ctx) :=
  drove_lastErr1 ctx (regs_start ctx (regs_stop h))

theorem drove_lastErr0 {s : GoSched} {lt : Option Gk.Task} (ctx : Ctx)
    (h : Regs s .s_lastErr0 lt false) : Drove (lastErr0Arm s ctx) := by
  obtain ⟨hpc, hns, hfix, hlt, hg⟩ := h.envw
  obtain ⟨henv, -, -, -, -, -, hglt, hggne⟩ := h
  obtain ⟨w1, hw⟩ : ∃ w1, s.orc.env s.k s.w = w1 := ⟨_, rfl⟩
  simp only [hw] at hpc hns hfix hlt hg
  cases hle : w1.obs.hook.lastErr with
  | some e =>
    have hs : w1.sched .lastTimerErr = ({ w1 with pc := .s_stop }, .err (some e)) := by
      simp [World.sched, hpc, hle]
    simp only [lastErr0Arm, GoSched.repoLastTimerUpdateError, GoSched.act, hw, hs, GoSched.errOfResp,
      Go.isNil, Go.IsNil.isNil, Option.isNone, Bool.not_false, if_true]
    exact drove_restart ctx ⟨henv, rfl, hns, hfix, hlt, hg, hglt, hggne⟩
  | none =>
    have hs : w1.sched .lastTimerErr = (w1.afterPrologue, .err none) := by
      simp [World.sched, hpc, hle]
    simp only [lastErr0Arm, GoSched.repoLastTimerUpdateError, GoSched.act, hw, hs, GoSched.errOfResp,
      Go.isNil, Go.IsNil.isNil, Option.isNone, Bool.not_true, Bool.false_eq_true, if_false]
    exact drove_stepTail (w0 := w1) ctx rfl henv hns hfix (by rw [hlt]; exact hglt)

theorem tie_sched_Step (w : World) (orc : SchedOrc) (ctx : Ctx)
    (hidle : w.pc = .idle) (hns : w.stuck = false) (hfix : w.fix = {}) (henv : EnvOk orc.env) :
    Drove (Scheduler.Step (mkSched w orc) ctx) := by
  have h : Regs (mkSched w orc) .idle w.lastTask w.getNextErr :=
    ⟨henv, hidle, hns, hfix, rfl, rfl, rfl, by simp only [mkSched]; cases w.getNextErr <;> rfl⟩
  obtain ⟨hpc, hns1, hfix1, hlt, hg⟩ := h.envw
  obtain ⟨-, -, -, -, -, -, hglt, hggne⟩ := h
  obtain ⟨w1, hw⟩ : ∃ w1, (mkSched w orc).orc.env (mkSched w orc).k (mkSched w orc).w = w1 := ⟨_, rfl⟩
  simp only [hw] at hpc hns1 hfix1 hlt hg
  rw [Step_eq]
  by_cases hge : w.getNextErr = true
  · have hs : w1.sched .beginStep = ({ w1 with ctxDone := false, pc := .s_stop }, .unit) := by
      simp [World.sched, hpc, hg, hge]
    simp only [GoSched.beginStep, GoSched.act, hw, hs]
    simp only [mkSched, hge, if_true, Go.isNil, Go.IsNil.isNil, Option.isNone, Bool.not_false]
    refine drove_restart (lt := w.lastTask) (g := true) ctx ⟨henv, rfl, hns1, hfix1, hlt, ?_, rfl, rfl⟩
    rw [← hge]; exact hg
  · have hge' : w.getNextErr = false := by simpa using hge
    have hs : w1.sched .beginStep = ({ w1 with ctxDone := false, pc := .s_lastErr0 }, .unit) := by
      simp [World.sched, hpc, hg, hge']
    simp only [GoSched.beginStep, GoSched.act, hw, hs]
    simp only [mkSched, hge', Bool.false_eq_true, if_false, Go.isNil, Go.IsNil.isNil, Option.isNone, Bool.not_true]
    refine drove_lastErr0 (lt := w.lastTask) ctx ⟨henv, rfl, hns1, hfix1, hlt, ?_, rfl, rfl⟩
    rw [← hge']; exact hg

/-- what "the generated `Retry` drove the automaton correctly" means; `retryErr` is "the new state carries an error" -/
structure DroveRetry (r : GoSched × GoStepState × Bool) : Prop where
  not_stuck : r.1.w.stuck = false
  idle : r.1.w.pc = .idle
  ret : normSt r.2.1 = ssGo r.1.w.ret
  retryErr : r.2.2 = r.1.w.ret.err.isSome
  lastTask : r.1.lastTask = r.1.w.lastTask.map toGenT
  getNextErr : r.1.getNextErr.isSome = r.1.w.getNextErr

/-! ### `Retry` -/

/-- the tail `if err != nil { retryErr = true }; return` of `Retry` -/
def retryRet (s : GoSched) (state : GoStepState) (err : GoError) : GoSched × GoStepState × Bool :=
  if (!(Go.isNil err)) then (s, state, true) else (s, state, (default : Bool))

/-- `Retry`, arm `TimerUpdateError`: look at the timer error after the restart -/
def retryLastErrArm (s : GoSched) : GoSched × GoStepState × Bool :=
  let (s, err) := (GoSched.repoLastTimerUpdateError s)
  if (!(Go.isNil err)) then retryRet s (StateTimerUpdateError err) err
  else retryRet s default Go.nil

/-- `Retry`, arm `TimerUpdateError` (after `beginRetry`) -/
def retryTimerArm (s : GoSched) (ctx : Ctx) : GoSched × GoStepState × Bool :=
  let s := (GoSched.repoStopTimer s)
  let s := (GoSched.repoStartTimer s ctx)
  retryLastErrArm s

/-- `Retry`, arm `DispatchErr`: the call of `dispatchTask` and the return -/
def retryDispTail (s : GoSched) (ctx : Ctx) (task fetched : Def.Task) (err : GoError) :
    GoSched × GoStepState × Bool :=
  let (s, callRes) := (Scheduler.dispatchTask s ctx task ((Go.isNil err) && (fetched.State == Def.TaskDispatched)))
  retryRet s callRes callRes.Err

/-- `Retry`, arm `DispatchErr` (after `beginRetry`) -/
def retryDispArm (s : GoSched) (ctx : Ctx) (task : Def.Task) : GoSched × GoStepState × Bool :=
  let (s, fetched, err) := (GoSched.repoGetById s ctx task.Id)
  if ((!(Go.isNil err)) && (!(Go.def_IsDefError err))) then retryRet s (StateDispatchErr task err) err
  else
    if (!(Go.isNil err)) then retryDispTail s ctx fetched fetched err
    else retryDispTail s ctx task fetched err

/-- `Retry`, arm `TaskDone` (after `beginRetry`) -/
def retryDoneArm (s : GoSched) (ctx : Ctx) (id : String) (taskErr : GoError) : GoSched × GoStepState × Bool :=
  let (s, err) := (GoSched.repoMarkAsDone s ctx id taskErr)
  if ((!(Go.isNil err)) && (!(Go.def_IsAlreadyDone err))) then retryRet s (StateTaskDone id taskErr err) err
  else retryRet s default Go.nil

theorem Retry_timer (s : GoSched) (ctx : Ctx) (e : GoError) :
    Scheduler.Retry s ctx (.timerUpdateError e) = retryTimerArm (GoSched.beginRetry s) ctx := rfl
theorem Retry_awaiting (s : GoSched) (ctx : Ctx) (e : GoError) :
    Scheduler.Retry s ctx (.awaitingNext e) = (GoSched.beginRetry s, .zero, false) := rfl
theorem Retry_nextTask (s : GoSched) (ctx : Ctx) (t : Def.Task) (e : GoError) :
    Scheduler.Retry s ctx (.nextTask t e) = (GoSched.beginRetry s, .zero, false) := rfl
theorem Retry_dispatched (s : GoSched) (ctx : Ctx) (id : String) :
    Scheduler.Retry s ctx (.dispatched id) = (GoSched.beginRetry s, .zero, false) := rfl
theorem Retry_done (s : GoSched) (ctx : Ctx) (id : String) (te ue : GoError) :
    Scheduler.Retry s ctx (.taskDone id te ue) = retryDoneArm (GoSched.beginRetry s) ctx id te := rfl
theorem Retry_disp (s : GoSched) (ctx : Ctx) (task : Def.Task) (e : GoError) :
    Scheduler.Retry s ctx (.dispatchErr task e) = retryDispArm (GoSched.beginRetry s) ctx task := rfl

/-- (1) Go's `def.IsDefError` on the error classes is the model's `isDefError` -/
theorem isDefError_go (e : Err) : Go.def_IsDefError (some (goErrS e)) = World.isDefError e := by
  cases e <;> simp [Go.def_IsDefError, Go.isDefErr, goErrS, World.isDefError]

theorem alreadyDone_go (e : Option Err) :
    ((!(Go.isNil (GoSched.errOfResp (.err e)))) && (!(Go.def_IsAlreadyDone (GoSched.errOfResp (.err e))))) =
      (e.isSome && e != some .alreadyDone) := by
  cases e with
  | none => rfl
  | some e =>
    cases e <;> simp [GoSched.errOfResp, Go.isNil, Go.IsNil.isNil, Go.def_IsAlreadyDone, Go.def_IsRepositoryErr,
      Go.isRepositoryErr, goErrS]

theorem state_go (t : Gk.Task) : ((toGenT t).State == Def.TaskDispatched) = (t.state == .dispatched) := by
  cases t with
  | mk id workId priority state =>
    cases state <;> simp [toGenT, St.name, Def.TaskDispatched]

/-- (2) the zero task of the model is NOT Go's zero `def.Task`: the State differs -/
theorem toGenT_zeroTask : toGenT World.zeroTask = { (default : Def.Task) with State := "scheduled" } := rfl
theorem toGenT_zeroTask_ne : toGenT World.zeroTask ≠ (default : Def.Task) := by
  intro h
  have := congrArg Def.Task.State h
  simp [toGenT_zeroTask] at this
  revert this
  decide

/-- `DroveRetry` with the `ret` clause weakened by exactly the mismatch (2): on the unknown-id path of the `DispatchErr`
arm Go reports the failed dispatch with the zero `def.Task` (`State = ""`), the automaton with `World.zeroTask`
(`State = "scheduled"`); everything else of the two states (constructor, error class) agrees. `w0` is the world before
the call. -/
structure DroveRetryP (w0 : World) (r : GoSched × GoStepState × Bool) : Prop where
  not_stuck : r.1.w.stuck = false
  idle : r.1.w.pc = .idle
  ret : normSt r.2.1 = ssGo r.1.w.ret ∨
    ((∃ t e0, w0.ret = .dispatchErr t e0) ∧
      ∃ e, r.2.1 = .dispatchErr default (some (goErrS e)) ∧ r.1.w.ret = .dispatchErr World.zeroTask e)
  retryErr : r.2.2 = r.1.w.ret.err.isSome
  lastTask : r.1.lastTask = r.1.w.lastTask.map toGenT
  getNextErr : r.1.getNextErr.isSome = r.1.w.getNextErr

theorem DroveRetry.toP {r : GoSched × GoStepState × Bool} (w0 : World) (h : DroveRetry r) : DroveRetryP w0 r :=
  ⟨h.not_stuck, h.idle, .inl h.ret, h.retryErr, h.lastTask, h.getNextErr⟩

theorem default_stepState : (default : GoStepState) = .zero := rfl
theorem default_bool : (default : Bool) = false := rfl

/-- closes `DroveRetry (s', st, b)` for explicit `s'`, `st`, `b` -/
macro "droveR_fin" : tactic => `(tactic| (constructor <;>
  simp [World.finish, retryRet, SS.err, Go.isNil, Go.IsNil.isNil, Go.nil, StateTimerUpdateError, StateDispatchErr,
    StateDispatched, StateTaskDone, GoSched.errOfResp, default_goError, default_stepState, default_bool, toGenT_Id,
    normSt, ssGo, *]))

theorem regs_rstop {s : GoSched} {lt g} (h : Regs s .r_stop lt g) :
    Regs (GoSched.repoStopTimer s) .r_start lt g := by
  obtain ⟨hpc, hns, hfix, hlt, hg⟩ := h.envw
  obtain ⟨henv, -, -, -, -, -, hglt, hggne⟩ := h
  simp only [GoSched.repoStopTimer, GoSched.act]
  generalize s.orc.env s.k s.w = w1 at *
  simp only [World.sched, hpc]
  exact ⟨henv, rfl, hns, hfix, hlt, hg, hglt, hggne⟩

theorem regs_rstart {s : GoSched} {lt g} (ctx : Ctx) (h : Regs s .r_start lt g) :
    Regs (GoSched.repoStartTimer s ctx) .r_lastErr lt g := by
  obtain ⟨hpc, hns, hfix, hlt, hg⟩ := h.envw
  obtain ⟨henv, -, -, -, -, -, hglt, hggne⟩ := h
  simp only [GoSched.repoStartTimer, GoSched.act]
  generalize s.orc.env s.k s.w = w1 at *
  simp only [World.sched, hpc]
  exact ⟨henv, rfl, hns, hfix, hlt, hg, hglt, hggne⟩

theorem droveR_lastErr {s : GoSched} {lt g} (h : Regs s .r_lastErr lt g) : DroveRetry (retryLastErrArm s) := by
  obtain ⟨hpc, hns, hfix, hlt, hg⟩ := h.envw
  obtain ⟨henv, -, -, -, -, -, hglt, hggne⟩ := h
  obtain ⟨w1, hw⟩ : ∃ w1, s.orc.env s.k s.w = w1 := ⟨_, rfl⟩
  simp only [hw] at hpc hns hfix hlt hg
  cases hle : w1.obs.hook.lastErr with
  | some e =>
    have hs : w1.sched .lastTimerErr = (w1.finish (.timerUpdateError e), .err (some e)) := by
      simp only [World.sched, hpc, hle]
    simp only [retryLastErrArm, GoSched.repoLastTimerUpdateError, GoSched.act, hw, hs]
    droveR_fin
  | none =>
    have hs : w1.sched .lastTimerErr = (w1.finish .zero, .err none) := by
      simp only [World.sched, hpc, hle]
    simp only [retryLastErrArm, GoSched.repoLastTimerUpdateError, GoSched.act, hw, hs]
    droveR_fin

theorem droveR_timer {s : GoSched} {lt g} (ctx : Ctx) (h : Regs s .r_stop lt g) :
    DroveRetry (retryTimerArm s ctx) :=
  droveR_lastErr (regs_rstart ctx (regs_rstop h))

theorem droveR_done {s : GoSched} {id : String} {o : Outcome} {lt g} (ctx : Ctx)
    (h : Regs s (.r_markDone id o) lt g) : DroveRetry (retryDoneArm s ctx id (GoSched.outcomeGo o)) := by
  obtain ⟨hpc, hns, hfix, hlt, hg⟩ := h.envw
  obtain ⟨henv, -, -, -, -, -, hglt, hggne⟩ := h
  obtain ⟨w1, hw⟩ : ∃ w1, s.orc.env s.k s.w = w1 := ⟨_, rfl⟩
  simp only [hw] at hpc hns hfix hlt hg
  have hs : ∃ (w' : World) (e : Option Err),
      ((w1.sched (.markDone s.orc.fMarkDone) = (w'.finish (.taskDone id o e), .err e) ∧
          (e.isSome && e != some .alreadyDone) = true) ∨
       (w1.sched (.markDone s.orc.fMarkDone) = (w'.finish .zero, .err e) ∧
          ¬ (e.isSome && e != some .alreadyDone) = true)) ∧
      w'.stuck = false ∧ w'.lastTask = lt ∧ w'.getNextErr = g := by
    simp only [World.sched, hpc]
    repeat' split
    all_goals first
      | exact ⟨_, _, .inl ⟨rfl, by decide⟩, hns, hlt, hg⟩
      | exact ⟨_, _, .inr ⟨rfl, by decide⟩, hns, hlt, hg⟩
      | exact ⟨_, _, .inl ⟨rfl, ‹_›⟩, hns, hlt, hg⟩
      | exact ⟨_, _, .inr ⟨rfl, ‹_›⟩, hns, hlt, hg⟩
  obtain ⟨w', e, ⟨hs, he⟩ | ⟨hs, he⟩, hns', hlt', hg'⟩ := hs
  · simp only [retryDoneArm, GoSched.repoMarkAsDone, GoSched.act, hw, hs, alreadyDone_go, he, if_true]
    cases e with
    | none => simp at he
    | some e => droveR_fin
  · have he' : (e.isSome && e != some .alreadyDone) = false := by simpa using he
    simp only [retryDoneArm, GoSched.repoMarkAsDone, GoSched.act, hw, hs, alreadyDone_go, he', Bool.false_eq_true,
      if_false]
    droveR_fin

/-- the return of the `DispatchErr` arm after `dispatchTask`, known task -/
theorem droveR_dispTail {t : Gk.Task} {lt g} {r : GoSched × GoStepState} (hp : DispPost t (toGenT t) lt g r) :
    DroveRetry (r.1, r.2, (retryRet r.1 r.2 r.2.Err).2.2) := by
  rcases r with ⟨s', st⟩
  obtain ⟨h1, h2, h3, h5, ⟨e, h7, h8, h4, h6⟩ | ⟨h7, h8, h4, h6⟩⟩ := hp
  · simp only at h1 h2 h3 h4 h5 h6 h7 h8
    subst h7
    constructor <;> simp [retryRet, GoStepState.Err, SS.err, Go.isNil, Go.IsNil.isNil, normSt, ssGo, *]
  · simp only at h1 h2 h3 h4 h5 h6 h7 h8
    subst h7
    constructor <;> simp [retryRet, GoStepState.Err, SS.err, Go.isNil, Go.IsNil.isNil, default_bool, toGenT_Id,
      normSt, ssGo, *]

theorem retryRet_eq (s : GoSched) (st : GoStepState) (e : GoError) :
    retryRet s st e = (s, st, (retryRet s st e).2.2) := by
  unfold retryRet; split <;> rfl

theorem droveR_disp {s : GoSched} {t : Gk.Task} {lt g} (w0 : World) (ctx : Ctx)
    (hd : ∃ t e0, w0.ret = .dispatchErr t e0) (h : Regs s (.r_getById t) lt g) :
    DroveRetryP w0 (retryDispArm s ctx (toGenT t)) := by
  obtain ⟨hpc, hns, hfix, hlt, hg⟩ := h.envw
  obtain ⟨henv, -, -, -, -, -, hglt, hggne⟩ := h
  have hrm : (s.orc.env s.k s.w).fix.retryMarks = true := by rw [hfix]
  obtain ⟨w1, hw⟩ : ∃ w1, s.orc.env s.k s.w = w1 := ⟨_, rfl⟩
  simp only [hw] at hpc hns hfix hlt hg hrm
  have hs : ∃ w' : World,
      ((∃ e, w1.sched (.getById s.orc.fGet) = (w'.finish (.dispatchErr t e), .err (some e)) ∧
          World.isDefError e = false) ∨
       (w1.sched (.getById s.orc.fGet) = (w', .err (some .idNotFound)) ∧ w'.pc = .d_wait World.zeroTask false) ∨
       (∃ cur, w1.sched (.getById s.orc.fGet) = (w', .task cur) ∧ w'.pc = .d_wait t (cur.state == .dispatched))) ∧
      w'.stuck = false ∧ w'.fix = {} ∧ w'.lastTask = lt ∧ w'.getNextErr = g := by
    simp only [World.sched, hpc, hrm]
    split
    · exact ⟨_, .inl ⟨_, rfl, rfl⟩, hns, hfix, hlt, hg⟩
    · split
      · exact ⟨_, .inl ⟨_, rfl, rfl⟩, hns, hfix, hlt, hg⟩
      · split
        · exact ⟨_, .inr (.inl ⟨rfl, rfl⟩), hns, hfix, hlt, hg⟩
        · exact ⟨_, .inr (.inr ⟨_, rfl, rfl⟩), hns, hfix, hlt, hg⟩
  obtain ⟨w', ⟨e, hs, hde⟩ | ⟨hs, hpc'⟩ | ⟨cur, hs, hpc'⟩, hns', hfix', hlt', hg'⟩ := hs
  · simp only [retryDispArm, GoSched.repoGetById, GoSched.act, hw, hs, GoSched.errOfResp, isDefError_go, hde,
      Go.isNil, Go.IsNil.isNil, Option.isNone, Bool.not_false, Bool.and_self, if_true]
    exact DroveRetry.toP w0 (by droveR_fin)
  · have hp : DispPost World.zeroTask default lt g (Scheduler.dispatchTask
        ⟨w', s.lastTask, s.getNextErr, s.orc, s.k + 1, s.reserved⟩ ctx default false) :=
      dispatch_post ctx default ⟨henv, hpc', hns', hfix', hlt', hg', hglt, hggne⟩
    simp only [retryDispArm, retryDispTail, GoSched.repoGetById, GoSched.act, hw, hs, GoSched.errOfResp,
      isDefError_go, World.isDefError, Go.isNil, Go.IsNil.isNil, Option.isNone, Bool.not_false, Bool.not_true,
      Bool.and_false, Bool.false_and, Bool.false_eq_true, if_false, if_true]
    generalize Scheduler.dispatchTask _ ctx default false = r at hp ⊢
    rcases r with ⟨s', st⟩
    obtain ⟨h1, h2, h3, h5, ⟨e, h7, h8, h4, h6⟩ | ⟨h7, h8, h4, h6⟩⟩ := hp
    · simp only at h1 h2 h3 h4 h5 h6 h7 h8
      subst h7
      refine ⟨?_, ?_, .inr ⟨hd, e, ?_, ?_⟩, ?_, ?_, ?_⟩ <;>
        simp [retryRet, GoStepState.Err, SS.err, Go.isNil, Go.IsNil.isNil, *]
    · simp only at h1 h2 h3 h4 h5 h6 h7 h8
      subst h7
      refine ⟨?_, ?_, .inl ?_, ?_, ?_, ?_⟩ <;>
        simp [retryRet, GoStepState.Err, SS.err, Go.isNil, Go.IsNil.isNil, default_bool, normSt, ssGo, *] <;> rfl
  · have hp : DispPost t (toGenT t) lt g (Scheduler.dispatchTask
        ⟨w', s.lastTask, s.getNextErr, s.orc, s.k + 1, s.reserved⟩ ctx (toGenT t) (cur.state == .dispatched)) :=
      dispatch_post ctx (toGenT t) ⟨henv, hpc', hns', hfix', hlt', hg', hglt, hggne⟩
    simp only [retryDispArm, retryDispTail, GoSched.repoGetById, GoSched.act, hw, hs, state_go,
      Go.isNil, Go.IsNil.isNil, Option.isNone, Bool.not_true, Bool.true_and,
      Bool.and_false, Bool.false_and, Bool.false_eq_true, if_false]
    generalize Scheduler.dispatchTask _ ctx (toGenT t) (cur.state == .dispatched) = r at hp ⊢
    rw [retryRet_eq]
    exact DroveRetry.toP w0 (droveR_dispTail hp)

/-- `Retry(prev)` where `prev` is the state the last call returned (the driver discipline of DESIGN 13.3; `Match` panics
on the zero `StepState`, which no call returns to a driver that starts with `Step`).

The ORIGINAL statement is FALSE (see `tie_sched_Retry_false` below):

  theorem tie_sched_Retry (w : World) (orc : SchedOrc) (ctx : Ctx) (prev : GoStepState)
      (hidle : w.pc = .idle) (hns : w.stuck = false) (hfix : w.fix = {}) (henv : EnvOk orc.env)
      (hprev : normSt prev = ssGo w.ret) (hnz : w.ret ≠ .zero)
      (hlt : (mkSched w orc).lastTask = w.lastTask.map toGenT) :
      DroveRetry (Scheduler.Retry (mkSched w orc) ctx prev)

Path: `w.ret = dispatchErr t e0`, `GetById(t.id)` answers `id_not_found` (a def error, so Go goes on with
`task = fetched` = the zero `def.Task`, the automaton with `World.zeroTask`), and the dispatch then fails (no worker /
`MarkAsDispatched("")` fails): Go returns `StateDispatchErr(def.Task{}, err)`, the automaton's `ret` is
`dispatchErr zeroTask e` and `toGenT zeroTask` has `State = "scheduled"`, not `""` (`toGenT_zeroTask`). All other clauses
of `DroveRetry` hold on every path, and `ret` holds on every other path; that is `DroveRetryP`. -/
theorem tie_sched_Retry_partial (w : World) (orc : SchedOrc) (ctx : Ctx) (prev : GoStepState)
    (hidle : w.pc = .idle) (hns : w.stuck = false) (hfix : w.fix = {}) (henv : EnvOk orc.env)
    (hprev : normSt prev = ssGo w.ret) (hnz : w.ret ≠ .zero)
    (_hlt : (mkSched w orc).lastTask = w.lastTask.map toGenT) :
    DroveRetryP w (Scheduler.Retry (mkSched w orc) ctx prev) := by
  have h : Regs (mkSched w orc) .idle w.lastTask w.getNextErr :=
    ⟨henv, hidle, hns, hfix, rfl, rfl, rfl, by simp only [mkSched]; cases w.getNextErr <;> rfl⟩
  obtain ⟨hpc, hns1, hfix1, hlt, hg⟩ := h.envw
  have hret : ((mkSched w orc).orc.env (mkSched w orc).k (mkSched w orc).w).ret = w.ret := (henv 0 w).2.2.2.1
  obtain ⟨-, -, -, -, -, -, hglt, hggne⟩ := h
  obtain ⟨w1, hw⟩ : ∃ w1, (mkSched w orc).orc.env (mkSched w orc).k (mkSched w orc).w = w1 := ⟨_, rfl⟩
  simp only [hw] at hpc hns1 hfix1 hlt hg hret
  have hzero : ∀ r : SS, w1.ret = r → (∀ e, r ≠ .timerUpdateError e) → (∀ t e, r ≠ .dispatchErr t e) →
      (∀ id o e, r ≠ .taskDone id o e) →
      DroveRetryP w (GoSched.beginRetry (mkSched w orc), GoStepState.zero, false) := by
    intro r hr h1 h2 h3
    have hs : w1.sched .beginRetry = (({ w1 with ctxDone := false }).finish .zero, .unit) := by
      -- the catch-all arm of `beginRetry`: its side conditions are `h1 h2 h3`
      simp only [World.sched, hpc, hr]
    simp only [GoSched.beginRetry, GoSched.act, hw, hs]
    exact DroveRetry.toP w (by droveR_fin)
  cases hr : w.ret with
  | zero => exact absurd hr hnz
  | timerUpdateError e =>
    rw [hr] at hprev hret
    cases prev <;> simp [normSt, ssGo] at hprev
    rw [Retry_timer]
    have hs : w1.sched .beginRetry = ({ w1 with ctxDone := false, pc := .r_stop }, .unit) := by
      simp only [World.sched, hpc, hret]
    simp only [GoSched.beginRetry, GoSched.act, hw, hs]
    exact DroveRetry.toP w (droveR_timer ctx ⟨henv, rfl, hns1, hfix1, hlt, hg, hglt, hggne⟩)
  | awaitingNext =>
    rw [hr] at hprev hret
    cases prev <;> simp [normSt, ssGo] at hprev
    rw [Retry_awaiting]
    exact hzero _ hret (by simp) (by simp) (by simp)
  | nextTask o e =>
    rw [hr] at hprev hret
    cases o <;> cases prev <;> simp [normSt, ssGo] at hprev <;> rw [Retry_nextTask] <;>
      exact hzero _ hret (by simp) (by simp) (by simp)
  | dispatched id =>
    rw [hr] at hprev hret
    cases prev <;> simp [normSt, ssGo] at hprev
    rw [Retry_dispatched]
    exact hzero _ hret (by simp) (by simp) (by simp)
  | dispatchErr t e =>
    rw [hr] at hprev hret
    cases prev <;> simp [normSt, ssGo] at hprev
    obtain ⟨ht, -⟩ := hprev
    subst ht
    rw [Retry_disp]
    have hs : w1.sched .beginRetry = ({ w1 with ctxDone := false, pc := .r_getById t }, .unit) := by
      simp only [World.sched, hpc, hret]
    simp only [GoSched.beginRetry, GoSched.act, hw, hs]
    exact droveR_disp w ctx ⟨t, e, hr⟩ ⟨henv, rfl, hns1, hfix1, hlt, hg, hglt, hggne⟩
  | taskDone id o ue =>
    rw [hr] at hprev hret
    cases prev <;> simp [normSt, ssGo] at hprev
    rename_i id' te' ue'
    obtain ⟨hid, ho, -⟩ := hprev
    subst id' te'
    rw [Retry_done]
    have hs : w1.sched .beginRetry = ({ w1 with ctxDone := false, pc := .r_markDone id o }, .unit) := by
      simp only [World.sched, hpc, hret]
    simp only [GoSched.beginRetry, GoSched.act, hw, hs]
    exact DroveRetry.toP w (droveR_done ctx ⟨henv, rfl, hns1, hfix1, hlt, hg, hglt, hggne⟩)

/-- on every arm but `DispatchErr` the original conclusion holds -/
theorem tie_sched_Retry_of_not_dispatchErr (w : World) (orc : SchedOrc) (ctx : Ctx) (prev : GoStepState)
    (hidle : w.pc = .idle) (hns : w.stuck = false) (hfix : w.fix = {}) (henv : EnvOk orc.env)
    (hprev : normSt prev = ssGo w.ret) (hnz : w.ret ≠ .zero)
    (hlt : (mkSched w orc).lastTask = w.lastTask.map toGenT)
    (hnd : ∀ t e, w.ret ≠ .dispatchErr t e) :
    DroveRetry (Scheduler.Retry (mkSched w orc) ctx prev) := by
  have h := tie_sched_Retry_partial w orc ctx prev hidle hns hfix henv hprev hnz hlt
  refine ⟨h.not_stuck, h.idle, ?_, h.retryErr, h.lastTask, h.getNextErr⟩
  rcases h.ret with h | ⟨⟨t, e, h⟩, -⟩
  · exact h
  · exact absurd h (hnd t e)

/-- the normalisation that makes the `ret` clause true on every path: forget the `State` of the task a `DispatchErr`
carries (comparing these tasks by `Id` only is weaker and also true) -/
def blankSt : GoStepState → GoStepState
  | .dispatchErr t e => .dispatchErr { t with State := "" } e
  | s => s

theorem tie_sched_Retry_modState (w : World) (orc : SchedOrc) (ctx : Ctx) (prev : GoStepState)
    (hidle : w.pc = .idle) (hns : w.stuck = false) (hfix : w.fix = {}) (henv : EnvOk orc.env)
    (hprev : normSt prev = ssGo w.ret) (hnz : w.ret ≠ .zero)
    (hlt : (mkSched w orc).lastTask = w.lastTask.map toGenT) :
    blankSt (normSt (Scheduler.Retry (mkSched w orc) ctx prev).2.1) =
      blankSt (ssGo (Scheduler.Retry (mkSched w orc) ctx prev).1.w.ret) := by
  have h := tie_sched_Retry_partial w orc ctx prev hidle hns hfix henv hprev hnz hlt
  rcases h.ret with h | ⟨-, e, h1, h2⟩
  · rw [h]
  · rw [h1, h2]; rfl

/-- the State of the task a `DispatchErr` carries -/
def dispErrState : GoStepState → String
  | .dispatchErr t _ => t.State
  | _ => "?"

/-- the original statement is false: the last failed dispatch was of a task that has been deleted since, no worker -/
theorem tie_sched_Retry_false : ¬ ∀ (w : World) (orc : SchedOrc) (ctx : Ctx) (prev : GoStepState),
    w.pc = .idle → w.stuck = false → w.fix = {} → EnvOk orc.env → normSt prev = ssGo w.ret → w.ret ≠ .zero →
    (mkSched w orc).lastTask = w.lastTask.map toGenT →
    DroveRetry (Scheduler.Retry (mkSched w orc) ctx prev) := by
  intro H
  have h := H { ret := .dispatchErr World.zeroTask .ctx } { acquired := false } none
    (ssGo (.dispatchErr World.zeroTask .ctx)) rfl rfl rfl
    (fun _ _ => ⟨rfl, rfl, rfl, rfl, rfl, rfl⟩) rfl (by simp) rfl
  have h' := congrArg dispErrState h.ret
  revert h'
  decide

end Gk.Tie
