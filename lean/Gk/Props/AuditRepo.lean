/-
Axiom audit of the repository properties (C01, C12, C13): only `propext`, `Classical.choice`,
`Quot.sound` may appear.
-/
import Gk.Props.C01
import Gk.Props.C12
import Gk.Props.C13
open Gk

#print axioms normalize_idem
#print axioms isNorm_normalize
#print axioms normalize_le
#print axioms lt_normalize_add
#print axioms normalize_mono
#print axioms C12_inv_step
#print axioms C12_returned
#print axioms C12_history_from
#print axioms C12_history
#print axioms C12_id_created_immutable_partial
#print axioms C12_id_created_immutable_needs_fresh
#print axioms C12_never_lost
#print axioms C12_rejects_invalid_update
#print axioms C12_rejects_invalid_add
#print axioms C12_monitor
#print axioms C01_error_is_noop
#print axioms C01_reads_are_noops
#print axioms C01_errkind_by_timestamps
#print axioms C01_error_kind
#print axioms C01_edges_partial
#print axioms C01_edges_needs_fresh
#print axioms C01_success_needs_state
#print axioms C01_monitor
#print axioms C01_history_from
#print axioms C01_history
#print axioms C01_history_prefix
#print axioms C13_revert_shape
#print axioms C13_reverted_behaves_scheduled
#print axioms C13_ghost_invariant
#print axioms C13_revert_record
#print axioms C13_cancel_dispatched
#print axioms C13_D8_witness
