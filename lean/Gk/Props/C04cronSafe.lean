/-
C03 / C04 / C15 in the cron configuration (Scheduler over `volatileTaskRepo` over the cron store, model
`Gk.CWorld`): what IS true, for every action sequence.

The quantification is over every `List ActC` — scheduler calls in any order (a call that is not enabled
at the current `pc` only sets `stuck`), `Step` / `Retry` in any order, faults `Fault.before` /
`Fault.after` on every repository call, context cancellation, busy workers, time advances, completions
and user `EditTask`s at every moment — from every initial world satisfying `CWorld.Init`
(`Gk/Proofs/WorldCron.lean`): scheduler idle with empty log / running / completed / record / popped,
`lastTask = none`, `ret = zero`, `fix = {}`, and a cron store (repaired code, `fixed = true`) whose
pending occurrences have pairwise distinct ranks, all `≤ counter`, all in state scheduled.

* A (C03) and B (C04, state at entry) hold for ALL action sequences, the D18 interleaving included.
* C (`ranArePopped`, `atMostOnce`) is FALSE for all action sequences (D18: `Gk/Props/C04cron.lean`, and
  `C04cron_unrestricted_false` below) and PROVED for every `AtomicMark` script: no `EditTask` is taken
  while `pc = d_markPop _`, i.e. between the Peek and the Pop of `volatileTaskRepo.MarkAsDispatched`.
  Nothing else is assumed (no driver discipline on `Step` / `Retry`).
-/
import Gk.Proofs.WorldCron
import Gk.Props.C04cron
namespace Gk
open CWorld

/-! ### A. C03: no work function starts before the scheduled time of its record -/

/-- **C03 (cron configuration), every action sequence.** Each logged start has
`task.scheduledAt ≤ at_`. -/
theorem C03cron_no_early_start (w : CWorld) (hi : w.Init) (acts : List ActC) :
    (w.run acts).noEarlyStart = true := by
  have hA := InvA_run (InvA_init hi) acts
  unfold CWorld.noEarlyStart
  rw [List.all_eq_true]
  intro e he
  exact decide_eq_true (hA.early e he)

/-- what the proof rests on: whatever copy the scheduler holds after the due check (remembered in
`lastTask`, carried by the program counter from `d_wait` on, or returned in a `DispatchErr` awaiting
`Retry`), the record stored under its id is due by the scheduler's clock -/
theorem C03cron_held_is_due (w : CWorld) (hi : w.Init) (acts : List ActC) (t cur : Task)
    (hh : Holds (w.run acts).pc (w.run acts).lastTask (w.run acts).ret t)
    (hl : (w.run acts).v.lookup t.id = some cur) : cur.scheduledAt ≤ (w.run acts).now :=
  (InvA_run (InvA_init hi) acts).due t hh cur hl

/-- Non-vacuity: `D18.init` is an initial world, and both the quiet and the raced dispatch start a work
function (at 4 ms, for a record scheduled at 3 ms). -/
example : D18.init.Init ∧
    ((D18.init.run (D18.announce ++ D18.dispatch)).log.map
      (fun e => (e.id, e.at_, e.task.scheduledAt))) = [("#1", 4000000, 3000000)] ∧
    ((D18.init.run (D18.announce ++ D18.dispatchRaced)).log.map
      (fun e => (e.id, e.at_, e.task.scheduledAt))) = [("#1", 4000000, 3000000)] := by
  decide

/-! ### B. C04: the record handed to the work function is in state dispatched -/

/-- **C04, state at entry (cron configuration), every action sequence.** -/
theorem C04cron_dispatched_at_entry (w : CWorld) (hi : w.Init) (acts : List ActC) :
    (w.run acts).dispatchedAtEntry = true := by
  have hA := InvA_run (InvA_init hi) acts
  unfold CWorld.dispatchedAtEntry
  rw [List.all_eq_true]
  intro e he
  simp [hA.dispLog e he]

/-- Non-vacuity: also on the `Retry` path after a `MarkAsDispatched` that failed after taking effect
(the `Retry` skips marking), and in the D18 interleaving. -/
example :
    let faultThenRetry : List ActC :=
      [.sched .beginStep, .sched .lastTimerErr, .sched (.waitWorker true), .sched .peek, .sched .pop,
       .sched (.markDispatched .after), .sched .beginRetry, .sched (.getById .none),
       .sched (.waitWorker true), .sched (.getById .none)]
    D18.init.Init ∧
    ((D18.init.run (D18.announce ++ faultThenRetry)).log.map (fun e => (e.id, e.task.state)))
      = [("#1", .dispatched)] ∧
    ((D18.init.run (D18.announce ++ D18.dispatchRaced)).log.map (fun e => (e.id, e.task.state)))
      = [("#1", .dispatched)] := by
  decide

/-! ### C. C04 / C15: ran ⊆ popped, at most once — under `AtomicMark` -/

/-- The cron store never hands out the same occurrence twice — every action sequence (D18 included). -/
theorem C04cron_popped_distinct (w : CWorld) (hi : w.Init) (acts : List ActC) :
    (w.run acts).popped.Nodup :=
  (InvC_run (InvC_init hi) acts).popNodup

/-- Under `AtomicMark` the occurrence `Pop` removes is the one `Peek` named: whenever the scheduler is
between the two calls, the head of the cron store is the announced occurrence. -/
theorem C04cron_pop_removes_peeked (w : CWorld) (hi : w.Init) (acts : List ActC)
    (ha : w.AtomicMark acts) (t : Task) (hpc : (w.run acts).pc = .d_markPop t) :
    ∃ h, (w.run acts).v.cron.head = some h ∧ h.tid = t.id :=
  (InvD_run (InvA_init hi) (InvC_init hi) (InvD_init hi) ha).markPop t hpc

/-- **C04 / C15 (cron configuration), `AtomicMark` scripts.** Every occurrence whose work function
started is one the cron store handed out through `Pop`. -/
theorem C04cron_ran_are_popped (w : CWorld) (hi : w.Init) (acts : List ActC)
    (ha : w.AtomicMark acts) : (w.run acts).ranArePopped = true := by
  have hD := InvD_run (InvA_init hi) (InvC_init hi) (InvD_init hi) ha
  unfold CWorld.ranArePopped
  rw [List.all_eq_true]
  intro e he
  simpa using hD.logPop e he

/-- At most one work-function start per occurrence id. -/
theorem C04cron_at_most_once_nodup (w : CWorld) (hi : w.Init) (acts : List ActC)
    (ha : w.AtomicMark acts) : ((w.run acts).log.map (·.id)).Nodup :=
  (InvD_run (InvA_init hi) (InvC_init hi) (InvD_init hi) ha).logNodup

/-- **C04 (cron configuration), `AtomicMark` scripts.** No occurrence id is started twice (the boolean
monitor of `Gk.CWorld`). -/
theorem C04cron_at_most_once (w : CWorld) (hi : w.Init) (acts : List ActC)
    (ha : w.AtomicMark acts) : (w.run acts).atMostOnce = true := by
  unfold CWorld.atMostOnce
  rw [eraseDups_of_nodup _ (C04cron_at_most_once_nodup w hi acts ha)]
  simp

/-- Non-vacuity: the quiet announce + dispatch is an `AtomicMark` script from an initial world and
starts a work function; the D18 scripts are NOT `AtomicMark` (the edit lands at `d_markPop`). An edit at
any other moment is allowed: here one lands between `GetNext`'s Peek and its return, another between
the announcing and the dispatching `Step`. -/
example :
    D18.init.Init ∧
    D18.init.AtomicMark (D18.announce ++ D18.dispatch) ∧
    ((D18.init.run (D18.announce ++ D18.dispatch)).log.map (·.id)) = ["#1"] ∧
    ¬ D18.init.AtomicMark (D18.announce ++ D18.dispatchRaced) ∧
    ¬ D18.init.AtomicMark (D18.announce ++ D18.dispatchRaced ++ D18.announce ++ D18.dispatch) ∧
    (let editsElsewhere : List ActC :=
      [.sched .beginStep, .sched .lastTimerErr, .sched .selTimer, .sched .peek, .edit ["b"] [],
       .sched (.getNext .none), .sched .nextScheduled, .edit [] ["b"]] ++ D18.dispatch
     D18.init.AtomicMark editsElsewhere) := by
  decide

/-- Without `AtomicMark` both properties fail from an initial world (D18): the statements above cannot
be strengthened to all action sequences. -/
theorem C04cron_unrestricted_false :
    ¬ (∀ (w : CWorld), w.Init → ∀ acts : List ActC, (w.run acts).ranArePopped = true) ∧
    ¬ (∀ (w : CWorld), w.Init → ∀ acts : List ActC, (w.run acts).atMostOnce = true) := by
  have hi : D18.init.Init := by decide
  constructor
  · intro h
    have h1 := h D18.init hi (D18.announce ++ D18.dispatchRaced)
    have h2 : (D18.init.run (D18.announce ++ D18.dispatchRaced)).ranArePopped = false :=
      C04_D18_witness.2.2.2.2.2.1
    rw [h2] at h1
    cases h1
  · intro h
    have h1 := h D18.init hi (D18.announce ++ D18.dispatchRaced ++ D18.announce ++ D18.dispatch)
    have h2 : (D18.init.run
        (D18.announce ++ D18.dispatchRaced ++ D18.announce ++ D18.dispatch)).atMostOnce = false :=
      C04_D18_runs_twice.2.2.1
    rw [h2] at h1
    cases h1

#print axioms C03cron_no_early_start
#print axioms C03cron_held_is_due
#print axioms C04cron_dispatched_at_entry
#print axioms C04cron_popped_distinct
#print axioms C04cron_pop_removes_peeked
#print axioms C04cron_ran_are_popped
#print axioms C04cron_at_most_once_nodup
#print axioms C04cron_at_most_once
#print axioms C04cron_unrestricted_false

end Gk
