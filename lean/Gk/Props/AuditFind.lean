/-
Axiom audit for C11 (`Find`). Only `propext`, `Classical.choice`, `Quot.sound` may appear.
-/
import Gk.Props.C11
open Gk

#print axioms C11_loop
#print axioms C11_loop_neg
#print axioms C11_order
#print axioms C11_window
#print axioms C11_isInfixOf
#print axioms C11_isPrefixOf
#print axioms C11_isSuffixOf
#print axioms C11_prefix_string
#print axioms C11_suffix_string
#print axioms C11_infix_string
#print axioms matchEq_iff
#print axioms mapMatcher_iff
#print axioms matchMap_iff
#print axioms timeMatcher_iff
#print axioms matchTime_iff
#print axioms matchOptTime_iff
#print axioms C11_match_spec
#print axioms C11_match_spec_bool
#print axioms C11_find_spec
#print axioms C11_find_readonly
#print axioms C11_D6_witness
#print axioms isInfixOf_iff
#print axioms isInfixOf_iff_infix
#print axioms normalize_idem
#print axioms isNorm_normalize
