/-
C08 — worker-pool dispatcher bounds concurrency and applies back-pressure (PARTIAL: the theorems are
about the counter abstraction `Gk.Pool` of a third-party pool; which goroutine receives a send and the
race between a removed worker's cancellation and a concurrent send are runtime behaviour, sampled by
the correspondence `gkh pool`, not proved).
-/
import Gk.Pool
namespace Gk
open Pool

structure Pool.Inv (p : Pool) : Prop where
  busy_le : p.busy ≤ p.alive
  /-- back-pressure: a dispatch waits only when no alive worker is idle -/
  waiting_full : p.waiting > 0 → p.busy = p.alive
  /-- nothing lost, nothing duplicated: every accepted item is finished or running, exactly once -/
  conserve : p.accepted = p.finished + p.busy + p.sleeping

theorem Pool.inv_init : Pool.Inv {} := ⟨by decide, by decide, by decide⟩

theorem Pool.settle_inv {p : Pool} (hb : p.busy ≤ p.alive) (hc : p.accepted = p.finished + p.busy + p.sleeping) :
    p.settle.Inv := by
  refine ⟨?_, ?_, ?_⟩ <;> simp only [settle] <;> omega

theorem Pool.step_inv (p : Pool) (op : POp) (h : p.Inv) : (p.step op).Inv := by
  obtain ⟨hb, hw, hc⟩ := h
  cases op with
  | dispatch => exact settle_inv (by simpa using hb) (by simpa using hc)
  | finishAlive =>
    simp only [step]
    split
    · exact ⟨hb, hw, hc⟩
    · exact settle_inv (by simp; omega) (by simp; omega)
  | finishSleeping =>
    simp only [step]
    split
    · exact ⟨hb, hw, hc⟩
    · exact ⟨hb, hw, by simp; omega⟩
  | add n => exact settle_inv (by simp; omega) (by simpa using hc)
  | remove n =>
    simp only [step]
    refine ⟨by simp; omega, ?_, by simp; omega⟩
    intro hpos
    have := hw hpos
    simp; omega
  | cancelWaiting =>
    simp only [step]
    split
    · exact ⟨hb, hw, hc⟩
    · exact ⟨hb, fun hpos => hw (by simp at hpos; omega), hc⟩

/-- C08_bound: for every sequence of dispatches, completions, resizes and cancellations the number of
work functions running at the same time never exceeds the alive workers plus those removed while busy;
with no resize in progress (`sleeping = 0`) it never exceeds `alive` = n. -/
theorem C08_bound (ops : List POp) :
    let p := Pool.run {} ops
    p.Inv ∧ p.running ≤ p.alive + p.sleeping ∧ (p.sleeping = 0 → p.running ≤ p.alive) := by
  have : ∀ (p : Pool), p.Inv → (Pool.run p ops).Inv := by
    induction ops with
    | nil => intro p h; exact h
    | cons op rest ih => intro p h; exact ih _ (Pool.step_inv p op h)
  have hi := this {} Pool.inv_init
  exact ⟨hi, by simp only [running]; have := hi.busy_le; omega, by intro hs; simp only [running, hs]; have := hi.busy_le; omega⟩

/-- C08_backpressure: a dispatch is accepted only when an idle alive worker exists; with none it
neither returns nor runs anything until a completion, a resize or its cancellation. -/
theorem C08_backpressure (p : Pool) (h : p.Inv) (hfull : p.busy = p.alive) :
    (p.step .dispatch).waiting = p.waiting + 1 ∧ (p.step .dispatch).accepted = p.accepted ∧
    (p.step .dispatch).running = p.running := by
  simp only [step, settle, running, hfull]
  refine ⟨by simp, by simp, by simp⟩

theorem C08_accept_when_idle (p : Pool) (h : p.Inv) (hidle : p.busy < p.alive) :
    (p.step .dispatch).waiting = 0 ∧ (p.step .dispatch).accepted = p.accepted + 1 ∧
    (p.step .dispatch).running = p.running + 1 := by
  have hw : p.waiting = 0 := by
    rcases Nat.eq_zero_or_pos p.waiting with h0 | hpos
    · exact h0
    · have := h.waiting_full hpos; omega
  simp only [step, settle, running, hw]
  refine ⟨by omega, by omega, by omega⟩

/-- cancelling a blocked dispatch returns the context error and runs nothing -/
theorem C08_cancel_waiting (p : Pool) (hw : p.waiting > 0) :
    (p.step .cancelWaiting).cancelled = p.cancelled + 1 ∧ (p.step .cancelWaiting).accepted = p.accepted ∧
    (p.step .cancelWaiting).running = p.running := by
  simp only [step, running]
  split
  · omega
  · exact ⟨rfl, rfl, rfl⟩

/-- C08_resize: adding / removing workers changes the bound accordingly without losing or duplicating a
dispatched item (`conserve` is part of the invariant); removal never interrupts a running item. -/
theorem C08_resize (p : Pool) (n : Nat) (h : p.Inv) :
    (p.step (.remove n)).alive = p.alive - min n p.alive ∧
    (p.step (.remove n)).running = p.running ∧
    (p.step (.add n)).alive = p.alive + n ∧
    (p.step (.remove n)).Inv ∧ (p.step (.add n)).Inv := by
  refine ⟨by simp [step], ?_, by simp [step, settle], Pool.step_inv p _ h, Pool.step_inv p _ h⟩
  have := h.busy_le
  simp only [step, running]; omega

/-- non-vacuity: 2 workers, 3 dispatches: two run, one waits; after a completion the third runs. -/
example : (Pool.run {} [.add 2, .dispatch, .dispatch, .dispatch]).running = 2 ∧
    (Pool.run {} [.add 2, .dispatch, .dispatch, .dispatch]).waiting = 1 ∧
    (Pool.run {} [.add 2, .dispatch, .dispatch, .dispatch, .finishAlive]).waiting = 0 ∧
    (Pool.run {} [.add 2, .dispatch, .dispatch, .remove 2, .finishSleeping]).running = 1 := by decide

end Gk
