/-
Tie theorems, `repository/repository.go` (the observable wrapper): every method as generated from the CURRENT Go source
(Gk/Gen/Wrapper.lean) is the corresponding step of the model `Gk.Obs.step` (Gk/Hook.lean) that C07 / C05 and the scheduler
World are about: the core repository's operation first, the hook timer's hook only after a success and with the caller's
own parameter and id, reads and MarkAsDone passed through.
-/
import Gk.Gen.Wrapper
import Gk.Props.TieDef
import Gk.Props.C01
namespace Gk.Tie
open Gk Gk.Gen Gk.Gen.Wrapper

def mkObs (o : Obs) (nid : String) (f : Option Gk.Err) : GoObs := { obs := o, nextId := nid, fault := f }

theorem absP_toGenP (p : Gk.Param) : absP (toGenP p) = p := rfl

theorem errOf_isNil (id : String) (out : Out) : (GoObs.errOf id out).isNone = !out.isErr := by
  cases out with
  | err e => cases e <;> rfl
  | _ => rfl

/-- the mutating methods: `Obs.step` -/
theorem tie_obs_AddTask (o : Obs) (nid : String) (f : Option Gk.Err) (p : Gk.Param) :
    Repository.AddTask (mkObs o nid f) none (toGenP p) =
      (mkObs (o.step (.add nid p) f).1 nid f,
       (if (o.step (.add nid p) f).2.isErr then default else GoObs.taskOf (o.step (.add nid p) f).2),
       GoObs.errOf nid (o.step (.add nid p) f).2) := by
  simp only [Repository.AddTask, GoObs.coreAddTask, GoObs.hookAddTask, GoObs.core, mkObs, absP_toGenP, GoObs.ctxOr, Obs.step, Go.isNil,
    Go.IsNil.isNil, Go.nil]
  by_cases h : (Repo.step {} o.repo o.clock.now (Op.add nid p)).2.isErr = true
  · have hn := C01_error_is_noop (fl := {}) (r := o.repo) (now := o.clock.now) (op := Op.add nid p) h
    have he : (GoObs.errOf nid (Repo.step {} o.repo o.clock.now (Op.add nid p)).2).isNone = false := by
      rw [errOf_isNil, h]; rfl
    simp [h, hn, he]
  · have h' : (Repo.step {} o.repo o.clock.now (Op.add nid p)).2.isErr = false := by simpa using h
    have he : (GoObs.errOf nid (Repo.step {} o.repo o.clock.now (Op.add nid p)).2).isNone = true := by
      rw [errOf_isNil, h']; rfl
    simp [h', he, Option.isNone_iff_eq_none.1 he]

theorem tie_obs_UpdateById (o : Obs) (nid id : String) (f : Option Gk.Err) (p : Gk.Param) :
    Repository.UpdateById (mkObs o nid f) none id (toGenP p) =
      (mkObs (o.step (.update id p) f).1 nid f, GoObs.errOf id (o.step (.update id p) f).2) := by
  simp only [Repository.UpdateById, GoObs.coreUpdateById, GoObs.hookUpdateById, GoObs.core, mkObs, absP_toGenP, GoObs.ctxOr, Obs.step, Go.isNil,
    Go.IsNil.isNil, Go.nil]
  by_cases h : (Repo.step {} o.repo o.clock.now (Op.update id p)).2.isErr = true
  · have hn := C01_error_is_noop (fl := {}) (r := o.repo) (now := o.clock.now) (op := Op.update id p) h
    have he : (GoObs.errOf id (Repo.step {} o.repo o.clock.now (Op.update id p)).2).isNone = false := by
      rw [errOf_isNil, h]; rfl
    simp [h, hn, he]
  · have h' : (Repo.step {} o.repo o.clock.now (Op.update id p)).2.isErr = false := by simpa using h
    have he : (GoObs.errOf id (Repo.step {} o.repo o.clock.now (Op.update id p)).2).isNone = true := by
      rw [errOf_isNil, h']; rfl
    simp [h', he, Option.isNone_iff_eq_none.1 he]

theorem tie_obs_Cancel (o : Obs) (nid id : String) (f : Option Gk.Err) :
    Repository.Cancel (mkObs o nid f) none id =
      (mkObs (o.step (.cancel id) f).1 nid f, GoObs.errOf id (o.step (.cancel id) f).2) := by
  simp only [Repository.Cancel, GoObs.coreCancel, GoObs.hookCancel, GoObs.core, mkObs, absP_toGenP, GoObs.ctxOr, Obs.step, Go.isNil,
    Go.IsNil.isNil, Go.nil]
  by_cases h : (Repo.step {} o.repo o.clock.now (Op.cancel id)).2.isErr = true
  · have hn := C01_error_is_noop (fl := {}) (r := o.repo) (now := o.clock.now) (op := Op.cancel id) h
    have he : (GoObs.errOf id (Repo.step {} o.repo o.clock.now (Op.cancel id)).2).isNone = false := by
      rw [errOf_isNil, h]; rfl
    simp [h, hn, he]
  · have h' : (Repo.step {} o.repo o.clock.now (Op.cancel id)).2.isErr = false := by simpa using h
    have he : (GoObs.errOf id (Repo.step {} o.repo o.clock.now (Op.cancel id)).2).isNone = true := by
      rw [errOf_isNil, h']; rfl
    simp [h', he, Option.isNone_iff_eq_none.1 he]

theorem tie_obs_MarkAsDispatched (o : Obs) (nid id : String) (f : Option Gk.Err) :
    Repository.MarkAsDispatched (mkObs o nid f) none id =
      (mkObs (o.step (.dispatch id) f).1 nid f, GoObs.errOf id (o.step (.dispatch id) f).2) := by
  simp only [Repository.MarkAsDispatched, GoObs.coreMarkAsDispatched, GoObs.hookMarkAsDispatched, GoObs.core, mkObs, absP_toGenP, GoObs.ctxOr, Obs.step, Go.isNil,
    Go.IsNil.isNil, Go.nil]
  by_cases h : (Repo.step {} o.repo o.clock.now (Op.dispatch id)).2.isErr = true
  · have hn := C01_error_is_noop (fl := {}) (r := o.repo) (now := o.clock.now) (op := Op.dispatch id) h
    have he : (GoObs.errOf id (Repo.step {} o.repo o.clock.now (Op.dispatch id)).2).isNone = false := by
      rw [errOf_isNil, h]; rfl
    simp [h, hn, he]
  · have h' : (Repo.step {} o.repo o.clock.now (Op.dispatch id)).2.isErr = false := by simpa using h
    have he : (GoObs.errOf id (Repo.step {} o.repo o.clock.now (Op.dispatch id)).2).isNone = true := by
      rw [errOf_isNil, h']; rfl
    simp [h', he, Option.isNone_iff_eq_none.1 he]

/-- a cancelled context: the core refuses, no hook runs, nothing changes -/
theorem tie_obs_ctx (g : GoObs) (c : GoErr) (id : String) (p : Def.TaskUpdateParam) :
    Repository.AddTask g (some c) p = (g, default, some c) ∧
    Repository.UpdateById g (some c) id p = (g, some c) ∧
    Repository.Cancel g (some c) id = (g, some c) ∧
    Repository.MarkAsDispatched g (some c) id = (g, some c) := by
  simp [Repository.AddTask, Repository.UpdateById, Repository.Cancel, Repository.MarkAsDispatched, GoObs.coreAddTask,
    GoObs.coreUpdateById, GoObs.coreCancel, GoObs.coreMarkAsDispatched, GoObs.core, GoObs.ctxOr, Go.isNil,
    Go.IsNil.isNil, GoObs.taskOf]

/-- pass-through: MarkAsDone and the reads go to the core repository and never touch the hook timer; the timer
methods go to the hook timer -/
theorem tie_obs_passthrough (g : GoObs) (ctx : Ctx) (id : String) (e : GoError) (q : Def.TaskQueryParam) (a b : Int) :
    Repository.MarkAsDone g ctx id e = GoObs.coreMarkAsDone g ctx id e ∧
    Repository.GetById g ctx id = GoObs.coreGetById g ctx id ∧
    Repository.GetNext g ctx = GoObs.coreGetNext g ctx ∧
    Repository.Find g ctx q a b = GoObs.coreFind g ctx q a b ∧
    Repository.StartTimer g ctx = GoObs.hookStartTimer g ctx ∧
    Repository.StopTimer g = GoObs.hookStopTimer g ∧
    Repository.NextScheduled g = GoObs.hookNextScheduled g ∧
    Repository.LastTimerUpdateError g = GoObs.hookLastTimerUpdateError g :=
  ⟨rfl, rfl, rfl, rfl, rfl, rfl, rfl, rfl⟩

end Gk.Tie
