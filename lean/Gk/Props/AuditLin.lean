/-
Axiom audit for C10 (linearizability). Only `propext`, `Classical.choice`, `Quot.sound` may appear.
-/
import Gk.Props.C10
open Gk Gk.Lin

#print axioms Lin_sound
#print axioms Lin_complete
#print axioms Lin_iff
#print axioms Lin_respectsRealTime_spec
#print axioms Lin_perm_invariant
#print axioms C10_sections_respect_real_time
#print axioms C10_atomic_sections_gen
#print axioms C10_atomic_sections
#print axioms C10_atomic_sections_list
#print axioms C10_runAtomic_linearizable
#print axioms C10_conflict
#print axioms C10_conflict_race_wf
#print axioms C10_conflict_race
#print axioms C10_ex_linearizable
#print axioms C10_ex_not_linearizable
#print axioms C10_ex_repaired
#print axioms C10_ex_race
#print axioms C10_ex_atomic
-- helpers
#print axioms Gk.Lin.cons_eraseIdx_perm
#print axioms Gk.Lin.minimalAt_iff
#print axioms Gk.Lin.search_succ_iff
#print axioms Gk.Lin.search_sound
#print axioms Gk.Lin.search_complete
#print axioms Gk.Lin.respectsRealTime_iff_pairwise
#print axioms Gk.Lin.AtomicSections.respectsRealTime
#print axioms Gk.Lin.AtomicSectionsL.toFun
#print axioms Gk.Lin.replays_runAtomic
#print axioms Gk.Lin.lookup_replace
