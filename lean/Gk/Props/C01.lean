/-
C01 — the lifecycle is a strict state machine; failed operations change nothing.
-/
import Gk.Proofs.Repo
import Gk.Props.C12
namespace Gk

/-- An operation that returns an error leaves the repository as it was (any flags, no invariant). -/
theorem C01_error_is_noop {fl : Flags} {r : Repo} {now : Time} {op : Op}
    (h : (Repo.step fl r now op).2.isErr = true) : (Repo.step fl r now op).1 = r := by
  have hms : ∀ id f, (r.mutateScheduled id f).2.isErr = true → (r.mutateScheduled id f).1 = r := by
    intro id f
    unfold Repo.mutateScheduled
    split
    · intro _; rfl
    · split
      · split <;> intro _ <;> rfl
      · intro h; cases h
  cases op with
  | add id p => simp only [Repo.step] at h ⊢; split at h <;> simp_all [Out.isErr]
  | get id => simp only [Repo.step]; split <;> rfl
  | update id p =>
    simp only [Repo.step] at h ⊢
    split
    · rfl
    · rename_i hv; simp only [hv] at h; exact hms _ _ h
  | cancel id => exact hms _ _ h
  | dispatch id => exact hms _ _ h
  | done id e =>
    simp only [Repo.step] at h ⊢
    split
    · rfl
    · rename_i t0 h0
      simp only [h0] at h
      split
      · split <;> rfl
      · rename_i hs; simp [hs, Out.isErr] at h
  | find q o l => rfl
  | next => simp only [Repo.step]; split <;> rfl
  | revert => cases h
  | cancelDispatched => cases h
  | deleteEnded => cases h


/-- The three reads never change the repository. -/
theorem C01_reads_are_noops (fl : Flags) (r : Repo) (now : Time) :
    (∀ id, (Repo.step fl r now (.get id)).1 = r) ∧
    (∀ q o l, (Repo.step fl r now (.find q o l)).1 = r) ∧
    (Repo.step fl r now .next).1 = r :=
  step_reads_fst fl r now

/-- The code classifies refusals from the timestamps, the property from the state: under the
consistency part of C12 the two agree. -/
theorem C01_errkind_by_timestamps {t : Task} (h : t.consistent = true) :
    errKindMutate t = (match t.state with
      | .scheduled => none
      | .dispatched => some .alreadyDispatched
      | .cancelled => some .alreadyCancelled
      | .done | .err => some .alreadyDone) ∧
    errKindMarkAsDone t = (match t.state with
      | .scheduled => some .notDispatched
      | .dispatched => none
      | .cancelled => some .alreadyCancelled
      | .done | .err => some .alreadyDone) :=
  errKind_table h

theorem C01_error_kind {r : Repo} {now : Time} {op : Op} (h : r.WF) (hn : normalize now ≠ 0) :
    match Mon.expectedRefusal r.tasks op with
    | some e => (Repo.step {} r now op).2 = .err e
    | none =>
      (match op with
       | .next | .find .. => True
       | _ => (Repo.step {} r now op).2.isErr = false) := by
  cases op with
  | add id p =>
    simp only [Mon.expectedRefusal, Repo.step, toTask_isValid_now _ _ hn normalize_msNs_ne]
    cases (p.normalize.toTask id 1000000).isValid <;> simp [Out.isErr]
  | get id =>
    simp only [Mon.expectedRefusal, Repo.step, Repo.find_eq_lookup]
    cases r.lookup id <;> simp [Out.isErr]
  | update id p =>
    simp only [Mon.expectedRefusal, Repo.step, Repo.find_eq_lookup, mutateScheduled_spec h]
    cases p.validForUpdate
    · simp
    · cases hl : r.lookup id with
      | none => simp
      | some t => cases hs : t.state <;> simp [hs, Out.isErr]
  | cancel id =>
    simp only [Mon.expectedRefusal, Repo.step, Repo.find_eq_lookup, mutateScheduled_spec h]
    cases hl : r.lookup id with
    | none => simp
    | some t => cases hs : t.state <;> simp [hs, Out.isErr]
  | dispatch id =>
    simp only [Mon.expectedRefusal, Repo.step, Repo.find_eq_lookup, mutateScheduled_spec h]
    cases hl : r.lookup id with
    | none => simp
    | some t => cases hs : t.state <;> simp [hs, Out.isErr]
  | done id e =>
    rw [step_done_spec h]
    simp only [Mon.expectedRefusal, Repo.find_eq_lookup]
    cases hl : r.lookup id with
    | none => simp
    | some t => cases hs : t.state <;> simp [hs, Out.isErr]
  | find q o l => simp [Mon.expectedRefusal]
  | next => simp [Mon.expectedRefusal]
  | revert => simp [Mon.expectedRefusal, Repo.step, Out.isErr]
  | cancelDispatched => simp [Mon.expectedRefusal, Repo.step, Out.isErr]
  | deleteEnded => simp [Mon.expectedRefusal, Repo.step, Out.isErr]



/-- Stored tasks only move along the edges of the lifecycle, and new tasks are created scheduled.
(`op.fresh r` is needed: see the report.) -/
theorem C01_edges_partial {r : Repo} {now : Time} {op : Op} (h : r.WF) (hf : op.fresh r)
    (hl : op.isLifecycle = true) :
    (∀ t ∈ r.tasks, ∀ t' ∈ (Repo.step {} r now op).1.tasks, t'.id = t.id →
      Mon.edgeOk t.state t'.state = true) ∧
    (∀ t' ∈ (Repo.step {} r now op).1.tasks, t'.id ∉ r.tasks.map (·.id) → t'.state = .scheduled) :=
  ⟨fun _ ht _ ht' hid => ((step_shape h now op).same_id h hf ht ht' hid).edge hl,
   fun _ ht' hid => (step_shape h now op).new_task ht' hid⟩

/-- Without `op.fresh r` the statement is false: a second `add` with the id of a dispatched task
appends a scheduled task with that id, i.e. "dispatched → scheduled". -/
theorem C01_edges_needs_fresh :
    ∃ (r : Repo) (now : Time) (op : Op), r.WF ∧ op.isLifecycle = true ∧
      ¬ ∀ t ∈ r.tasks, ∀ t' ∈ (Repo.step {} r now op).1.tasks, t'.id = t.id →
        Mon.edgeOk t.state t'.state = true := by
  refine ⟨Ex.repo, 9000000, .add "a" Ex.p1, ?_, rfl, ?_⟩
  · unfold Repo.WF; decide
  · decide

/-- Non-vacuity: a well-formed state on which a lifecycle operation really moves a task. -/
example : Ex.repo.WF ∧ (Op.dispatch "b").fresh Ex.repo ∧ (Op.dispatch "b").isLifecycle = true ∧
    (Repo.step {} Ex.repo 3000000 (.dispatch "b")).1.tasks.map (·.state) = [.dispatched, .dispatched] := by
  refine ⟨?_, trivial, rfl, by decide⟩
  unfold Repo.WF; decide

/-- A lifecycle operation succeeds only from the one state it is allowed in. -/
theorem C01_success_needs_state {r : Repo} {now : Time} (h : r.WF) :
    (∀ id p, (Repo.step {} r now (.update id p)).2 = .ok →
      ∃ t, r.lookup id = some t ∧ t.state = .scheduled) ∧
    (∀ id, (Repo.step {} r now (.cancel id)).2 = .ok →
      ∃ t, r.lookup id = some t ∧ t.state = .scheduled) ∧
    (∀ id, (Repo.step {} r now (.dispatch id)).2 = .ok →
      ∃ t, r.lookup id = some t ∧ t.state = .scheduled) ∧
    (∀ id e, (Repo.step {} r now (.done id e)).2 = .ok →
      ∃ t, r.lookup id = some t ∧ t.state = .dispatched) := by
  have hms : ∀ id f, (r.mutateScheduled id f).2 = .ok →
      ∃ t, r.lookup id = some t ∧ t.state = .scheduled := by
    intro id f
    rw [mutateScheduled_spec h]
    cases hl : r.lookup id with
    | none => simp
    | some t => cases hs : t.state <;> simp [hs]
  refine ⟨?_, fun id => hms id _, fun id => hms id _, ?_⟩
  · intro id p
    simp only [Repo.step]
    split
    · simp
    · exact hms id _
  · intro id e
    rw [step_done_spec h]
    cases hl : r.lookup id with
    | none => simp
    | some t => cases hs : t.state <;> simp [hs]

/-- Every step of the model satisfies the run-time monitor `Mon.c01`. -/
theorem C01_monitor {r : Repo} {now : Time} {op : Op} (h : r.WF) (hf : op.fresh r)
    (hn : normalize now ≠ 0) :
    Mon.c01 r.tasks (Repo.step {} r now op).1.tasks op false (Repo.step {} r now op).2 = [] := by
  by_cases hl : op.isLifecycle = true
  · apply c01_nil
    · intro he; rw [C01_error_is_noop he]
    · intro hr
      obtain ⟨hg, hfi, hnx⟩ := C01_reads_are_noops {} r now
      cases op <;> simp only [Op.isRead, Bool.false_eq_true] at hr <;>
        first | rw [hg] | rw [hfi] | rw [hnx]
    · intro t' ht'
      have hs := step_shape h now op
      split
      · rename_i hnone
        apply hs.new_task ht'
        intro hmem
        obtain ⟨p, hp, hpid⟩ := List.mem_map.mp hmem
        have := List.find?_eq_none.mp hnone p hp
        simp [hpid] at this
      · rename_i p hp
        have hp1 := List.mem_of_find?_eq_some hp
        have hp2 := List.find?_some hp
        simp only [beq_iff_eq] at hp2
        exact (hs.same_id h hf hp1 ht' hp2.symm).edge hl
    · intro p hp
      apply step_never_lost _ _ _ _ hp
      rintro rfl; cases hl
    · exact C01_error_kind h hn
  · cases op <;> first | exact absurd rfl hl | rfl

/-- Non-vacuity: the hypotheses hold on a concrete state, for an operation that is refused
(`done` of a scheduled task) and for one that succeeds. -/
example : Ex.repo.WF ∧ normalize 3000000 ≠ 0 ∧
    (Repo.step {} Ex.repo 3000000 (.done "b" none)).2 = .err .notDispatched ∧
    (Repo.step {} Ex.repo 3000000 (.done "a" none)).2 = .ok := by
  refine ⟨?_, by decide, by decide, by decide⟩
  unfold Repo.WF; decide

/-- The monitors along a whole history. -/
theorem C01_history_from {r : Repo} (h : r.WF) {hist : List (Time × Op)}
    (hh : Repo.FreshHist {} r hist) :
    Repo.allSteps {} (fun r now op =>
      r.WF ∧
      Mon.c01 r.tasks (Repo.step {} r now op).1.tasks op false (Repo.step {} r now op).2 = [] ∧
      Mon.c12Step r.tasks (Repo.step {} r now op).1.tasks op (Repo.step {} r now op).2 = []) r hist := by
  induction hist generalizing r with
  | nil => trivial
  | cons x rest ih =>
    obtain ⟨now, op⟩ := x
    exact ⟨⟨h, C01_monitor h hh.1 hh.2.1, C12_monitor h hh.1⟩, ih (C12_inv_step h hh.1) hh.2.2⟩

theorem C01_history {hist : List (Time × Op)} (hh : Repo.FreshHist {} {} hist) :
    Repo.allSteps {} (fun r now op =>
      r.WF ∧
      Mon.c01 r.tasks (Repo.step {} r now op).1.tasks op false (Repo.step {} r now op).2 = [] ∧
      Mon.c12Step r.tasks (Repo.step {} r now op).1.tasks op (Repo.step {} r now op).2 = []) {} hist :=
  C01_history_from Repo.WF_empty hh


/-- The same in prefix form: at the state reached by any prefix of a fresh history, the next
operation satisfies both monitors (and the state is well formed). -/
theorem C01_history_prefix {pre rest : List (Time × Op)} {now : Time} {op : Op}
    (hh : Repo.FreshHist {} {} (pre ++ (now, op) :: rest)) :
    let r := Repo.run {} {} pre
    r.WF ∧
    Mon.c01 r.tasks (Repo.step {} r now op).1.tasks op false (Repo.step {} r now op).2 = [] ∧
    Mon.c12Step r.tasks (Repo.step {} r now op).1.tasks op (Repo.step {} r now op).2 = [] :=
  Repo.allSteps_prefix (C01_history hh)

/-- Non-vacuity: `Ex.hist` is a fresh history with successful and refused operations of every kind. -/
example : Repo.FreshHist {} {} Ex.hist ∧
    (Repo.run {} {} Ex.hist).tasks.map (·.state) = [.err, .cancelled, .dispatched] := by
  refine ⟨?_, by decide⟩
  simp only [Ex.hist, Repo.FreshHist, Op.fresh]
  decide

end Gk
