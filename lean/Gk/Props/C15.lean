/-
C15 — the cron store hands out every occurrence of every stored entry exactly once, in order, and
keeps exactly one pending occurrence per stored entry (repaired code, `Cron.fixed = true`).

Definitions (`Cron.COp`, `Cron.step`, `Cron.run`, the invariant `Core` / `Inv`, the ghost log
`stepLog` / `runLog` / `logFor`, `between`) and the helper lemmas are in `Gk/Proofs/Cron.lean`.

Hypotheses on the oracle / object store, where needed, are explicit:
* `e.occ.Pairwise (· < ·)`  — the schedule is strictly increasing (only for the log theorem);
* `oracleExhausted = false` in the reached state — the finite oracle list was long enough;
* `NamesUnique c.ents`      — only for the statements phrased with membership in `ents`
  (the lookup-phrased statements hold without it, `Cron.ent` picks the first entry of a name);
* names the client offers that do not exist make the edit rejected — no hypothesis needed.
-/
import Gk.Cron
import Gk.Proofs.Cron
namespace Gk
open Cron

/-! ### 1. one pending occurrence per stored entry -/

/-- After every run from a store with nothing stored: the identities of the pending tasks are a
permutation of the stored identities, both duplicate-free (exactly one pending task per stored
identity and no other), and every stored identity's entry exists in the object store and has that
identity. -/
theorem C15_one_pending (c0 : Cron) (hf : c0.fixed = true) (he : c0.entries = [])
    (hp : c0.pending = []) (ops : List COp) (ho : (c0.run ops).oracleExhausted = false) :
    ((c0.run ops).pending.map (·.key)).Perm ((c0.run ops).entries.map (·.1)) ∧
    ((c0.run ops).entries.map (·.1)).Nodup ∧
    ((c0.run ops).pending.map (·.key)).Nodup ∧
    (c0.run ops).pending.length = (c0.run ops).entries.length ∧
    ∀ kv ∈ (c0.run ops).entries, ∃ e ∈ (c0.run ops).ents,
      (c0.run ops).ent kv.2 = some e ∧ e.name = kv.2 ∧ e.ident = kv.1 := by
  have hI := ((Inv.init hf he hp).run ops).2 ho
  refine ⟨hI.perm, hI.nodup, (hI.perm.nodup_iff).mpr hI.nodup, ?_, ?_⟩
  · have := hI.perm.length_eq
    simpa using this
  · intro kv hkv
    obtain ⟨e, he, hi⟩ := hI.ents kv hkv
    exact ⟨e, (ent_some he).2, he, (ent_some he).1, hi⟩

/-- The full invariant (also: ranks of pending tasks are distinct and bounded by the counter, the
mutator chains of pending tasks cannot panic) is inductive over single steps. -/
theorem C15_inv_step (c : Cron) (op : COp) : Inv c → Inv (c.step op) := fun h => h.step op

/-- … hence holds in every reached state whose oracle flag is clear (this is the hypothesis `Core c`
of `C15_stream_pop` and `C16_success_kept_cursor`). -/
theorem C15_core_run (c0 : Cron) (hf : c0.fixed = true) (he : c0.entries = []) (hp : c0.pending = [])
    (ops : List COp) (ho : (c0.run ops).oracleExhausted = false) : Core (c0.run ops) :=
  ((Inv.init hf he hp).run ops).2 ho

/-- Non-vacuity: two entries stored, two pops, one removal. -/
example :
    let c := CronEx.store0.run [.edit ["a", "b"] [], .start, .pop, .pop, .edit [] ["a"], .pop]
    c.oracleExhausted = false ∧ c.entries.map (·.2) = ["b"] ∧
      c.pending.map (·.task.scheduledAt) = [6000000] := by decide

/-! ### 2. `Pop` / `Peek` / `Schedule` follow `Key.less` -/

theorem C15_pop_is_min (c : Cron) :
    (∀ h, c.head = some h →
      h ∈ c.pending ∧ (∀ w ∈ c.pending, (wkey w).less (wkey h) = false) ∧
      c.pop.2 = some h.task ∧ c.peek = some h.task) ∧
    (c.head = none ↔ c.pending = []) ∧
    (c.head = none → c.pop = (c, none) ∧ c.peek = none) ∧
    c.schedule = (sorted c.pending).map (·.task) ∧
    (sorted c.pending).Perm c.pending ∧
    (sorted c.pending).Pairwise (fun a b => (wkey b).less (wkey a) = false) := by
  refine ⟨fun h hh => ⟨head_mem hh, head_min hh, ?_, ?_⟩, head_none_iff c, fun hh => ⟨pop_none hh, ?_⟩,
    rfl, sorted_perm _, sorted_pairwise _⟩
  · rw [pop_some hh]
  · simp [peek, hh]
  · simp [peek, hh]

/-- With distinct insertion ranks (part of the invariant) the first task of `Schedule()` is the one
`Peek` / `Pop` return. -/
theorem C15_schedule_head (c : Cron) (hr : (c.pending.map (·.rank)).Nodup) :
    c.schedule.head? = c.peek := by
  unfold schedule peek
  rw [List.head?_map, sorted_head hr]

theorem C15_schedule_head_run (c0 : Cron) (hf : c0.fixed = true) (he : c0.entries = [])
    (hp : c0.pending = []) (ops : List COp) (ho : (c0.run ops).oracleExhausted = false) :
    (c0.run ops).schedule.head? = (c0.run ops).peek ∧
      (c0.run ops).schedule.head? = (c0.run ops).pop.2 := by
  have hI := ((Inv.init hf he hp).run ops).2 ho
  refine ⟨C15_schedule_head _ hI.ranks, ?_⟩
  rw [C15_schedule_head _ hI.ranks]
  cases hh : (c0.run ops).head with
  | none => rw [pop_none hh]; simp [peek, hh]
  | some h => rw [pop_some hh]; simp [peek, hh]

/-- Non-vacuity: `b@2ms` (priority 1) is the head of `store1`, before `a@3ms`. -/
example : CronEx.store1.peek.map (·.scheduledAt) = some 2000000 ∧
    CronEx.store1.pop.2.map (·.workId) = some "wb" ∧
    (CronEx.store0.pop.2 = none ∧ CronEx.store0.pop.1.pending = []) := by decide

/-! ### 3. cursors move to the very next occurrence only -/

/-- Lookup form, no hypothesis on names: every step maps the entry stored under a name to itself or
to its one-step advance; `advSet` says which (the popped head's entry / the added entries of an
accepted edit). -/
theorem C15_stream_step_ent (c : Cron) (hf : c.fixed = true) (op : COp) (n : String) :
    (c.step op).ent n = (c.ent n).map (fun x => if advSet c op x.name then x.advance else x) :=
  step_ent hf op n

/-- Membership form (unique names): for every entry `e` before the step and `e'` of the same name
after it, `e'` is `e`, or `e` with the cursor at `e`'s next occurrence. -/
theorem C15_stream_step (c : Cron) (hf : c.fixed = true) (hu : NamesUnique c.ents) (op : COp)
    (e e' : CEntry) (he : e ∈ c.ents) (he' : e' ∈ (c.step op).ents) (hn : e'.name = e.name) :
    (e' = e ∨ ∃ o, e.nextOcc = some o ∧ e' = { e with prev := o }) ∧
    (e'.prev = e.prev ∨ e.nextOcc = some e'.prev) := by
  obtain ⟨e1, he1, heq⟩ := mem_step_ents hf hu op he'
  have hn1 : e1.name = e.name := by
    rw [← hn, heq]; split <;> simp
  have : e1 = e := hu.eq_of_name he1 he hn1
  subst this
  by_cases hadv : advSet c op e1.name = true
  · rw [if_pos hadv] at heq
    cases hno : e1.nextOcc with
    | none =>
      have : e1.advance = e1 := by unfold CEntry.advance; rw [hno]
      rw [this] at heq
      exact ⟨Or.inl heq, Or.inl (by rw [heq])⟩
    | some o =>
      rw [CEntry.advance_prev hno] at heq
      exact ⟨Or.inr ⟨o, rfl, heq⟩, Or.inr (by rw [heq])⟩
  · rw [if_neg hadv] at heq
    exact ⟨Or.inl heq, Or.inl (by rw [heq])⟩

/-- A `Pop` on a store satisfying the invariant: the head `t` belongs (identity lookup) to an entry
`e` with identity `t.key`; exactly `e`'s cursor advances, by exactly one occurrence `o`; all other
lookups are unchanged; the new pending task `w` for that identity is `wrap` of `e.Param()` taken
*before* the advance (un-mutated time `o`), with the popped task's mutators and a fresh rank, and it
replaces `t` in the pending bag. -/
theorem C15_stream_pop (c : Cron) (hI : Core c) (t : WTask) (ht : c.head = some t)
    (ho : c.pop.1.oracleExhausted = false) :
    ∃ e o p w l1 l2, c.lookup t = some e ∧ e.ident = t.key ∧ c.ent e.name = some e ∧
      e.nextOcc = some o ∧ e.param = some p ∧ p.scheduledAt = some o ∧
      wrap c e p t.muts (c.counter + 1) = some w ∧ w.key = t.key ∧
      c.pending = l1 ++ t :: l2 ∧ c.pop.1.pending = l1 ++ l2 ++ [w] ∧
      c.pop.1.entries = c.entries ∧
      c.pop.1.ent e.name = some { e with prev := o } ∧
      (∀ n, n ≠ e.name → c.pop.1.ent n = c.ent n) ∧
      c.pop.2 = some t.task := by
  rw [pop_some ht] at ho ⊢
  simp only [resetTimer_oracle] at ho
  obtain ⟨e, o, p, w, l1, l2, hl, hi, he, hno, hp, hw, hsplit, heq⟩ := hI.popNext ht ho
  have hwk := (wrap_some hw).1
  refine ⟨e, o, p, w, l1, l2, hl, hi, he, hno, hp, by rw [CEntry.param_sched hp, hno], hw,
    by rw [hwk, CEntry.serKey_param hp, hi], hsplit, ?_, ?_, ?_, ?_, rfl⟩
  · simp only [resetTimer_pending, heq]
  · simp only [resetTimer_entries, heq]; rfl
  · simp only [resetTimer_ent, popNext_ent, hl, Option.any_some, he, Option.map_some, beq_self_eq_true,
      if_true, CEntry.advance_prev hno]
  · intro n hn
    simp only [resetTimer_ent, popNext_ent, hl, Option.any_some]
    cases hx : c.ent n with
    | none => rfl
    | some x =>
      have : x.name = n := (ent_some hx).1
      simp [this, hn]

/-- the same with unique names, as membership in the object store: every other entry object is
literally unchanged -/
theorem C15_stream_pop_others (c : Cron) (hf : c.fixed = true) (hu : NamesUnique c.ents)
    (x : CEntry) (hx : x ∈ c.ents) (hne : ∀ e, c.popEnt = some e → x.name ≠ e.name) :
    x ∈ c.pop.1.ents := by
  have := step_ents_of_mem hf hu .pop hx
  have hadv : advSet c .pop x.name = false := by
    show c.popEnt.any (fun e => x.name == e.name) = false
    cases hpe : c.popEnt with
    | none => rfl
    | some e => simpa using hne e hpe
  rw [hadv] at this
  exact this

/-! ### 4. the occurrence stream of one entry (ghost log) -/

/-- For every run of the repaired code from ANY store, and every entry (looked up by name) whose
schedule is strictly increasing: the un-mutated occurrence times handed to `wrap` for that entry
(`logFor n (runLog c0 ops)`: at every `pushNext` of a `Pop` and for every entry staged by an accepted
`EditTask`) are exactly the occurrences of the schedule in the interval (start cursor, final
cursor] — each once, in schedule order, none skipped. -/
theorem C15_stream (c0 : Cron) (hf : c0.fixed = true) (ops : List COp) (n : String) (e0 : CEntry)
    (h0 : c0.ent n = some e0) (hocc : e0.occ.Pairwise (· < ·)) :
    ∃ e, (c0.run ops).ent n = some e ∧ e.occ = e0.occ ∧ e0.prev ≤ e.prev ∧
      logFor n (runLog c0 ops) = between e0.occ e0.prev e.prev := by
  obtain ⟨e, h1, h2, _, h4, _, h5⟩ := run_stream hf ops h0 hocc
  exact ⟨e, h1, h2, h4, h5⟩

/-- Unfolded: the logged occurrences are strictly increasing (no repeat), form a contiguous block of
the schedule (no gap): everything before the block is at or before the start cursor, so the block
starts at the first occurrence after the start cursor; and everything after the block is later than
the block and outside (start, final cursor]. If anything was logged, the first logged occurrence is
`Next(start cursor)` and the cursor ends on the last one. -/
theorem C15_stream_consecutive (c0 : Cron) (hf : c0.fixed = true) (ops : List COp) (n : String)
    (e0 : CEntry) (h0 : c0.ent n = some e0) (hocc : e0.occ.Pairwise (· < ·)) :
    let log := logFor n (runLog c0 ops)
    log.Pairwise (· < ·) ∧
    (∃ pre post, e0.occ = pre ++ log ++ post ∧ (∀ o ∈ pre, o ≤ e0.prev) ∧
      (∀ o ∈ post, ∀ x ∈ log, x < o)) ∧
    (∀ o ∈ log, e0.prev < o) ∧
    (log ≠ [] → log.head? = e0.nextOcc ∧
      ∃ e, (c0.run ops).ent n = some e ∧ log.getLast? = some e.prev) ∧
    (log = [] → ∃ e, (c0.run ops).ent n = some e ∧ e.prev = e0.prev) := by
  obtain ⟨e, h1, _, _, h4, hin, h5⟩ := run_stream hf ops h0 hocc
  obtain ⟨pre, post, hsplit, hpre, _, hpost⟩ := between_infix hocc e0.prev e.prev
  have hmem : ∀ o ∈ between e0.occ e0.prev e.prev, e0.prev < o ∧ o ≤ e.prev := by
    intro o ho
    have := (List.mem_filter.mp ho).2
    simpa using this
  have hcur : e.prev = e0.prev ∨ e.prev ∈ between e0.occ e0.prev e.prev := by
    rcases hin with h | h
    · exact Or.inl h
    · by_cases heq : e.prev = e0.prev
      · exact Or.inl heq
      · right
        refine List.mem_filter.mpr ⟨h, ?_⟩
        have h1 : e0.prev < e.prev := by unfold Time at *; omega
        have h2 : e.prev ≤ e.prev := by unfold Time at *; omega
        simp [h1]
  simp only [h5]
  refine ⟨between_sorted hocc _ _, ⟨pre, post, hsplit, hpre, hpost⟩, fun o ho => (hmem o ho).1, ?_, ?_⟩
  · intro hne
    constructor
    · -- the first element of the block is the first occurrence after the start cursor
      cases hb : between e0.occ e0.prev e.prev with
      | nil => exact absurd hb hne
      | cons b rest =>
        rw [hb] at hsplit
        have hb1 := (hmem b (by rw [hb]; simp)).1
        simp only [List.head?_cons]
        symm
        unfold CEntry.nextOcc
        rw [List.find?_eq_some_iff_append]
        refine ⟨by simpa using hb1, pre, rest ++ post, by rw [hsplit]; simp, ?_⟩
        intro o ho
        have := hpre o ho
        simp only [gt_iff_lt, Bool.not_eq_true', decide_eq_false_iff_not]
        unfold Time at *; omega
    · refine ⟨e, h1, ?_⟩
      -- the cursor is the largest occurrence of the block, hence its last element
      rcases hcur with h | h
      · rw [h, between_self] at hne; exact absurd rfl hne
      · exact sorted_getLast (between_sorted hocc _ _) h (fun y hy => (hmem y hy).2)
  · intro hnil
    refine ⟨e, h1, ?_⟩
    rcases hcur with h | h
    · exact h
    · rw [hnil] at h; cases h

/-- Non-vacuity: the log of a run with pops and edits over `store0`, and the per-entry streams:
`a` (every 3 ms from 0) got 3, 6; `b` (every 2 ms from 1 ms) got 2, 4, 6; `a2` got 6 (its cursor
started at 3 ms). -/
example :
    let ops := [COp.edit ["a", "b"] [], .start, .pop, .pop, .edit [] ["a"], .pop, .edit ["a2"] []]
    runLog CronEx.store0 ops =
      [("a", 3000000), ("b", 2000000), ("b", 4000000), ("a", 6000000), ("b", 6000000),
        ("a2", 6000000)] ∧
    logFor "a" (runLog CronEx.store0 ops) = [3000000, 6000000] ∧
    logFor "b" (runLog CronEx.store0 ops) = [2000000, 4000000, 6000000] ∧
    logFor "a2" (runLog CronEx.store0 ops) = [6000000] ∧
    (CronEx.store0.run ops).ents.map (·.prev) = [6000000, 6000000, 6000000, 0] := by decide

example : CronEx.store0.ent "b" = some CronEx.entB ∧ CronEx.entB.occ.Pairwise (· < ·) :=
  ⟨rfl, by decide⟩

/-! ### 5. cron clause of C18: mutators never disturb the occurrence sequence -/

/-- `Pop`, any code version, no invariant, whatever the popped task's mutators do (even if they
panic): the entry found under the head's identity moves to its next *un-mutated* occurrence `o`,
every other lookup is unchanged. The right-hand sides mention neither `muts` nor the clock. -/
theorem C18_cron_cursor_pop (c : Cron) (t : WTask) (ht : c.head = some t) (e : CEntry)
    (hl : c.lookup t = some e) (o : Time) (hno : e.nextOcc = some o) :
    c.pop.1.ent e.name = some { e with prev := o } ∧
    (∀ n, n ≠ e.name → c.pop.1.ent n = c.ent n) := by
  rw [pop_some ht]
  have he := (lookup_some hl).1
  constructor
  · simp only [resetTimer_ent, popNext_ent, hl, Option.any_some, he, Option.map_some,
      beq_self_eq_true, if_true, CEntry.advance_prev hno]
  · intro n hn
    simp only [resetTimer_ent, popNext_ent, hl, Option.any_some]
    cases hx : c.ent n with
    | none => rfl
    | some x =>
      have : x.name = n := (ent_some hx).1
      simp [this, hn]

/-- Replacement form: two stores with the same object store and the same stored identities whose
heads have the same identity — but arbitrary (different) mutators, times, ranks, clocks — have the
same cursors after `Pop`. -/
theorem C18_cron_cursor_pop_indep (c1 c2 : Cron) (hents : c1.ents = c2.ents)
    (hentries : c1.entries = c2.entries)
    (hhead : c1.head.map (·.key) = c2.head.map (·.key)) (n : String) :
    c1.pop.1.ent n = c2.pop.1.ent n := by
  have hent : ∀ m, c1.ent m = c2.ent m := fun m => ent_congr hents m
  have hlook : ∀ t1 t2 : WTask, t1.key = t2.key → c1.lookup t1 = c2.lookup t2 := by
    intro t1 t2 hk
    unfold Cron.lookup
    rw [hentries, hk]
    congr 1
    funext kv
    exact hent kv.2
  cases h1 : c1.head with
  | none =>
    cases h2 : c2.head with
    | none => rw [pop_none h1, pop_none h2]; exact hent n
    | some t2 => rw [h1, h2] at hhead; cases hhead
  | some t1 =>
    cases h2 : c2.head with
    | none => rw [h1, h2] at hhead; cases hhead
    | some t2 =>
      rw [h1, h2] at hhead
      have hk : t1.key = t2.key := by simpa using hhead
      rw [pop_some h1, pop_some h2]
      simp only [resetTimer_ent, popNext_ent, hlook t1 t2 hk, hent n]

/-- Accepted `EditTask`: the cursors afterwards are given by a formula that mentions neither the
mutators nor the parse oracles — each added entry moves to its next un-mutated occurrence. -/
theorem C18_cron_cursor_edit (c : Cron) (hf : c.fixed = true) (added removed : List String)
    (hacc : (c.editTask added removed).2 = true) (n : String) :
    (c.editTask added removed).1.ent n =
      (c.ent n).map (fun x => if added.contains x.name then x.advance else x) := by
  have := step_ent hf (.edit added removed) n
  have hadv : ∀ m, advSet c (.edit added removed) m = added.contains m := by
    intro m
    show ((c.editTask added removed).2 && added.contains m) = _
    rw [hacc]; rfl
  simp only [hadv] at this
  exact this

/-- Replacement form for edits: changing what `ParseDuration` / `ParseInt` return for the
RandomizeScheduledAt labels of the entries (hence the loaded mutators) does not change any cursor,
provided both edits are accepted. -/
theorem C18_cron_cursor_edit_indep (c1 c2 : Cron) (hf1 : c1.fixed = true) (hf2 : c2.fixed = true)
    (fMin fMax : CEntry → Mut.ParseOracle)
    (hents : c2.ents = c1.ents.map (fun e => { e with oMin := fMin e, oMax := fMax e }))
    (added removed : List String)
    (h1 : (c1.editTask added removed).2 = true) (h2 : (c2.editTask added removed).2 = true)
    (n : String) :
    ((c2.editTask added removed).1.ent n).map (·.prev) =
      ((c1.editTask added removed).1.ent n).map (·.prev) := by
  rw [C18_cron_cursor_edit c1 hf1 added removed h1, C18_cron_cursor_edit c2 hf2 added removed h2]
  have hent : c2.ent n = (c1.ent n).map (fun e => { e with oMin := fMin e, oMax := fMax e }) := by
    unfold Cron.ent
    rw [hents, List.find?_map]
    rfl
  rw [hent]
  cases c1.ent n with
  | none => rfl
  | some e =>
    simp only [Option.map_some]
    congr 1
    split
    · have hp : ∀ x : CEntry, x.advance.prev = x.nextOcc.getD x.prev := by
        intro x; unfold CEntry.advance; cases x.nextOcc <;> rfl
      rw [hp, hp]; rfl
    · rfl

/-- Non-vacuity: an entry with a `ScheduleAtNow` mutator: its pending task is scheduled "now"
(1 ms), yet its cursor sits on the un-mutated occurrence 3 ms and the next pop hands out 6 ms's
slot (again mutated to "now"), not a time derived from the mutated one. -/
example :
    let e : CEntry :=
      { CronEx.entA with
          name := "now", base := { workId := some "wn", meta_ := some [(Mut.labelNow, "")] } }
    let c0 : Cron := { ents := [e], clock := { now := 1000000 } }
    let c1 := c0.run [.edit ["now"] [], .start]
    let c2 := c1.run [.advance 4000000, .pop]
    c1.pending.map (·.task.scheduledAt) = [1000000] ∧ c1.ents.map (·.prev) = [3000000] ∧
    c2.pending.map (·.task.scheduledAt) = [4000000] ∧ c2.ents.map (·.prev) = [6000000] := by
  decide

end Gk
