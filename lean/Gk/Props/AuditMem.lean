import Gk.Props.C02
import Gk.Props.C14
open Gk

#print axioms Gk.C02_less_strict_total
#print axioms Gk.C02_getNext_spec
#print axioms Gk.C02_never_unscheduled
#print axioms Gk.Mem_refines_Spec
#print axioms Gk.Mem_inv_preserved
#print axioms Gk.C02_getNext_is_min
#print axioms Gk.C02_run_refines
#print axioms Gk.C02_getNext_is_min_ev
#print axioms Gk.C02ex.fresh
#print axioms Gk.C02ex.freshEv
#print axioms Gk.C02_witness_noFix_breaks_heap
#print axioms Gk.C02_witness_noFix_wrong_next
#print axioms Gk.C14_load_inv
#print axioms Gk.C14_load_invalid_noop
#print axioms Gk.C14_roundtrip
#print axioms Gk.C14_bisim
#print axioms Gk.C14_restore_indistinguishable
#print axioms Gk.Mem.lt_order
#print axioms Gk.Mem.inv_empty
#print axioms Gk.Mem.step_inv
#print axioms Gk.Mem.refines
#print axioms Gk.Mem.load_inv
#print axioms Gk.Mem.load_refines
#print axioms Gk.Repo.getNext_some_iff
#print axioms Gk.Repo.getNext_none_iff
