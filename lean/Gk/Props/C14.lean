/-
C14 — Save / Load of the in-memory repository: a restored repository is indistinguishable from the
original (same tasks, same listing order, same GetNext order including ties).

Proofs live in `Gk/Proofs/Mem.lean` (and below it). This file only states the properties.
-/
import Gk.Proofs.Mem
import Gk.Props.C02

namespace Gk

/-- `Load` of valid tasks with distinct ids succeeds and yields a state satisfying the invariant whose
tasks are exactly the loaded list, in order: only the scheduled tasks are on the heap, the `Index`
fields are fresh and correct (`Inv.idx_ok`), the array is a heap (`Inv.is_heap`), and the insertion
ranks are `1 … n` in list order. The previous state `m` is irrelevant. -/
theorem C14_load_inv (kv : List Task) (m : Mem) (hv : ∀ t ∈ kv, t.isValid = true)
    (nd : (kv.map (·.id)).Nodup) :
    (Mem.load kv m).2 = .ok ∧ (Mem.load kv m).1.Inv ∧ (Mem.load kv m).1.tasks = kv ∧
    (∀ id, id ∈ (Mem.load kv m).1.heap.arr.toList ↔ ∃ t ∈ kv, t.id = id ∧ t.state = .scheduled) ∧
    (Mem.load kv m).1.counter = kv.length ∧
    (∀ (i : Nat) (hi : i < kv.length), (Mem.load kv m).1.rank kv[i].id = i + 1) ∧
    (Mem.load kv m).1 = (Mem.load kv {}).1 := by
  obtain ⟨h1, h2, h3⟩ := Mem.load_inv kv m hv nd
  refine ⟨h1, h2, h3, ?_, ?_, ?_, ?_⟩
  · intro id
    rw [h2.heap_mem id, h3]
  · rw [Mem.load_valid kv m hv]
    show (kv.foldl Mem.appendTask {}).counter = kv.length
    rw [Mem.foldl_appendTask_counter]
    show 0 + kv.length = kv.length
    omega
  · intro i hi
    rw [Mem.load_valid kv m hv]
    show (kv.foldl Mem.appendTask {}).rank kv[i].id = i + 1
    rw [Mem.foldl_appendTask_rank kv {} nd i hi]
    show 0 + i + 1 = i + 1
    omega
  · rw [Mem.load_valid kv m hv, Mem.load_valid kv {} hv]

/-- `Load` with an invalid task changes nothing and reports `invalidTask`. -/
theorem C14_load_invalid_noop (kv : List Task) (m : Mem) (hv : ∃ t ∈ kv, t.isValid = false) :
    Mem.load kv m = (m, .err .invalidTask) :=
  Mem.load_invalid kv m hv

/-- `Load ∘ Save` restores the same abstract state (the same tasks in the same order), and the
restored repository satisfies the invariant. -/
theorem C14_roundtrip {m : Mem} (inv : m.Inv) (hv : ∀ t ∈ m.tasks, t.isValid = true) (m0 : Mem) :
    (Mem.load m.save m0).2 = .ok ∧ (Mem.load m.save m0).1.abs = m.abs ∧
    (Mem.load m.save m0).1.Inv := by
  obtain ⟨h1, h2, h3⟩ := Mem.load_inv m.save m0 hv inv.ids_nodup
  refine ⟨h1, ?_, h2⟩
  unfold Mem.abs
  rw [h3]
  rfl

/-- Two repositories satisfying the invariant and storing the same tasks (in the same order) are
observationally equivalent: every history (fresh ids) produces the same outputs from both —
including every `GetNext` and every listing — and ends with the same stored tasks. -/
theorem C14_bisim (fl : Flags) {m1 m2 : Mem} (i1 : m1.Inv) (i2 : m2.Inv) (e : m1.tasks = m2.tasks)
    (h : List (Time × Op)) (hf : Mem.Fresh fl m1 h) :
    Mem.outs fl m1 h = Mem.outs fl m2 h ∧ (Mem.run fl m1 h).tasks = (Mem.run fl m2 h).tasks ∧
    Mem.Fresh fl m2 h := by
  induction h generalizing m1 m2 with
  | nil => exact ⟨rfl, e, trivial⟩
  | cons x rest ih =>
    obtain ⟨now, op⟩ := x
    obtain ⟨hop, hfr, hrest⟩ := hf
    have eabs : m1.abs = m2.abs := by unfold Mem.abs; rw [e]
    have hfr2 : Mem.FreshOp m2 op := by
      cases op <;> first | trivial | (simp only [Mem.FreshOp] at hfr ⊢; rw [← e]; exact hfr)
    have r1 := Mem.refines fl i1 now op hop
    have r2 := Mem.refines fl i2 now op hop
    have eout : (Mem.step fl m1 now op).2 = (Mem.step fl m2 now op).2 := by
      rw [r1.1, r2.1, eabs]
    have etasks : (Mem.step fl m1 now op).1.tasks = (Mem.step fl m2 now op).1.tasks := by
      have : (Mem.step fl m1 now op).1.abs = (Mem.step fl m2 now op).1.abs := by
        rw [r1.2, r2.2, eabs]
      exact congrArg Repo.tasks this
    obtain ⟨o, t, f⟩ := ih (Mem.step_inv fl i1 now op hfr) (Mem.step_inv fl i2 now op hfr2) etasks hrest
    refine ⟨?_, t, hop, hfr2, f⟩
    simp only [Mem.outs]
    rw [eout, o]

/-- Hence the original and the restored repository are indistinguishable. -/
theorem C14_restore_indistinguishable (fl : Flags) {m : Mem} (inv : m.Inv)
    (hv : ∀ t ∈ m.tasks, t.isValid = true) (m0 : Mem) (h : List (Time × Op))
    (hf : Mem.Fresh fl m h) :
    Mem.outs fl (Mem.load m.save m0).1 h = Mem.outs fl m h ∧
    (Mem.run fl (Mem.load m.save m0).1 h).tasks = (Mem.run fl m h).tasks := by
  obtain ⟨-, h2, h3⟩ := C14_roundtrip inv hv m0
  have e : m.tasks = (Mem.load m.save m0).1.tasks := (congrArg Repo.tasks h2).symm
  obtain ⟨o, t, -⟩ := C14_bisim fl inv h3 e h hf
  exact ⟨o.symm, t.symm⟩

/-! ### Non-vacuity -/

namespace C14ex
def ta : Task := C02ex.pa.normalize.toTask "a" 5000000
def tb : Task := { C02ex.pb.normalize.toTask "b" 6000000 with
  state := .cancelled, cancelledAt := some 7000000 }
def kv : List Task := [ta, tb]
def bad : Task := { ta with workId := "" }
end C14ex

-- the hypotheses of `C14_load_inv` are satisfiable, with a scheduled and an unscheduled task
example : (Mem.load C14ex.kv {}).1.Inv ∧ (Mem.load C14ex.kv {}).1.tasks = C14ex.kv :=
  have h := C14_load_inv C14ex.kv {} (by decide) (by decide)
  ⟨h.2.1, h.2.2.1⟩
example : "a" ∈ (Mem.load C14ex.kv {}).1.heap.arr.toList ∧
    "b" ∉ (Mem.load C14ex.kv {}).1.heap.arr.toList := by
  have h := (C14_load_inv C14ex.kv {} (by decide) (by decide)).2.2.2.1
  constructor
  · rw [h]; exact ⟨C14ex.ta, by decide, rfl, rfl⟩
  · rw [h]; decide
example : Mem.load [C14ex.ta, C14ex.bad] (Mem.run {} {} C02ex.hist) =
    (Mem.run {} {} C02ex.hist, .err .invalidTask) :=
  C14_load_invalid_noop _ _ ⟨C14ex.bad, by decide, by decide⟩

-- the hypotheses of `C14_roundtrip` / `C14_restore_indistinguishable` are satisfiable by a non-empty
-- repository, and a fresh continuation exists
example : (Mem.run {} {} C02ex.hist).Inv ∧ (∀ t ∈ (Mem.run {} {} C02ex.hist).tasks, t.isValid = true) ∧
    (Mem.run {} {} C02ex.hist).tasks.length = 2 ∧
    Mem.Fresh {} (Mem.run {} {} C02ex.hist) [(9000000, .next), (9000000, .cancel "b"), (9000000, .next)] :=
  ⟨Mem.run_inv {} Mem.inv_empty _ C02ex.fresh, by decide +kernel, by decide +kernel,
    ⟨rfl, trivial, rfl, trivial, rfl, trivial, trivial⟩⟩

end Gk
