/-
C02 — GetNext returns the minimum of the scheduled tasks w.r.t.
(scheduled_at asc, priority desc, created_at asc, insertion order asc), in the specification and in
the in-memory implementation (heap of ids + `Index` fields); `Impl.Mem` refines `Spec.Repo`.

Proofs live in `Gk/Proofs/` (`KeyOrder`, `GetNext`, `MemInv`, `MemStep`, `Mem`, and the heap theory
`Heap*`). This file only states the properties.
-/
import Gk.Proofs.Mem

namespace Gk

/-! ### The comparator -/

/-- `sortabletask.Less` (`Key.less`) is a strict total order on keys, hence the heap comparator of
`Impl.Mem` (its pull-back along `keyOf`) satisfies the order axioms the heap proofs need —
unconditionally, whatever the task list and the ranks. -/
theorem C02_less_strict_total :
    (∀ a : Key, a.less a = false) ∧
    (∀ a b c : Key, a.less b = true → b.less c = true → a.less c = true) ∧
    (∀ a b : Key, a ≠ b → a.less b = true ∨ b.less a = true) ∧
    (∀ a b c : Key, a.less b = false → b.less c = false → a.less c = false) ∧
    (∀ (tasks : List Task) (rank : String → Nat), H.LtOrder (Mem.lt tasks rank)) :=
  ⟨Key.less_irrefl, fun _ _ _ => Key.less_trans, fun _ _ => Key.less_total,
    fun _ _ _ => Key.less_ntrans, Mem.lt_order⟩

-- non-vacuity: the order is not empty, and ties on the three task fields are broken by the rank
example : Key.less ⟨1, 0, 0, 0⟩ ⟨2, 0, 0, 0⟩ = true := by decide
example : Key.less ⟨1, 5, 0, 7⟩ ⟨1, 3, 0, 2⟩ = true := by decide
example : Key.less ⟨1, 0, 0, 1⟩ ⟨1, 0, 0, 2⟩ = true ∧ Key.less ⟨1, 0, 0, 2⟩ ⟨1, 0, 0, 1⟩ = false := by
  decide

/-! ### The specification -/

/-- `GetNext` of the specification returns `t` iff `t` is a scheduled task, stored at some position
`i`, that is minimal among the scheduled tasks; it reports `exhausted` iff nothing is scheduled. -/
theorem C02_getNext_spec :
    (∀ (r : Repo) (t : Task),
      r.getNext = some t ↔
        ∃ i : Nat, r.tasks[i]? = some t ∧ t.state = .scheduled ∧
          ∀ (j : Nat) (t' : Task), r.tasks[j]? = some t' → t'.state = .scheduled →
            (t'.key j).less (t.key i) = false) ∧
    (∀ r : Repo, r.getNext = none ↔ ∀ t ∈ r.tasks, t.state ≠ .scheduled) :=
  ⟨Repo.getNext_some_iff, Repo.getNext_none_iff⟩

/-- `GetNext` never returns a task that is not stored or not scheduled. -/
theorem C02_never_unscheduled (r : Repo) (t : Task) (h : r.getNext = some t) :
    t ∈ r.tasks ∧ t.state = .scheduled :=
  Repo.getNext_scheduled r t h

namespace C02ex
def pa : Param := { workId := some "w", scheduledAt := some 2000000 }
def pb : Param := { workId := some "w", scheduledAt := some 1000000 }
/-- add a (later), add b (earlier), cancel b, get next. -/
def hist : List (Time × Op) :=
  [(5000000, .add "a" pa), (6000000, .add "b" pb), (7000000, .next)]
def hist' : List (Time × Op) := hist ++ [(8000000, .cancel "b"), (9000000, .cancel "a")]
end C02ex

-- non-vacuity: both answers occur
example : (Repo.run {} {} C02ex.hist).getNext = some (C02ex.pb.normalize.toTask "b" 6000000) := by
  decide
example : (Repo.run {} {} C02ex.hist').getNext = none := by decide
example : ∃ t ∈ (Repo.run {} {} C02ex.hist').tasks, t.state ≠ .scheduled := by decide

/-! ### The implementation -/

/-- `Impl.Mem` refines `Spec.Repo` through `Mem.abs` on every operation of the in-memory API:
same output, and the abstraction of the new state is the new specification state.
(Only `next` uses the invariant; freshness of ids is needed for `Mem.step_inv`, not here.) -/
theorem Mem_refines_Spec (fl : Flags) {m : Mem} (inv : m.Inv) (now : Time) (op : Op)
    (hop : op.isMem = true) :
    (Mem.step fl m now op).2 = (Repo.step fl m.abs now op).2 ∧
    (Mem.step fl m now op).1.abs = (Repo.step fl m.abs now op).1 :=
  Mem.refines fl inv now op hop

/-- The invariant holds initially and is preserved by every operation (`add` with a fresh id). -/
theorem Mem_inv_preserved (fl : Flags) :
    Mem.Inv {} ∧
    ∀ {m : Mem}, m.Inv → ∀ (now : Time) (op : Op), Mem.FreshOp m op → (Mem.step fl m now op).1.Inv :=
  ⟨Mem.inv_empty, fun inv now op hf => Mem.step_inv fl inv now op hf⟩

/-- Along any history of in-memory operations with fresh ids, starting from the empty repository,
the implementation's `GetNext` answers exactly what the specification's `getNext` selects on the
stored tasks: the minimal scheduled task, or `exhausted`. -/
theorem C02_getNext_is_min (fl : Flags) (h : List (Time × Op)) (hf : Mem.Fresh fl {} h) (now : Time) :
    (Mem.step fl (Mem.run fl {} h) now .next).2 =
      match Repo.getNext (Mem.run fl {} h).abs with
      | some t => .task t
      | none => .err .exhausted :=
  Mem.next_out fl (Mem.run_inv fl Mem.inv_empty h hf) now

/-- …and the stored tasks are those of the specification run on the same history; all outputs
agree. -/
theorem C02_run_refines (fl : Flags) (h : List (Time × Op)) (hf : Mem.Fresh fl {} h) :
    (Mem.run fl {} h).abs = Repo.run fl {} h ∧ Mem.outs fl {} h = Repo.outs fl {} h ∧
      (Mem.run fl {} h).Inv :=
  ⟨(Mem.run_refines fl Mem.inv_empty h hf).1, (Mem.run_refines fl Mem.inv_empty h hf).2,
    Mem.run_inv fl Mem.inv_empty h hf⟩

/-- The same with `Load` events anywhere in the history (each loaded list has distinct ids). -/
theorem C02_getNext_is_min_ev (fl : Flags) (h : List Mem.Ev) (hf : Mem.FreshEvs fl {} h)
    (now : Time) :
    (Mem.step fl (Mem.runEv fl {} h) now .next).2 =
      (match Repo.getNext (Mem.runEv fl {} h).abs with
      | some t => .task t
      | none => .err .exhausted) ∧
    (Mem.runEv fl {} h).abs = Repo.runEv fl {} h :=
  ⟨Mem.next_out fl (Mem.runEv_inv fl Mem.inv_empty h hf) now,
    Mem.runEv_refines fl Mem.inv_empty h hf⟩

-- non-vacuity: a fresh history exists, and on it GetNext answers the earlier task "b"
theorem C02ex.fresh : Mem.Fresh {} {} C02ex.hist := by
  refine ⟨rfl, ?_, rfl, ?_, rfl, trivial, trivial⟩
  · show "a" ∉ _
    decide
  · show "b" ∉ _
    decide

example : (Mem.step {} (Mem.run {} {} C02ex.hist) 0 .next).2 =
    .task (C02ex.pb.normalize.toTask "b" 6000000) := by
  rw [C02_getNext_is_min {} C02ex.hist C02ex.fresh 0]
  have : Repo.getNext (Mem.run {} {} C02ex.hist).abs =
      some (C02ex.pb.normalize.toTask "b" 6000000) := by decide +kernel
  rw [this]

theorem C02ex.freshEv : Mem.FreshEvs {} {}
    [.op 5000000 (.add "a" C02ex.pa), .load [C02ex.pb.normalize.toTask "b" 6000000],
     .op 7000000 (.add "a" C02ex.pa)] := by
  refine ⟨⟨rfl, ?_⟩, ?_, ⟨rfl, ?_⟩, trivial⟩
  · show "a" ∉ _
    decide
  · show List.Nodup _
    decide
  · show "a" ∉ _
    decide

/-! ### The obligation is not vacuous: `UpdateById` without `heap.Fix` -/

/-- `Mem.step` with the `heap.Fix` call of `UpdateById` removed. -/
def Mem.stepNoFix (fl : Flags) (m : Mem) (now : Time) : Op → Mem × Out
  | .update id p =>
    if !p.validForUpdate then (m, .err .invalidTask)
    else
      match m.lookup id with
      | none => (m, .err .idNotFound)
      | some t =>
        if t.state != .scheduled then
          match errKindMutate t with
          | some e => (m, .err e)
          | none => (m, .ok)
        else ({ m with tasks := Mem.replaceTask m.tasks id (fun t => t.update p.normalize) }, .ok)
  | op => Mem.step fl m now op

namespace C02ex
def p1 : Param := { workId := some "w", scheduledAt := some 1000000 }
def p2 : Param := { workId := some "w", scheduledAt := some 2000000 }
def p3 : Param := { workId := some "w", scheduledAt := some 3000000 }
def hist3 : List (Time × Op) :=
  [(5000000, .add "a" p1), (5000000, .add "b" p2), (5000000, .add "c" p3)]
/-- postpone "a" behind everything -/
def late : Param := { scheduledAt := some 9000000 }
def good : Mem := (Mem.step {} (Mem.run {} {} hist3) 6000000 (.update "a" late)).1
def bad : Mem := (Mem.stepNoFix {} (Mem.run {} {} hist3) 6000000 (.update "a" late)).1
end C02ex

/-- Without `Fix`, a 3-task history followed by one update leaves an array that is not a heap for the
comparator reading the updated tasks … -/
theorem C02_witness_noFix_breaks_heap :
    ¬ H.IsHeap (Mem.lt C02ex.bad.tasks C02ex.bad.rank) C02ex.bad.heap.arr := by
  intro h
  have := h 0 1 (by decide +kernel) (by decide +kernel) (Or.inl rfl)
  revert this
  clear h
  decide +kernel

/-- … and `GetNext` then returns the postponed task "a" although the specification (and the real
`step`, which calls `Fix`) selects "b". -/
theorem C02_witness_noFix_wrong_next :
    (Mem.step {} C02ex.bad 7000000 .next).2 ≠ (Repo.step {} C02ex.bad.abs 7000000 .next).2 ∧
    (Mem.step {} C02ex.good 7000000 .next).2 = (Repo.step {} C02ex.good.abs 7000000 .next).2 ∧
    C02ex.good.abs = C02ex.bad.abs := by
  decide +kernel

end Gk
