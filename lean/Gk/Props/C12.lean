/-
C12 — stored tasks are always valid, ms-normalised and timestamp-consistent; ids and creation times
never change; invalid parameters are rejected.
(The arithmetic facts `normalize_idem`, `isNorm_normalize`, `normalize_le`, `lt_normalize_add`,
`normalize_mono` live in `Gk/Proofs/Repo.lean`.)
-/
import Gk.Proofs.Repo
namespace Gk

/-- The invariant is preserved by every operation (all 11, including the recovery operations). -/
theorem C12_inv_step {r : Repo} {now : Time} {op : Op} (h : r.WF) (hf : op.fresh r) :
    (Repo.step {} r now op).1.WF :=
  (step_shape h now op).wf h hf

/-- Non-vacuity: a concrete non-trivial well-formed state and a fresh add. -/
example : Ex.repo.WF ∧ (Op.add "c" Ex.p1).fresh Ex.repo ∧
    (Repo.step {} Ex.repo 3000000 (.add "c" Ex.p1)).1.tasks.length = 3 := by
  refine ⟨?_, ?_, ?_⟩
  · unfold Repo.WF; decide
  · unfold Op.fresh; decide
  · decide

/-- Everything a step returns is well formed. -/
theorem C12_returned {r : Repo} {now : Time} {op : Op} (h : r.WF) (_hf : op.fresh r) :
    match (Repo.step {} r now op).2 with
    | .task t => t.wellFormed = true
    | .tasks ts => ∀ t ∈ ts, t.wellFormed = true
    | _ => True := by
  have h1 : ∀ t, (Repo.step {} r now op).2 = .task t → t.wellFormed = true := by
    intro t ht
    rcases step_out_task ht with ⟨id, p, -, rfl, hv⟩ | ⟨id, -, hl⟩ | ⟨-, hn⟩
    · rw [Task.wellFormed_iff]
      exact ⟨hv, toTask_timesNormalized .., toTask_consistent ..⟩
    · exact h.1 t (Repo.lookup_some hl).1
    · exact h.1 t (Repo.getNext_mem hn).1
  have h2 : ∀ ts, (Repo.step {} r now op).2 = .tasks ts → ∀ t ∈ ts, t.wellFormed = true :=
    fun ts hts t ht => h.1 t (step_out_tasks hts t ht)
  generalize (Repo.step {} r now op).2 = out at h1 h2
  cases out with
  | task t => exact h1 t rfl
  | tasks ts => exact h2 ts rfl
  | ok => trivial
  | err e => trivial

/-- The invariant holds along every fresh history, from any well-formed start. -/
theorem C12_history_from {r : Repo} (h : r.WF) {hist : List (Time × Op)}
    (hh : Repo.FreshHist {} r hist) : (Repo.run {} r hist).WF := by
  induction hist generalizing r with
  | nil => exact h
  | cons x rest ih =>
    obtain ⟨now, op⟩ := x
    exact ih (C12_inv_step h hh.1) hh.2.2

theorem C12_history {hist : List (Time × Op)} (hh : Repo.FreshHist {} {} hist) :
    (Repo.run {} {} hist).WF :=
  C12_history_from Repo.WF_empty hh

/-- Non-vacuity: a fresh history through every lifecycle operation (including refused ones) that
ends with three tasks in three different states. -/
example : Repo.FreshHist {} {} Ex.hist ∧
    (Repo.run {} {} Ex.hist).tasks.map (·.state) = [.err, .cancelled, .dispatched] := by
  refine ⟨?_, by decide⟩
  simp only [Ex.hist, Repo.FreshHist, Op.fresh]
  decide

/-- Ids and creation times never change. (`op.fresh r` is needed: see the report.) -/
theorem C12_id_created_immutable_partial {r : Repo} {now : Time} {op : Op} (h : r.WF)
    (hf : op.fresh r) :
    ∀ t ∈ r.tasks, ∀ t' ∈ (Repo.step {} r now op).1.tasks, t'.id = t.id → t'.createdAt = t.createdAt :=
  fun _ ht _ ht' hid => ((step_shape h now op).same_id h hf ht ht' hid).created

/-- Without `op.fresh r` the statement is false: a second `add` with a stored id appends a task
with the same id and a new creation time. -/
theorem C12_id_created_immutable_needs_fresh :
    ∃ (r : Repo) (now : Time) (op : Op), r.WF ∧
      ¬ ∀ t ∈ r.tasks, ∀ t' ∈ (Repo.step {} r now op).1.tasks, t'.id = t.id → t'.createdAt = t.createdAt := by
  refine ⟨Ex.repo, 9000000, .add "a" Ex.p1, ?_, ?_⟩
  · unfold Repo.WF; decide
  · decide

theorem C12_never_lost {fl : Flags} {r : Repo} {now : Time} {op : Op} (hop : op ≠ .deleteEnded) :
    ∀ t ∈ r.tasks, ∃ t' ∈ (Repo.step fl r now op).1.tasks, t'.id = t.id :=
  fun _ ht => step_never_lost fl r now hop ht

theorem C12_rejects_invalid_update {fl : Flags} {r : Repo} {now : Time} {id : String} {p : Param}
    (h : p.validForUpdate = false) : Repo.step fl r now (.update id p) = (r, .err .invalidTask) := by
  simp [Repo.step, h]

theorem C12_rejects_invalid_add {fl : Flags} {r : Repo} {now : Time} {id : String} {p : Param}
    (h : (p.normalize.toTask id now).isValid = false) :
    Repo.step fl r now (.add id p) = (r, .err .invalidTask) := by
  simp [Repo.step, h]

/-- Every step of the model satisfies the run-time monitor `Mon.c12Step`. -/
theorem C12_monitor {r : Repo} {now : Time} {op : Op} (h : r.WF) (hf : op.fresh r) :
    Mon.c12Step r.tasks (Repo.step {} r now op).1.tasks op (Repo.step {} r now op).2 = [] := by
  have hwf' := (step_shape h now op).wf h hf
  have himm := fun t ht t' ht' hid => ((step_shape h now op).same_id h hf (t := t) (t' := t') ht ht' hid).created
  have hupd : ∀ id p, op = .update id p → (Repo.step {} r now op).2 = .ok → p.validForUpdate = true := by
    intro id p hop hout
    subst hop
    cases hv : p.validForUpdate with
    | true => rfl
    | false => rw [C12_rejects_invalid_update hv] at hout; cases hout
  have hadd : ∀ id p t, op = .add id p → (Repo.step {} r now op).2 = .task t →
      (p.normalize.toTask id 1000000).isValid = true := by
    intro id p t hop hout
    subst hop
    rcases step_out_task hout with ⟨id', p', he, rfl, hv⟩ | ⟨id', he, -⟩ | ⟨he, -⟩
    · cases he
      by_cases hn : normalize now = 0
      · rw [toTask_invalid_of_zero _ _ hn] at hv; cases hv
      · rw [← toTask_isValid_now _ _ hn normalize_msNs_ne]; exact hv
    · cases he
    · cases he
  generalize (Repo.step {} r now op).2 = out at hupd hadd
  generalize (Repo.step {} r now op).1 = r' at hwf' himm
  unfold Mon.c12Step
  simp only [List.append_eq_nil_iff]
  refine ⟨⟨⟨?_, ?_⟩, ?_⟩, ?_⟩
  · rw [List.filterMap_eq_nil_iff]
    intro t' ht'
    split
    · rename_i p hp
      have hp1 := List.mem_of_find?_eq_some hp
      have hp2 := List.find?_some hp
      simp only [beq_iff_eq] at hp2
      simp [himm p hp1 t' ht' hp2.symm]
    · rfl
  · have := eraseDups_of_nodup _ hwf'.2
    simp [this]
  · cases op <;> cases out <;> try rfl
    · rename_i id p t
      simp [hadd id p t rfl rfl]
    · rename_i id p
      simp [hupd id p rfl rfl]
  · rw [List.flatMap_eq_nil_iff]
    exact fun t ht => c12Task_nil (hwf'.1 t ht)

end Gk
