/-
C09 — dispatch result protocol; cancellation and deadline reach the work function.
Theorems over `Disp.exec` (M7), for every combination of fetch outcome, registry content, deadline,
work-function behaviour and cancellation instant. The input space is finite; the proofs are by case
analysis over all of it (kernel-checked `decide` on each of the 480 combinations), not by sampling.
-/
import Gk.Disp
namespace Gk
open Disp

/-- the value a successful dispatch must deliver -/
def Disp.expectedValue (c : Case) : Val :=
  if !c.registered then .notFound                       -- no function registered
  else if c.cancel = .duringFetch then .ctx             -- the dispatch context ended before the work began
  else match c.beh with
    | .retNil => .nil
    | .retErr => .workErr
    | .panic => .panicErr
    | .block => if c.dl = .past then .deadline else if c.cancel = .running then .ctx else .deadline

local macro "all_cases" c:ident : tactic =>
  `(tactic| (rcases $c:ident with ⟨f, r, d, b, ca⟩; cases f <;> cases r <;> cases d <;> cases b <;> cases ca <;> decide))

/-- Every successful dispatch delivers exactly one result and then closes the channel. -/
theorem C09_success_one_then_closed (c : Case) :
    (exec true c).dispatchErr = none → (exec true c).values.length = 1 ∧ (exec true c).closed = true := by
  all_cases c

/-- … and that one result is the work function's return value / work-id-not-found / the cancellation
error if the dispatch context ended before the work began / an error if the work function panicked. -/
theorem C09_value (c : Case) :
    (exec true c).dispatchErr = none → (exec true c).values = [Disp.expectedValue c] := by
  all_cases c

/-- A failed dispatch (fetch error, or cancellation before / while waiting for a worker) never invokes
the work function and delivers nothing. -/
theorem C09_failed_dispatch_never_invokes (c : Case) :
    (exec true c).dispatchErr ≠ none → (exec true c).invoked = false ∧ (exec true c).values = [] := by
  all_cases c

/-- Which dispatches fail, and with what. -/
theorem C09_dispatch_error (c : Case) :
    (exec true c).dispatchErr =
      (if c.cancel = .beforeDispatch ∨ c.cancel = .waitingWorker then some .ctx
       else if c.fetch = .err then some .fetchErr else none) := by
  all_cases c

/-- The fetcher is not even called when the dispatch was cancelled before a worker took it;
a fetch error short-circuits before the registry lookup. -/
theorem C09_fetch_error_short_circuits (c : Case) :
    ((c.cancel = .beforeDispatch ∨ c.cancel = .waitingWorker) → (exec true c).fetchCalled = false) ∧
    (c.fetch = .err → (exec true c).invoked = false) := by
  all_cases c

/-- The work function runs iff the dispatch succeeded, a function is registered and the context was
still live when the work was about to begin. -/
theorem C09_invoked_iff (c : Case) :
    (exec true c).invoked = true ↔
      ((exec true c).dispatchErr = none ∧ c.registered = true ∧ c.cancel ≠ .duringFetch) := by
  all_cases c

/-- Cancellation of the dispatch context and the task's deadline are visible through the work context. -/
theorem C09_ctx_visible (c : Case) :
    (exec true c).invoked = true →
      ((c.cancel = .running → (exec true c).sawCancel = true) ∧
       (c.dl ≠ .none → (exec true c).sawDeadline = true)) := by
  all_cases c

/-- D5: in the pinned source a panicking work function closes the channel without a value. -/
theorem C09_D5_witness :
    (exec false ⟨.ok, true, .none, .panic, .never⟩).dispatchErr = none ∧
    (exec false ⟨.ok, true, .none, .panic, .never⟩).values = [] ∧
    (exec false ⟨.ok, true, .none, .panic, .never⟩).closed = true ∧
    (exec true ⟨.ok, true, .none, .panic, .never⟩).values = [.panicErr] := by decide

/-- non-vacuity: a successful, an unsuccessful and a cancelled-before-start case exist -/
example : (exec true ⟨.ok, true, .future, .retErr, .running⟩).dispatchErr = none ∧
    (exec true ⟨.err, true, .none, .retNil, .never⟩).dispatchErr ≠ none ∧
    (exec true ⟨.ok, true, .none, .retNil, .duringFetch⟩).values = [.ctx] := by decide

end Gk
