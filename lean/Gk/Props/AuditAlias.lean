/-
Axiom audit of the aliasing property (C19): only `propext`, `Classical.choice`, `Quot.sound` may appear.
-/
import Gk.Props.C19
open Gk

#print axioms Gk.C19_separation
#print axioms Gk.C19_value_semantics
#print axioms Gk.C19_D13_witness
