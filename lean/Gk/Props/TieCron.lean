/-
Tie theorems, `cron/cron.go` (timer functions): `resetTimer`, `stopTimer`, `StartTimer`, `StopTimer`, `NextScheduled`,
`LastTimerUpdateError` as generated from the CURRENT Go source (Gk/Gen/Cron.lean) are the model's `Cron.resetTimer` …
(Gk/Cron.lean, `fixed = true`) that C17's theorems are about.
-/
import Gk.Gen.Cron
namespace Gk.Tie
open Gk Gk.Gen Gk.Gen.Cron

theorem head_none_iff (c : Gk.Cron) : c.head = none ↔ c.pending = [] := by
  unfold Gk.Cron.head
  constructor
  · intro h
    cases hp : c.pending with
    | nil => rfl
    | cons w ws =>
      rw [hp] at h
      simp only [List.foldl_cons] at h
      -- after the first element the accumulator is `some _` and stays so
      have : ∀ (l : List WTask) (a : WTask), List.foldl (fun acc w => match acc with
          | none => some w
          | some m => if (Gk.Cron.wkey w).less (Gk.Cron.wkey m) then some w else some m) (some a) l ≠ none := by
        intro l
        induction l with
        | nil => intro a; simp
        | cons x xs ih => intro a; simp only [List.foldl_cons]; split <;> exact ih _
      exact absurd h (this ws w)
  · intro h; simp [h]

theorem schedLen_pos (g : GoCron) : decide (GoCron.schedLen g > 0) = g.rest.head.isSome := by
  unfold GoCron.schedLen
  cases hh : g.rest.head with
  | none => simp [(head_none_iff g.rest).1 hh]
  | some h =>
    have : g.rest.pending ≠ [] := fun hp => by rw [(head_none_iff g.rest).2 hp] at hh; cases hh
    cases hp : g.rest.pending with
    | nil => exact absurd hp this
    | cons x xs => simp

theorem head_toCron (g : GoCron) : g.toCron.head = g.rest.head := rfl

theorem stopDrainC (c : Clock) :
    (if (!(c.Stop).2) = true then Go.clockDrain (c.Stop).1 else (c.Stop).1) = c.stopAndDrain := by
  rcases c with ⟨now, armed, pending⟩
  cases armed <;> simp [Clock.Stop, Clock.stop, Clock.stopAndDrain, Go.clockDrain, Clock.consume]

theorem tie_cron_stopTimer (g : GoCron) (hf : g.rest.fixed = true) :
    (CronStore.stopTimer g).toCron = g.toCron.stopTimerRaw := by
  rcases g with ⟨st, ⟨now, armed, pending⟩, rest⟩
  cases armed <;>
    simp [CronStore.stopTimer, GoCron.toCron, Gk.Cron.stopTimerRaw, Clock.Stop, Clock.stop, Clock.stopAndDrain,
      Go.clockDrain, Clock.consume]

theorem tie_cron_resetTimer (g : GoCron) (hf : g.rest.fixed = true) :
    (CronStore.resetTimer g).toCron = g.toCron.resetTimer := by
  rcases g with ⟨st, ⟨now, armed, pending⟩, rest⟩
  simp only at hf
  cases st
  · simp [CronStore.resetTimer, Gk.Cron.resetTimer, GoCron.toCron, hf]
  · have hhead : (GoCron.toCron ⟨true, ⟨now, armed, pending⟩, rest⟩).head = rest.head := rfl
    cases hh : rest.head <;> cases armed <;>
      simp [CronStore.resetTimer, Gk.Cron.resetTimer, hhead, hh, hf, Clock.Stop, Clock.stop, Clock.stopAndDrain,
        Go.clockDrain, Clock.consume, schedLen_pos, GoCron.schedPeek, Clock.Reset, Clock.Now, Int.Sub] <;>
      simp [GoCron.toCron, hf]

theorem tie_cron_StartTimer (g : GoCron) (ctx : Ctx) (hf : g.rest.fixed = true) :
    (CronStore.StartTimer g ctx).toCron = g.toCron.startTimer := by
  simp only [CronStore.StartTimer, Gk.Cron.startTimer]
  rw [tie_cron_resetTimer { g with isTimerStarted := true } hf]
  rfl

theorem tie_cron_StopTimer (g : GoCron) (hf : g.rest.fixed = true) :
    (CronStore.StopTimer g).toCron = g.toCron.stopTimer := by
  simp only [CronStore.StopTimer, Gk.Cron.stopTimer]
  rw [tie_cron_stopTimer { g with isTimerStarted := false } hf]
  rfl

theorem tie_cron_NextScheduled (g : GoCron) : CronStore.NextScheduled g = g.toCron.nextScheduled := by
  have hhead : g.toCron.head = g.rest.head := rfl
  cases hh : g.rest.head <;>
    simp [CronStore.NextScheduled, Gk.Cron.nextScheduled, hhead, hh, schedLen_pos, GoCron.schedPeek, Go.time_Zero]

theorem tie_cron_LastTimerUpdateError (g : GoCron) : CronStore.LastTimerUpdateError g = none := rfl

end Gk.Tie
