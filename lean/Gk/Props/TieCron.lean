/-
Tie theorems, `cron/cron.go` (timer functions): `resetTimer`, `stopTimer`, `StartTimer`, `StopTimer`, `NextScheduled`,
`LastTimerUpdateError` as generated from the CURRENT Go source (Gk/Gen/Cron.lean) are the model's `Cron.resetTimer` …
(Gk/Cron.lean, `fixed = true`) that C17's theorems are about.
-/
import Gk.Gen.Cron
namespace Gk.Tie
open Gk Gk.Gen Gk.Gen.Cron

theorem head_none_iff (c : Gk.Cron) : c.head = none ↔ c.pending = [] := by
  unfold Gk.Cron.head
  constructor
  · intro h
    cases hp : c.pending with
    | nil => rfl
    | cons w ws =>
      rw [hp] at h
      simp only [List.foldl_cons] at h
      -- after the first element the accumulator is `some _` and stays so
      have : ∀ (l : List WTask) (a : WTask), List.foldl (fun acc w => match acc with
          | none => some w
          | some m => if (Gk.Cron.wkey w).less (Gk.Cron.wkey m) then some w else some m) (some a) l ≠ none := by
        intro l
        induction l with
        | nil => intro a; simp
        | cons x xs ih => intro a; simp only [List.foldl_cons]; split <;> exact ih _
      exact absurd h (this ws w)
  · intro h; simp [h]

theorem schedLen_pos (g : GoCron) : decide (GoCron.schedLen g > 0) = g.rest.head.isSome := by
  unfold GoCron.schedLen
  cases hh : g.rest.head with
  | none => simp [(head_none_iff g.rest).1 hh]
  | some h =>
    have : g.rest.pending ≠ [] := fun hp => by rw [(head_none_iff g.rest).2 hp] at hh; cases hh
    cases hp : g.rest.pending with
    | nil => exact absurd hp this
    | cons x xs => simp

@[simp] theorem toGenTask_ScheduledAt (t : Gk.Task) : (toGenTask t).ScheduledAt = t.scheduledAt := rfl

theorem head_toCron (g : GoCron) : g.toCron.head = g.rest.head := rfl

theorem stopDrainC (c : Clock) :
    (if (!(c.Stop).2) = true then Go.clockDrain (c.Stop).1 else (c.Stop).1) = c.stopAndDrain := by
  rcases c with ⟨now, armed, pending⟩
  cases armed <;> simp [Clock.Stop, Clock.stop, Clock.stopAndDrain, Go.clockDrain, Clock.consume]

theorem tie_cron_stopTimer (g : GoCron) (hf : g.rest.fixed = true) :
    (CronStore.stopTimer g).toCron = g.toCron.stopTimerRaw := by
  rcases g with ⟨st, ⟨now, armed, pending⟩, rest⟩
  cases armed <;>
    simp [CronStore.stopTimer, GoCron.toCron, Gk.Cron.stopTimerRaw, Clock.Stop, Clock.stop, Clock.stopAndDrain,
      Go.clockDrain, Clock.consume]

theorem tie_cron_resetTimer (g : GoCron) (hf : g.rest.fixed = true) :
    (CronStore.resetTimer g).toCron = g.toCron.resetTimer := by
  rcases g with ⟨st, ⟨now, armed, pending⟩, rest⟩
  simp only at hf
  cases st
  · simp [CronStore.resetTimer, Gk.Cron.resetTimer, GoCron.toCron, hf]
  · have hhead : (GoCron.toCron ⟨true, ⟨now, armed, pending⟩, rest⟩).head = rest.head := rfl
    cases hh : rest.head <;> cases armed <;>
      simp [CronStore.resetTimer, Gk.Cron.resetTimer, hhead, hh, hf, Clock.Stop, Clock.stop, Clock.stopAndDrain,
        Go.clockDrain, Clock.consume, schedLen_pos, GoCron.schedPeek, Clock.Reset, Clock.Now, Int.Sub] <;>
      simp [GoCron.toCron, hf]

theorem tie_cron_StartTimer (g : GoCron) (ctx : Ctx) (hf : g.rest.fixed = true) :
    (CronStore.StartTimer g ctx).toCron = g.toCron.startTimer := by
  simp only [CronStore.StartTimer, Gk.Cron.startTimer]
  rw [tie_cron_resetTimer { g with isTimerStarted := true } hf]
  rfl

theorem tie_cron_StopTimer (g : GoCron) (hf : g.rest.fixed = true) :
    (CronStore.StopTimer g).toCron = g.toCron.stopTimer := by
  simp only [CronStore.StopTimer, Gk.Cron.stopTimer]
  rw [tie_cron_stopTimer { g with isTimerStarted := false } hf]
  rfl

theorem tie_cron_NextScheduled (g : GoCron) : CronStore.NextScheduled g = g.toCron.nextScheduled := by
  have hhead : g.toCron.head = g.rest.head := rfl
  cases hh : g.rest.head <;>
    simp [CronStore.NextScheduled, Gk.Cron.nextScheduled, hhead, hh, schedLen_pos, GoCron.schedPeek, Go.time_Zero]

theorem tie_cron_LastTimerUpdateError (g : GoCron) : CronStore.LastTimerUpdateError g = none := rfl

/-! ### `Peek` and `Pop` (translated) = the model's `Cron.peek` / `Cron.pop` -/

/-- the model's `pop` is: drop the head, `pushNext`, `resetTimer` — the three steps the glue names -/
theorem pop_eq (c : Gk.Cron) : c.pop = match c.head with
    | none => (c, none)
    | some t => (((c.dropHead t).pushNext t).resetTimer, some t.task) := by
  unfold Gk.Cron.pop
  cases c.head <;> rfl

theorem schedLen_zero (g : GoCron) : (GoCron.schedLen g == 0) = g.rest.head.isNone := by
  have h := schedLen_pos g
  unfold GoCron.schedLen at *
  cases hh : g.rest.head with
  | none => simp [(head_none_iff g.rest).1 hh]
  | some x =>
    rw [hh] at h
    cases hp : g.rest.pending with
    | nil => rw [hp] at h; simp at h
    | cons y ys => simp; omega

theorem pushNext_frame (c : Gk.Cron) (t : WTask) :
    (c.pushNext t).clock = c.clock ∧ (c.pushNext t).started = c.started ∧ (c.pushNext t).fixed = c.fixed := by
  unfold Gk.Cron.pushNext
  split
  · exact ⟨rfl, rfl, rfl⟩
  · split
    · exact ⟨rfl, rfl, rfl⟩
    · dsimp only
      split <;> exact ⟨rfl, rfl, rfl⟩

theorem pushNext_toCron (g : GoCron) (t : GoWrapped) : (GoCron.pushNext g t).toCron = g.toCron.pushNext t.w := by
  obtain ⟨h1, h2, _⟩ := pushNext_frame g.toCron t.w
  have : g.toCron.pushNext t.w = { (g.toCron.pushNext t.w) with started := g.isTimerStarted, clock := g.clock } := by
    cases hx : g.toCron.pushNext t.w
    rw [hx] at h1 h2
    have e1 : g.toCron.clock = g.clock := rfl
    have e2 : g.toCron.started = g.isTimerStarted := rfl
    rw [e1] at h1; rw [e2] at h2
    simp only at h1 h2
    subst h1; subst h2; rfl
  rw [this]; rfl

theorem clone_toGenTask (t : Gk.Task) : (toGenTask t).Clone = toGenTask t := by
  simp [Gen.Def.Task.Clone, Go.maps_Clone, toGenTask]

/-- the answer of `Peek` / `Pop` for a model answer -/
def cronAns : Option Gk.Task → Gen.Def.Task × GoError
  | none => ((default : Gen.Def.Task), Go.repoErr (Kind := Gen.Def.Exhausted))
  | some t => (toGenTask t, none)

theorem tie_cron_Peek (g : GoCron) (ctx : Ctx) : CronStore.Peek g ctx = cronAns g.toCron.peek := by
  have hhead : g.toCron.head = g.rest.head := rfl
  unfold CronStore.Peek Gk.Cron.peek
  rw [schedLen_zero, hhead]
  cases hh : g.rest.head with
  | none => rfl
  | some h => simp [GoCron.schedPeek, hh, cronAns, clone_toGenTask, Go.nil]

theorem tie_cron_Pop (g : GoCron) (ctx : Ctx) (hf : g.rest.fixed = true) :
    (CronStore.Pop g ctx).1.toCron = (g.toCron.pop).1 ∧ (CronStore.Pop g ctx).2 = cronAns (g.toCron.pop).2 := by
  have hhead : g.toCron.head = g.rest.head := rfl
  rw [pop_eq, hhead]
  unfold CronStore.Pop
  rw [schedLen_zero]
  cases hh : g.rest.head with
  | none => exact ⟨rfl, rfl⟩
  | some h =>
    have hpop : GoCron.schedPop g = ({ g with rest := g.rest.dropHead h }, { Task := toGenTask h.task, w := h }) := by
      simp [GoCron.schedPop, hh]
    simp only [Option.isNone_some, Bool.false_eq_true, if_false, hpop]
    have hfix : (GoCron.pushNext { g with rest := g.rest.dropHead h } { Task := toGenTask h.task, w := h }).rest.fixed = true := by
      show (Gk.Cron.pushNext _ _).fixed = true
      rw [(pushNext_frame _ _).2.2]; exact hf
    refine ⟨?_, rfl⟩
    rw [tie_cron_resetTimer _ hfix, pushNext_toCron]
    rfl

end Gk.Tie
