/-
Axiom audit of the scheduler properties (C03, C04, C06, C20): only `propext`, `Classical.choice`,
`Quot.sound` may appear.
-/
import Gk.Props.C03
import Gk.Props.C04
import Gk.Props.C06
import Gk.Props.C20
open Gk Gk.WP

#print axioms step_lookup
#print axioms sched_spec
#print axioms step_spec
#print axioms Inv_wstep
#print axioms Inv_init
#print axioms Inv_run
#print axioms GInv_run
#print axioms TInv_wstep
#print axioms TInv_run
#print axioms QInv_wstep
#print axioms QInv_run
#print axioms C04_at_most_once
#print axioms C04_atMostOnce
#print axioms C04_dispatched_at_entry
#print axioms C04_dispatchedAtEntry
#print axioms C04_logged_are_dispatched_or_finished
#print axioms C04_no_start_after_terminal
#print axioms C04_not_after_cancel
#print axioms C04_not_after_finish
#print axioms C04_marked_by_this_run
#print axioms C04_marked_before_start
#print axioms C04_D4_witness
#print axioms C03_D3i_witness
#print axioms C03_full_false
#print axioms C03_D3i_variants
#print axioms C03_partial
#print axioms C03_held_is_due
#print axioms C03_D3ii_witness
#print axioms C06_counts
#print axioms C06_reported_once
#print axioms C06_running_completed_disjoint
#print axioms C06_markdone_faithful
#print axioms C06_markdone_failed_keeps_outcome
#print axioms C06_retry_reapplies
#print axioms C06_retry_tolerates_already_done
#print axioms C06_cancel_left_dispatched
#print axioms C06_started_never_rescheduled
#print axioms C06_reported_from_complete
#print axioms C06_recorded_at_quiescence
#print axioms C06_retry_of_cancelled_marks_err
#print axioms C20_safety
#print axioms C20_fault_noop
#print axioms C20_fault_states_are_errors
#print axioms C20_ctx_noop
