/-
C10 — linearizability.
The checker `Lin.linearizable` decides exactly the textbook definition (soundness + completeness),
a system of atomic critical sections only produces linearizable histories, and the lifecycle rules
make conflicting transitions on one task mutually exclusive in every linearizable history.
-/
import Gk.Proofs.Lin
import Gk.Props.C01
namespace Gk
open Gk.Lin

/-! ## 1, 2 — the checker's verdict is the definition -/

/-- The checker only accepts histories that have a sequential explanation: an order of the same
operations that respects real time and on which the specification returns the observed results. -/
theorem Lin_sound {same : Op → Out → Out → Bool} {r : Repo} {ops : List LOp} :
    linearizable same r ops = true →
      ∃ σ : List LOp, σ.Perm ops ∧ respectsRealTime σ = true ∧ replays same r σ = true :=
  search_sound ops.length r ops

/-- Every history with a sequential explanation is accepted. -/
theorem Lin_complete {same : Op → Out → Out → Bool} {r : Repo} {ops : List LOp} :
    (∃ σ : List LOp, σ.Perm ops ∧ respectsRealTime σ = true ∧ replays same r σ = true) →
      linearizable same r ops = true := by
  rintro ⟨σ, hp, hrt, hrep⟩
  unfold linearizable
  rw [← hp.length_eq]
  exact search_complete σ r ops hp hrt hrep

theorem Lin_iff {same : Op → Out → Out → Bool} {r : Repo} {ops : List LOp} :
    linearizable same r ops = true ↔
      ∃ σ : List LOp, σ.Perm ops ∧ respectsRealTime σ = true ∧ replays same r σ = true :=
  ⟨Lin_sound, Lin_complete⟩

/-- `respectsRealTime` is the informal definition: an operation that returned before another was
called comes first (no later element of the order returned before an earlier one was called). -/
theorem Lin_respectsRealTime_spec {σ : List LOp} :
    respectsRealTime σ = true ↔
      ∀ (i j : Nat) (_ : i < σ.length) (_ : j < σ.length), i < j → ¬ σ[j].ret < σ[i].call :=
  respectsRealTime_iff_getElem

/-- The verdict does not depend on the order in which the history was recorded. -/
theorem Lin_perm_invariant {same : Op → Out → Out → Bool} {r : Repo} {ops ops' : List LOp}
    (hp : ops.Perm ops') : linearizable same r ops = linearizable same r ops' := by
  rw [Bool.eq_iff_iff, Lin_iff, Lin_iff]
  exact ⟨fun ⟨σ, h, h'⟩ => ⟨σ, h.trans hp, h'⟩, fun ⟨σ, h, h'⟩ => ⟨σ, h.trans hp.symm, h'⟩⟩

/-! ## 3 — atomic critical sections give linearizable histories -/

/-- (b) ⇒ real time is respected: if the critical sections ran in the order of `σ`, each inside the
interval of its operation, then no later element of `σ` returned before an earlier one was called. -/
theorem C10_sections_respect_real_time {σ : List LOp} (h : AtomicSections σ) :
    respectsRealTime σ = true :=
  h.respectsRealTime

/-- Any comparison `same`. -/
theorem C10_atomic_sections_gen {same : Op → Out → Out → Bool} {r : Repo} {σ ops : List LOp}
    (hrep : replays same r σ = true) (hsec : AtomicSections σ) (hp : ops.Perm σ) :
    linearizable same r ops = true :=
  Lin_complete ⟨σ, hp.symm, hsec.respectsRealTime, hrep⟩

/-- A system in which every operation is one `Repo.step` executed atomically at some instant
between its call and its return produces only linearizable histories.
`σ` = the completed operations in the order their critical sections ran;
(a) `replays sameExact r σ`: each result is what the specification returns at that point;
(b) `AtomicSections σ`: `∃ τ : Nat → Nat`, strictly increasing on the indices of `σ`, with
    `σ[k].call ≤ τ k ≤ σ[k].ret`;
`ops` = the history as recorded, in any order. -/
theorem C10_atomic_sections {r : Repo} {σ ops : List LOp}
    (hrep : replays sameExact r σ = true) (hsec : AtomicSections σ) (hp : ops.Perm σ) :
    linearizable sameExact r ops = true :=
  C10_atomic_sections_gen hrep hsec hp

/-- The same with the instants as a strictly increasing list zipped with the operations. -/
theorem C10_atomic_sections_list {r : Repo} {σ ops : List LOp} {instants : List Nat}
    (hrep : replays sameExact r σ = true) (hsec : AtomicSectionsL σ instants) (hp : ops.Perm σ) :
    linearizable sameExact r ops = true :=
  C10_atomic_sections hrep hsec.toFun hp

/-- The atomic system itself: executing requests one `Repo.step` at a time (`runAtomic`) at strictly
increasing instants inside the requests' intervals yields a linearizable history, however the
completed operations are listed. -/
theorem C10_runAtomic_linearizable {r : Repo} {qs : List Req} {ops : List LOp} (τ : Nat → Nat)
    (hmono : ∀ i j, i < j → j < qs.length → τ i < τ j)
    (hin : ∀ (k : Nat) (h : k < qs.length), qs[k].call ≤ τ k ∧ τ k ≤ qs[k].ret)
    (hp : ops.Perm (runAtomic r qs)) : linearizable sameExact r ops = true := by
  refine C10_atomic_sections (replays_runAtomic r qs) ⟨τ, ?_, ?_⟩ hp
  · intro i j hij hj
    exact hmono i j hij (length_runAtomic r qs ▸ hj)
  · intro k hk
    have hk' : k < qs.length := length_runAtomic r qs ▸ hk
    obtain ⟨h1, h2⟩ := getElem_runAtomic_call_ret r qs k hk hk'
    rw [h1, h2]
    exact hin k hk'

/-! ## 4 — conflicting transitions on one task -/

/-- What a successful `mutateScheduled` leaves behind. -/
private theorem after_mutate {r : Repo} (h : r.WF) {id : String} {t : Task}
    (hl : r.lookup id = some t) (hs : t.state = .scheduled) (f : Task → Task)
    (hf : (f t).id = t.id) :
    r.mutateScheduled id f = (r.replace id f, .ok) ∧ (r.replace id f).lookup id = some (f t) := by
  refine ⟨?_, lookup_replace hl hf⟩
  rw [mutateScheduled_spec h, hl]
  simp only [hs]

/-- Every mutation of a task that is not scheduled is refused with the kind of its state. -/
private theorem refused {r : Repo} {id : String} {e : Err}
    (he : ∀ f, r.mutateScheduled id f = (r, .err e)) (now : Time) :
    (Repo.step {} r now (.dispatch id)).2 = .err e ∧
    (Repo.step {} r now (.cancel id)).2 = .err e ∧
    (∀ p, p.validForUpdate = true → (Repo.step {} r now (.update id p)).2 = .err e) := by
  refine ⟨?_, ?_, ?_⟩
  · simp only [Repo.step, he]
  · simp only [Repo.step, he]
  · intro p hp
    simp only [Repo.step, hp, Bool.not_true, Bool.false_eq_true, if_false, he]

/-- Of two conflicting transitions on one scheduled task at most one returns ok: after a successful
`cancel`, `dispatch` / `cancel` / `update` (with a valid parameter) are refused with
`alreadyCancelled`; after a successful `dispatch` they are refused with `alreadyDispatched`. -/
theorem C10_conflict {r : Repo} (h : r.WF) {id : String} {t : Task}
    (hl : r.lookup id = some t) (hs : t.state = .scheduled) (now : Time) :
    ((Repo.step {} r now (.cancel id)).2 = .ok ∧
      ∀ now', let r' := (Repo.step {} r now (.cancel id)).1
        (Repo.step {} r' now' (.dispatch id)).2 = .err .alreadyCancelled ∧
        (Repo.step {} r' now' (.cancel id)).2 = .err .alreadyCancelled ∧
        (∀ p, p.validForUpdate = true →
          (Repo.step {} r' now' (.update id p)).2 = .err .alreadyCancelled)) ∧
    ((Repo.step {} r now (.dispatch id)).2 = .ok ∧
      ∀ now', let r' := (Repo.step {} r now (.dispatch id)).1
        (Repo.step {} r' now' (.dispatch id)).2 = .err .alreadyDispatched ∧
        (Repo.step {} r' now' (.cancel id)).2 = .err .alreadyDispatched ∧
        (∀ p, p.validForUpdate = true →
          (Repo.step {} r' now' (.update id p)).2 = .err .alreadyDispatched)) := by
  constructor
  · have hwf : (Repo.step {} r now (.cancel id)).1.WF := Shape.wf (op := .cancel id) h trivial (step_shape h now _)
    obtain ⟨h1, h2⟩ := after_mutate h hl hs
      (fun t => { t with state := .cancelled, cancelledAt := some (normalize now) }) rfl
    have hstep : Repo.step {} r now (.cancel id) = (r.replace id _, .ok) := h1
    rw [hstep] at hwf ⊢
    refine ⟨rfl, fun now' => refused (fun f => ?_) now'⟩
    rw [mutateScheduled_spec hwf, h2]
  · have hwf : (Repo.step {} r now (.dispatch id)).1.WF :=
      Shape.wf (op := .dispatch id) h trivial (step_shape h now _)
    obtain ⟨h1, h2⟩ := after_mutate h hl hs
      (fun t => { t with state := .dispatched, dispatchedAt := some (normalize now) }) rfl
    have hstep : Repo.step {} r now (.dispatch id) = (r.replace id _, .ok) := h1
    rw [hstep] at hwf ⊢
    refine ⟨rfl, fun now' => refused (fun f => ?_) now'⟩
    rw [mutateScheduled_spec hwf, h2]

private theorem sameExact_eq {op : Op} {a b : Out} (h : sameExact op a b = true) : a = b := by
  simpa [sameExact] using h

private theorem perm_pair {α} {σ : List α} {c d : α} (hp : σ.Perm [c, d]) :
    σ = [c, d] ∨ σ = [d, c] := by
  match σ, hp with
  | [a, b], hp =>
    have ha : a ∈ [c, d] := hp.mem_iff.mp List.mem_cons_self
    simp only [List.mem_cons, List.not_mem_nil, or_false] at ha
    rcases ha with rfl | rfl
    · have := List.perm_singleton.mp hp.cons_inv
      exact .inl (by rw [this])
    · have := List.perm_singleton.mp (hp.trans (List.Perm.swap a c [])).cons_inv
      exact .inr (by rw [this])
  | [], hp => exact absurd hp.length_eq (by simp)
  | [_], hp => exact absurd hp.length_eq (by simp)
  | _ :: _ :: _ :: _, hp => exact absurd hp.length_eq (by simp)

/-- In a linearizable history a racing `cancel` and `dispatch` of one task never both succeed
(on any well-formed repository, whatever the state of the task). -/
theorem C10_conflict_race_wf {r : Repo} (h : r.WF) {id : String} {c d : LOp}
    (hc : c.op = .cancel id) (hd : d.op = .dispatch id)
    (hlin : linearizable sameExact r [c, d] = true) : ¬ (c.out = .ok ∧ d.out = .ok) := by
  rintro ⟨hco, hdo⟩
  obtain ⟨σ, hp, -, hrep⟩ := Lin_sound hlin
  rcases perm_pair hp with rfl | rfl
  · rw [replays_cons, replays_cons] at hrep
    obtain ⟨h1, h2, -⟩ := hrep
    have h1 := sameExact_eq h1
    have h2 := sameExact_eq h2
    rw [hc] at h1 h2
    rw [hd] at h2
    rw [hco] at h1
    rw [hdo] at h2
    obtain ⟨t, hl, hs⟩ := (C01_success_needs_state (now := c.now) h).2.1 id h1.symm
    have := ((C10_conflict h hl hs c.now).1.2 d.now).1
    rw [this] at h2
    cases h2
  · rw [replays_cons, replays_cons] at hrep
    obtain ⟨h1, h2, -⟩ := hrep
    have h1 := sameExact_eq h1
    have h2 := sameExact_eq h2
    rw [hd] at h1 h2
    rw [hc] at h2
    rw [hdo] at h1
    rw [hco] at h2
    obtain ⟨t, hl, hs⟩ := (C01_success_needs_state (now := d.now) h).2.2.1 id h1.symm
    have := ((C10_conflict h hl hs d.now).2.2 c.now).2.1
    rw [this] at h2
    cases h2

/-- The form asked for: the task is scheduled in `r`. -/
theorem C10_conflict_race {r : Repo} (h : r.WF) {id : String} {t : Task}
    (_hl : r.lookup id = some t) (_hs : t.state = .scheduled) {c d : LOp}
    (hc : c.op = .cancel id) (hd : d.op = .dispatch id)
    (hlin : linearizable sameExact r [c, d] = true) : ¬ (c.out = .ok ∧ d.out = .ok) :=
  C10_conflict_race_wf h hc hd hlin

/-! ## 5 — non-vacuity -/

namespace ExLin

def p : Param := { workId := some "w", scheduledAt := some 5000000 }

def tA : Task :=
  { id := "a", workId := "w", priority := 0, state := .scheduled, err := "", param := [], meta_ := [],
    scheduledAt := 5000000, createdAt := 1000000, deadline := none, cancelledAt := none,
    dispatchedAt := none, doneAt := none }

def tB : Task := { tA with id := "b" }

/-- Two overlapping adds (all sort keys tied) and an overlapping Find that saw `b` before `a`:
linearizable (as `add b; add a; find`), although `add a` was called first. -/
def good : List LOp :=
  [{ call := 0, ret := 3, now := 1000000, op := .add "a" p, out := .task tA },
   { call := 1, ret := 4, now := 1000000, op := .add "b" p, out := .task tB },
   { call := 2, ret := 5, now := 1000000, op := .find {} 0 (-1), out := .tasks [tB, tA] }]

/-- The D14 pattern: the Find (after both adds) lists `[b, a]`, so `b` was inserted first and wins
the full tie, but GetNext returns `a`. -/
def bad : List LOp :=
  [{ call := 0, ret := 2, now := 1000000, op := .add "a" p, out := .task tA },
   { call := 1, ret := 3, now := 1000000, op := .add "b" p, out := .task tB },
   { call := 4, ret := 5, now := 1000000, op := .find {} 0 (-1), out := .tasks [tB, tA] },
   { call := 6, ret := 7, now := 1000000, op := .next, out := .task tA }]

/-- A cancel racing a dispatch on the scheduled task `a`, both reporting success. -/
def race : List LOp :=
  [{ call := 0, ret := 2, now := 2000000, op := .cancel "a", out := .ok },
   { call := 1, ret := 3, now := 2000000, op := .dispatch "a", out := .ok }]

/-- Requests for the atomic system, with overlapping intervals. -/
def reqs : List Req :=
  [{ call := 1, ret := 4, now := 1000000, op := .add "b" p },
   { call := 0, ret := 3, now := 1000000, op := .add "a" p },
   { call := 2, ret := 5, now := 1000000, op := .find {} 0 (-1) }]

end ExLin

theorem C10_ex_linearizable : linearizable sameExact {} ExLin.good = true := by decide
theorem C10_ex_not_linearizable : linearizable sameExact {} ExLin.bad = false := by decide
/-- with GetNext returning `b` the same history is linearizable -/
theorem C10_ex_repaired : linearizable sameExact {}
    (ExLin.bad.take 3 ++ [{ call := 6, ret := 7, now := 1000000, op := .next, out := .task ExLin.tB }])
    = true := by decide
/-- the hypotheses of `C10_conflict_race` hold of a concrete state, and its conclusion has bite:
the checker rejects the history in which both racing transitions succeeded and accepts the ones in
which exactly one did -/
theorem C10_ex_race : Repo.WF { tasks := [ExLin.tA] } ∧
    { tasks := [ExLin.tA] : Repo }.lookup "a" = some ExLin.tA ∧ ExLin.tA.state = .scheduled ∧
    linearizable sameExact { tasks := [ExLin.tA] } ExLin.race = false ∧
    linearizable sameExact { tasks := [ExLin.tA] }
      [{ call := 0, ret := 2, now := 2000000, op := .cancel "a", out := .ok },
       { call := 1, ret := 3, now := 2000000, op := .dispatch "a", out := .err .alreadyCancelled }]
      = true ∧
    linearizable sameExact { tasks := [ExLin.tA] }
      [{ call := 0, ret := 2, now := 2000000, op := .cancel "a", out := .err .alreadyDispatched },
       { call := 1, ret := 3, now := 2000000, op := .dispatch "a", out := .ok }]
      = true := by
  refine ⟨?_, by decide, rfl, by decide, by decide, by decide⟩
  unfold Repo.WF; decide
/-- the atomic system on overlapping requests, critical sections at the instants 1 < 2 < 3 -/
theorem C10_ex_atomic : AtomicSectionsL (runAtomic {} ExLin.reqs) [1, 2, 3] ∧
    (runAtomic {} ExLin.reqs).map (·.out) = [.task ExLin.tB, .task ExLin.tA, .tasks [ExLin.tB, ExLin.tA]] := by
  refine ⟨⟨rfl, by decide, ?_⟩, by decide⟩
  decide

end Gk
