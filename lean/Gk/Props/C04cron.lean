/-
C04 / C03 / C15 in the cron configuration (Scheduler over `volatileTaskRepo` over the cron store,
model `Gk.CWorld`): the formal witness of the open finding D18.

`volatileTaskRepo.MarkAsDispatched` asks the cron store for its head (`Peek`) and, if that is the
announced occurrence, removes "it" with a second call (`Pop`). The two calls are separate critical
sections of the cron store; an `EditTask` that lands between them and puts another entry in front
makes `Pop` remove a DIFFERENT occurrence. The scheduler then runs the announced occurrence, which is
still pending in the store (it will be announced and run again: at-most-once is violated), while the
occurrence that was actually removed never runs (an occurrence is skipped).
-/
import Gk.WorldCron
import Gk.Proofs.Cron
namespace Gk
namespace D18

/-- entry `a` (every 3 ms) stored, timer started at 0.5 ms, then 4 ms pass: `a@3ms` is due. -/
def init : CWorld :=
  let c := ((CronEx.store0).editTask ["a"] []).1.startTimer
  ({ v := { cron := c } } : CWorld).step (.advance 4000000)

/-- one fault-free `Step` through the timer branch: announces the head -/
def announce : List ActC :=
  [.sched .beginStep, .sched .lastTimerErr, .sched .selTimer, .sched .peek, .sched (.getNext .none),
   .sched .nextScheduled]

/-- the dispatching `Step`, with the user's `EditTask` (adding entry `b`, whose first occurrence `b@2ms`
sorts before `a@3ms`) landing between `volatileTaskRepo`'s Peek and Pop -/
def dispatchRaced : List ActC :=
  [.sched .beginStep, .sched .lastTimerErr, .sched (.waitWorker true), .sched .peek,
   .edit ["b"] [],
   .sched .pop, .sched (.markDispatched .none), .sched (.getById .none)]

/-- the same `Step` without interference -/
def dispatch : List ActC :=
  [.sched .beginStep, .sched .lastTimerErr, .sched (.waitWorker true), .sched .peek,
   .sched .pop, .sched (.markDispatched .none), .sched (.getById .none)]

end D18

/-- D18, first half: the work function of occurrence `#1` (`a@3ms`) is started although the cron store
handed out (popped) occurrence `#2` (`b@2ms`); `#1` is still pending in the store and `#2` is gone
without having run. -/
theorem C04_D18_witness :
    let w := D18.init.run (D18.announce ++ D18.dispatchRaced)
    w.stuck = false ∧ w.pc = .idle ∧ w.ret = .dispatched "#1" ∧
    w.log.map (fun e => (e.id, e.task.workId, e.task.scheduledAt)) = [("#1", "wa", 3000000)] ∧
    w.popped = ["#2"] ∧ w.ranArePopped = false ∧
    w.v.cron.pending.map (fun p => (p.tid, p.task.workId, p.task.scheduledAt)) =
      [("#1", "wa", 3000000), ("#3", "wb", 4000000)] := by
  decide

/-- D18, second half: the fair driver goes on, announces `#1` again and runs it a second time. -/
theorem C04_D18_runs_twice :
    let w := D18.init.run (D18.announce ++ D18.dispatchRaced ++ D18.announce ++ D18.dispatch)
    w.stuck = false ∧ w.log.map (·.id) = ["#1", "#1"] ∧ w.atMostOnce = false ∧
    -- the occurrence b@2ms (`#2`) was removed from the store and never ran
    w.popped = ["#2", "#1"] ∧ !(w.log.map (·.id)).contains "#2" = true := by
  decide

/-- Without the interleaved edit the same two steps run `#1` once and the store moves on to `a@6ms`. -/
theorem C04_D18_absent_without_race :
    let w := D18.init.run (D18.announce ++ D18.dispatch)
    w.stuck = false ∧ w.log.map (·.id) = ["#1"] ∧ w.popped = ["#1"] ∧ w.ranArePopped = true ∧
    w.atMostOnce = true ∧ w.dispatchedAtEntry = true ∧ w.noEarlyStart = true ∧
    w.v.cron.pending.map (fun p => (p.tid, p.task.scheduledAt)) = [("#2", 6000000)] := by
  decide

end Gk
