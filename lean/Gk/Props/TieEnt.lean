/-
Tie theorems, `repository/ent/repository.go`: `AddTask`, `GetById`, `Cancel`, `MarkAsDispatched`, `MarkAsDone`, `UpdateById` as generated from
the CURRENT Go source (Gk/Gen/Ent.lean) issue exactly the statements of the two-statement protocol M13
(Gk/EntProto.lean): the first statement is `Ent.stmt`, and only when it misses, a second statement — which sees the
table after the other clients' `env` — is classified by `Ent.classify`.  `C10ent_linearizable` is about that protocol.
-/
import Gk.Gen.Ent
import Gk.EntProto
import Gk.Props.TieMem
import Gk.Proofs.Repo
import Gk.Proofs.EntProto
namespace Gk.Tie
open Gk Gk.Gen Gk.Gen.Ent


theorem tie_mapEntToDefTask (t : Gk.Task) : mapEntToDefTask (toEntRow t) = toGen t := rfl

theorem repo_lookup_id {r : Repo} {id : String} {t : Gk.Task} (h : r.lookup id = some t) : t.id = id := by
  unfold Repo.lookup at h
  have := List.find?_some h
  simpa using this

theorem name_beq (a b : St) : (a.name == b.name) = (a == b) := by cases a <;> cases b <;> decide

/-- the receiver after one more statement that left the table as it found it / changed it to `db'` -/
def GoEnt.after (r : GoEnt) (db' : Repo) : GoEnt := { r with db := db', nstmt := r.nstmt + 1 }

theorem getRow_some {r : GoEnt} {id : String} {t : Gk.Task} (h : r.seen.lookup id = some t) :
    GoEnt.getRow r none id = (GoEnt.after r r.seen, toEntRow t, none) := by
  simp only [GoEnt.getRow, h, GoEnt.after]

theorem getRow_none {r : GoEnt} {id : String} (h : r.seen.lookup id = none) :
    GoEnt.getRow r none id = (GoEnt.after r r.seen, default, Go.ent_NotFound) := by
  simp only [GoEnt.getRow, h, GoEnt.after]

/-- `GetById`: one SELECT. -/
theorem tie_ent_GetById (r : GoEnt) (id : String) :
    EntRepository.GetById r none id =
      (GoEnt.after r r.seen,
        (match r.seen.lookup id with | some t => toGen t | none => default),
        goErrOut id (match r.seen.lookup id with | some _ => Out.ok | none => Out.err .idNotFound)) := by
  cases h : r.seen.lookup id with
  | none =>
    simp [EntRepository.GetById, getRow_none h, Go.ent_IsNotFound, Go.ent_NotFound, Go.isNil, Go.IsNil.isNil, Go.repoErr,
      goErrOut, kindStr, Def.IdNotFound]
  | some t =>
    simp [EntRepository.GetById, getRow_some h, Go.isNil, Go.IsNil.isNil, Go.nil, goErrOut, tie_mapEntToDefTask]

theorem execUpdate_hit {r : GoEnt} {b : EntUpd} {t : Gk.Task} (h : r.seen.lookup b.id = some t)
    (hg : b.guardOk t = true) : GoEnt.execUpdate r b none = (GoEnt.after r (r.seen.replace b.id b.apply), none) := by
  simp only [GoEnt.execUpdate, h, hg, GoEnt.after, if_true]

theorem execUpdate_refused {r : GoEnt} {b : EntUpd} {t : Gk.Task} (h : r.seen.lookup b.id = some t)
    (hg : b.guardOk t = false) : GoEnt.execUpdate r b none = (GoEnt.after r r.seen, Go.ent_NotFound) := by
  simp [GoEnt.execUpdate, h, hg, GoEnt.after]

theorem execUpdate_unknown {r : GoEnt} {b : EntUpd} (h : r.seen.lookup b.id = none) :
    GoEnt.execUpdate r b none = (GoEnt.after r r.seen, Go.ent_NotFound) := by
  simp only [GoEnt.execUpdate, h, GoEnt.after]

/-- the second statement of a refused conditional UPDATE, as the three "mutate" methods spell it:
`t, err := r.GetById(ctx, id); if err != nil { return err }; return def.ErrKindX(t)` = `Ent.classify`. -/
theorem classify_tail (r1 : GoEnt) (id : String) (kindGo : Def.Task → GoError)
    (hk : ∀ t : Gk.Task, kindGo (toGen t) = wrapKind t (errKindMutate t)) :
    (match EntRepository.GetById r1 none id with
      | (r, t, err) => if (!(Go.isNil err)) then (r, err) else (r, kindGo t)) =
      (GoEnt.after r1 r1.seen, goErrOut id (Ent.refusal errKindMutate (r1.seen.lookup id))) := by
  rw [tie_ent_GetById]
  cases h : r1.seen.lookup id with
  | none => simp [goErrOut, Go.isNil, Go.IsNil.isNil, Ent.refusal]
  | some t =>
    have hid := repo_lookup_id h
    simp only [goErrOut, Go.isNil, Go.IsNil.isNil, Option.isNone_none, Bool.not_true, Bool.false_eq_true, if_false, hk,
      Ent.refusal]
    rw [refusal_mutate t id hid]
    cases errKindMutate t <;> rfl

theorem guard_of_lookup {db : Repo} {id : String} {t : Gk.Task} (h : db.lookup id = some t) (s : St) :
    Ent.guard db id s = (t.state == s) := by simp [Ent.guard, h]

theorem guard_of_unknown {db : Repo} {id : String} (h : db.lookup id = none) (s : St) :
    Ent.guard db id s = false := by simp [Ent.guard, h]

/-- what the two-statement methods compute, in the model's terms: the first statement on the table the call finds,
and after a miss the classification of a later read (the other clients' `env` has run in between). -/
def twoPhase (r : GoEnt) (id : String) (op : Op) : GoEnt × GoError :=
  match Ent.stmt r.seen r.now op with
  | .fin db' out => (GoEnt.after r db', goErrOut id out)
  | .miss =>
    let r1 := GoEnt.after r r.seen
    (GoEnt.after r1 r1.seen, goErrOut id ((Ent.classify r1.seen op).getD .ok))

theorem tie_ent_Cancel (r : GoEnt) (id : String) :
    EntRepository.Cancel r none id = twoPhase r id (.cancel id) := by
  simp only [EntRepository.Cancel, twoPhase, Ent.stmt, Ent.classify, Option.getD_some]
  generalize hb : ((((r.client.Task.UpdateOneID id).Where (EntTask.StateEQ EntTask.StateScheduled)).SetState
    EntTask.StateCancelled).SetCancelledAt (Def.NormalizeTime r.clock.Now)) = b
  have hbid : b.id = id := by subst hb; rfl
  have happly : b.apply = Ent.setCancel r.now := by
    subst hb; funext t
    simp [EntUpd.apply, EntUpd.SetCancelledAt, EntUpd.SetState, EntUpd.Where, EntTaskClient.UpdateOneID, Ent.setCancel,
      EntTask.StateCancelled, stOf, tie_NormalizeTime, GoEnt.clock]
  have hguard : ∀ t : Gk.Task, b.guardOk t = (t.state == .scheduled) := by
    subst hb; intro t
    simp only [EntUpd.guardOk, EntUpd.SetCancelledAt, EntUpd.SetState, EntUpd.Where, EntTask.StateEQ, EntTask.StateScheduled]
    exact name_beq t.state .scheduled
  cases h : r.seen.lookup id with
  | none =>
    rw [guard_of_unknown h]
    have := execUpdate_unknown (r := r) (b := b) (by rw [hbid]; exact h)
    simp only [this, Go.ent_IsNotFound, beq_self_eq_true, if_true, Bool.false_eq_true, if_false]
    exact classify_tail _ id _ tie_ErrKindCancel
  | some t =>
    rw [guard_of_lookup h]
    by_cases hs : t.state = .scheduled
    · have := execUpdate_hit (r := r) (b := b) (by rw [hbid]; exact h) (by rw [hguard]; simp [hs])
      simp [this, hs, Go.ent_IsNotFound, Go.ent_NotFound, Go.isNil, Go.IsNil.isNil, Go.nil, goErrOut, hbid, happly]
    · have hs' : (t.state == St.scheduled) = false := by simpa using hs
      have := execUpdate_refused (r := r) (b := b) (by rw [hbid]; exact h) (by rw [hguard]; exact hs')
      simp only [this, hs', Go.ent_IsNotFound, beq_self_eq_true, if_true, Bool.false_eq_true, if_false]
      exact classify_tail _ id _ tie_ErrKindCancel

theorem tie_ent_MarkAsDispatched (r : GoEnt) (id : String) :
    EntRepository.MarkAsDispatched r none id = twoPhase r id (.dispatch id) := by
  simp only [EntRepository.MarkAsDispatched, twoPhase, Ent.stmt, Ent.classify, Option.getD_some]
  generalize hb : ((((r.client.Task.UpdateOneID id).Where (EntTask.StateEQ EntTask.StateScheduled)).SetState
    EntTask.StateDispatched).SetDispatchedAt (Def.NormalizeTime r.clock.Now)) = b
  have hbid : b.id = id := by subst hb; rfl
  have happly : b.apply = Ent.setDispatch r.now := by
    subst hb; funext t
    simp [EntUpd.apply, EntUpd.SetDispatchedAt, EntUpd.SetState, EntUpd.Where, EntTaskClient.UpdateOneID, Ent.setDispatch,
      EntTask.StateDispatched, stOf, tie_NormalizeTime, GoEnt.clock]
  have hguard : ∀ t : Gk.Task, b.guardOk t = (t.state == .scheduled) := by
    subst hb; intro t
    simp only [EntUpd.guardOk, EntUpd.SetDispatchedAt, EntUpd.SetState, EntUpd.Where, EntTask.StateEQ, EntTask.StateScheduled]
    exact name_beq t.state .scheduled
  cases h : r.seen.lookup id with
  | none =>
    rw [guard_of_unknown h]
    have := execUpdate_unknown (r := r) (b := b) (by rw [hbid]; exact h)
    simp only [this, Go.ent_IsNotFound, beq_self_eq_true, if_true, Bool.false_eq_true, if_false]
    exact classify_tail _ id _ tie_ErrKindMarkAsDispatch
  | some t =>
    rw [guard_of_lookup h]
    by_cases hs : t.state = .scheduled
    · have := execUpdate_hit (r := r) (b := b) (by rw [hbid]; exact h) (by rw [hguard]; simp [hs])
      simp [this, hs, Go.ent_IsNotFound, Go.ent_NotFound, Go.isNil, Go.IsNil.isNil, Go.nil, goErrOut, hbid, happly]
    · have hs' : (t.state == St.scheduled) = false := by simpa using hs
      have := execUpdate_refused (r := r) (b := b) (by rw [hbid]; exact h) (by rw [hguard]; exact hs')
      simp only [this, hs', Go.ent_IsNotFound, beq_self_eq_true, if_true, Bool.false_eq_true, if_false]
      exact classify_tail _ id _ tie_ErrKindMarkAsDispatch

/-! ### UpdateById -/

theorem fakeTask_eq : Ent.fakeTask = toGen Gk.fakeTask := by rfl

theorem tie_ent_validForUpdate (p : Gk.Param) : ((Ent.fakeTask).Update (toGenP p)).IsValid = p.validForUpdate := by
  rw [fakeTask_eq, tie_Task_Update, tie_IsValid]; rfl

/-- the common shape of `Cancel` / `MarkAsDispatched` / the builder path of `UpdateById`: a conditional UPDATE guarded
by `state = scheduled`, and after a miss the classifying read. -/
theorem mutate_core (r : GoEnt) (id : String) (op : Op) (B : EntUpd) (kindGo : Def.Task → GoError)
    (hk : ∀ t : Gk.Task, kindGo (toGen t) = wrapKind t (errKindMutate t)) (f : Gk.Task → Gk.Task)
    (hid : B.id = id) (hg : ∀ t, B.guardOk t = (t.state == .scheduled))
    (ha : r.seen.replace id B.apply = r.seen.replace id f)
    (hstmt : Ent.stmt r.seen r.now op =
      if Ent.guard r.seen id .scheduled then .fin (r.seen.replace id f) .ok else .miss)
    (hcl : ∀ db, Ent.classify db op = some (Ent.refusal errKindMutate (db.lookup id))) :
    (if Go.ent_IsNotFound (r.execUpdate B none).2 = true then
        (match EntRepository.GetById (r.execUpdate B none).1 none id with
          | (r, t, err) => if (!(Go.isNil err)) then (r, err) else (r, kindGo t))
      else if (!(Go.isNil (r.execUpdate B none).2)) = true then ((r.execUpdate B none).1, (r.execUpdate B none).2)
      else ((r.execUpdate B none).1, Go.nil)) = twoPhase r id op := by
  simp only [twoPhase, hstmt, hcl, Option.getD_some]
  cases h : r.seen.lookup id with
  | none =>
    rw [guard_of_unknown h]
    have := execUpdate_unknown (r := r) (b := B) (by rw [hid]; exact h)
    simp only [this, Go.ent_IsNotFound, beq_self_eq_true, if_true, Bool.false_eq_true, if_false]
    exact classify_tail _ id _ hk
  | some t =>
    rw [guard_of_lookup h]
    by_cases hs : t.state = .scheduled
    · have := execUpdate_hit (r := r) (b := B) (by rw [hid]; exact h) (by rw [hg]; simp [hs])
      simp [this, hs, Go.ent_IsNotFound, Go.ent_NotFound, Go.isNil, Go.IsNil.isNil, Go.nil, goErrOut, hid, ha]
    · have hs' : (t.state == St.scheduled) = false := by simpa using hs
      have := execUpdate_refused (r := r) (b := B) (by rw [hid]; exact h) (by rw [hg]; exact hs')
      simp only [this, hs', Go.ent_IsNotFound, beq_self_eq_true, if_true, Bool.false_eq_true, if_false]
      exact classify_tail _ id _ hk

/-! ### the builder of `UpdateById` -/

theorem if_SetWorkID (b : EntUpd) (o : Option String) :
    (if o.IsSome = true then b.SetWorkID o.Value else b) = { b with workId := o.or b.workId } := by
  cases o <;> simp [Option.IsSome, Option.Value, EntUpd.SetWorkID]
theorem if_SetParam (b : EntUpd) (o : Option SMap) :
    (if o.IsSome = true then b.SetParam (if Go.isNil o.Value = true then Go.emptyMap else o.Value) else b) =
      { b with param := o.or b.param } := by
  cases o with
  | none => simp [Option.IsSome]
  | some m => cases m <;> simp [Option.IsSome, Option.Value, EntUpd.SetParam, Go.isNil, Go.IsNil.isNil, Go.emptyMap]
theorem if_SetMeta (b : EntUpd) (o : Option SMap) :
    (if o.IsSome = true then b.SetMeta (if Go.isNil o.Value = true then Go.emptyMap else o.Value) else b) =
      { b with meta_ := o.or b.meta_ } := by
  cases o with
  | none => simp [Option.IsSome]
  | some m => cases m <;> simp [Option.IsSome, Option.Value, EntUpd.SetMeta, Go.isNil, Go.IsNil.isNil, Go.emptyMap]
theorem if_SetPriority (b : EntUpd) (o : Option Int) :
    (if o.IsSome = true then b.SetPriority o.Value else b) = { b with priority := o.or b.priority } := by
  cases o <;> simp [Option.IsSome, Option.Value, EntUpd.SetPriority]
theorem if_SetScheduledAt (b : EntUpd) (o : Option Time) :
    (if o.IsSome = true then b.SetScheduledAt o.Value else b) = { b with scheduledAt := o.or b.scheduledAt } := by
  cases o <;> simp [Option.IsSome, Option.Value, EntUpd.SetScheduledAt]
theorem if_SetDeadline (b : EntUpd) (o : Option (Option Time)) :
    (if o.IsSome = true then (if o.Value.IsSome = true then b.SetDeadline o.Value.Value else b.ClearDeadline) else b) =
      { b with deadline := o.or b.deadline } := by
  cases o with
  | none => simp [Option.IsSome]
  | some d => cases d <;> simp [Option.IsSome, Option.Value, EntUpd.SetDeadline, EntUpd.ClearDeadline]

theorem repo_replace_congr (db : Repo) (id : String) (f g : Gk.Task → Gk.Task) (h : ∀ t ∈ db.tasks, f t = g t) :
    db.replace id f = db.replace id g := by
  obtain ⟨ts⟩ := db
  simp only [Repo.replace, Repo.mk.injEq]
  apply List.map_congr_left
  intro t ht
  split
  · exact h t ht
  · rfl

def updOf (id : String) (ws : Option String) (q : Gk.Param) : EntUpd :=
  { id := id, whereState := ws, workId := q.workId, param := q.param, priority := q.priority,
    scheduledAt := q.scheduledAt, deadline := q.deadline, meta_ := q.meta_ }

/-- The SET clause of `UpdateById` on a row whose times are normalised is `Task.Update(param.Normalize())`. -/
theorem updApply (q : Gk.Param) (t : Gk.Task) (ht : t.timesNormalized = true)
    (hq : q.normalize = q) (b : EntUpd) (hb : b = updOf b.id b.whereState q) :
    b.apply t = t.update q := by
  rw [hb]; unfold updOf
  obtain ⟨w, pr, pa, me, s, d⟩ := q
  simp only [Param.normalize, Param.mk.injEq, true_and] at hq
  obtain ⟨hs, hd⟩ := hq
  simp only [Task.timesNormalized, Bool.and_eq_true, isNorm_iff, optNorm_iff] at ht
  obtain ⟨⟨⟨⟨⟨h1, h2⟩, h3⟩, h4⟩, h5⟩, h6⟩ := ht
  obtain ⟨a1, a2, a3, a4, a5, a6, a7, a8, a9, a10, a11, a12, a13⟩ := t
  simp only [EntUpd.apply, Task.update, Task.normalizeTime] at *
  cases s <;> cases d <;> simp_all

theorem tie_ent_UpdateById (r : GoEnt) (id : String) (p : Gk.Param)
    (hn : ∀ t ∈ r.seen.tasks, t.timesNormalized = true) :
    EntRepository.UpdateById r none id (toGenP p) =
      if p.validForUpdate then twoPhase r id (.update id p) else (r, goErrOut id (.err .invalidTask)) := by
  unfold EntRepository.UpdateById
  cases hv : p.validForUpdate with
  | false => simp [tie_ent_validForUpdate, hv, goErrOut, Go.wrapErr, Go.def_ErrInvalidTask]
  | true =>
    simp only [tie_ent_validForUpdate, hv, Bool.not_true, Bool.false_eq_true, if_false, if_true, tie_Param_Normalize]
    have hc : ((toGenP p.normalize).WorkId.IsNone && (toGenP p.normalize).Param.IsNone &&
                    (toGenP p.normalize).Priority.IsNone &&
                  (toGenP p.normalize).ScheduledAt.IsNone &&
                (toGenP p.normalize).Deadline.IsNone &&
              (toGenP p.normalize).Meta.IsNone) = Ent.nothingToSet p := by
      simp [Ent.nothingToSet, toGenP, Option.IsNone]
    simp only [hc]
    by_cases hnts : Ent.nothingToSet p = true
    · -- read-only path
      simp only [hnts, if_true, twoPhase, Ent.stmt, hv, Bool.not_true, Bool.false_eq_true, if_false, tie_ent_GetById]
      cases h : r.seen.lookup id with
      | none => simp [goErrOut, Go.isNil, Go.IsNil.isNil]
      | some t =>
        have hid := repo_lookup_id h
        have hst := state_ne t .scheduled
        simp only [St.name] at hst
        simp only [goErrOut, Go.isNil, Go.IsNil.isNil, Option.isNone_none, Bool.not_true, Bool.false_eq_true, if_false,
          Def.TaskScheduled, hst, tie_ErrKindUpdate, Ent.refusal]
        by_cases hs : t.state = .scheduled
        · simp [hs, Go.nil]
        · have hs' : (t.state != St.scheduled) = true := by simpa using hs
          simp only [hs', if_true]
          rw [refusal_mutate t id hid]
          cases errKindMutate t <;> rfl
    · have hnts' : Ent.nothingToSet p = false := by simpa using hnts
      simp only [hnts', Bool.false_eq_true, if_false]
      refine mutate_core r id (.update id p) _ Def.ErrKindUpdate tie_ErrKindUpdate (Ent.setUpdate p) ?_ ?_ ?_ ?_ ?_
      · simp only [if_SetWorkID, if_SetParam, if_SetMeta, if_SetPriority, if_SetScheduledAt, if_SetDeadline]
        rfl
      · intro t
        simp only [if_SetWorkID, if_SetParam, if_SetMeta, if_SetPriority, if_SetScheduledAt, if_SetDeadline]
        simp only [EntUpd.guardOk, EntUpd.Where, EntTask.StateEQ, EntTask.DefaultState, EntTask.StateScheduled]
        exact name_beq t.state .scheduled
      · apply repo_replace_congr
        intro t ht
        simp only [Ent.setUpdate]
        apply updApply p.normalize t (hn t ht)
        · simp only [Param.normalize, Option.map_map]
          congr 1
          · cases p.scheduledAt <;> simp [normalize_idem]
          · cases p.deadline with
            | none => rfl
            | some d => cases d <;> simp [normalize_idem]
        · simp only [if_SetWorkID, if_SetParam, if_SetMeta, if_SetPriority, if_SetScheduledAt, if_SetDeadline]
          simp [toGenP, EntUpd.Where, EntTaskClient.UpdateOneID, updOf]
      · simp [Ent.stmt, hv, hnts']
      · intro db; rfl

/-! ### AddTask -/

theorem toTask_normalize (p : Gk.Param) (id : String) (now : Time) : p.normalize.toTask id now = p.toTask id now := by
  obtain ⟨w, pr, pa, me, s, d⟩ := p
  simp only [Param.toTask, Param.normalize, Task.update, Task.normalizeTime, Task.blank]
  cases s <;> cases d <;> simp [normalize_idem]
  all_goals (rename_i d; cases d <;> simp [normalize_idem])

theorem saveCreate_fresh {r : GoEnt} {b : EntCreate} (h : r.seen.lookup b.row.id = none) :
    GoEnt.saveCreate r b none = (GoEnt.after r { tasks := r.seen.tasks ++ [b.row] }, toEntRow b.row, none) := by
  simp only [GoEnt.saveCreate, h, GoEnt.after]

/-- `AddTask`: validation, then ONE INSERT of exactly the task `Repo.step` stores (fresh id). -/
theorem tie_ent_AddTask (r : GoEnt) (p : Gk.Param) (hfresh : r.seen.lookup r.nextId = none) :
    EntRepository.AddTask r none (toGenP p) =
      match Repo.step {} r.seen r.now (.add r.nextId p) with
      | (db', .task t) => (GoEnt.after r db', toGen t, none)
      | _ => (r, default, goErrOut "" (.err .invalidTask)) := by
  simp only [EntRepository.AddTask, GoEnt.randStrGen, GoEnt.clock, tie_Param_ToTask, tie_IsValid, Repo.step,
    toTask_normalize]
  cases hv : (p.toTask r.nextId r.now).isValid with
  | false => simp [goErrOut, Go.wrapErr, Go.def_ErrInvalidTask]
  | true =>
    simp only [Bool.not_true, Bool.false_eq_true, if_false]
    generalize hb : EntCreate.SetMeta _ _ = b
    have hrow : b.row = p.toTask r.nextId r.now := by
      subst hb
      have nilmap : ∀ m : SMap, (if Go.isNil m = true then Go.emptyMap else m) = m := by
        intro m; cases m <;> simp [Go.isNil, Go.IsNil.isNil, Go.emptyMap]
      simp only [EntCreate.SetMeta, EntCreate.SetParam, EntCreate.SetNillableDeadline, EntCreate.SetCreatedAt,
        EntCreate.SetScheduledAt, EntCreate.SetState, EntCreate.SetPriority, EntCreate.SetWorkID, EntCreate.SetID,
        EntTaskClient.Create, Go.conv, toGen, stOf_name, Option.Pointer]
      simp [Param.toTask, Task.update, Task.normalizeTime, Task.blank]
      exact ⟨nilmap _, nilmap _⟩
    have := saveCreate_fresh (r := r) (b := b) (by rw [hrow, toTask_id]; exact hfresh)
    simp [this, Go.isNil, Go.IsNil.isNil, Go.nil, hrow, tie_mapEntToDefTask]
/-! ### MarkAsDone (a `for { … }` loop: `Go.forever` with fuel) -/

/-- `MarkAsDone` in the model's terms: rounds of "conditional UPDATE; on a miss, classify a later read; when that
read shows the task dispatched, go round again" — `Ent.stmt` / `Ent.classify` with the `none` (= `continue`) case. -/
def doneRounds : Nat → GoEnt → String → Option String → Option (GoEnt × GoError)
  | 0, _, _, _ => none
  | n + 1, r, id, e =>
    match Ent.stmt r.seen r.now (.done id e) with
    | .fin db' out => some (GoEnt.after r db', goErrOut id out)
    | .miss =>
      let r1 := GoEnt.after r r.seen
      match Ent.classify r1.seen (.done id e) with
      | some out => some (GoEnt.after r1 r1.seen, goErrOut id out)
      | none => doneRounds n (GoEnt.after r1 r1.seen) id e

/-- the message `MarkAsDone` records: `err.Error()` of a non-nil error -/
def doneMsg (err : GoError) : Option String := err.map fun _ => Option.Error err

/-- what a round's outcome means for the loop: `return v`, or go on with `k` -/
def iterK {σ ρ : Type} (k : σ → Option ρ) : Go.Iter σ ρ → Option ρ
  | .ret v => some v
  | .next s' => k s'

theorem forever_eq {σ ρ : Type} (f : σ → Go.Iter σ ρ) (g : Nat → σ → Option ρ) (h0 : ∀ s, g 0 s = none)
    (hs : ∀ n s, g (n + 1) s = iterK (g n) (f s)) :
    ∀ n s, Go.forever n s f = g n s := by
  intro n
  induction n with
  | zero => intro s; rw [h0]; rfl
  | succ n ih =>
    intro s
    rw [hs]
    simp only [Go.forever]
    cases f s with
    | ret v => rfl
    | next s' => exact ih s'

theorem state_beq (t : Gk.Task) (s : St) : ((toGen t).State == s.name) = (t.state == s) := by
  cases hs : t.state <;> cases s <;> simp [toGen, hs, St.name] <;> decide

/-- the classifying read of `MarkAsDone` and its three exits (`return getErr`, `continue`, `return ErrKindMarkAsDone(t)`) -/
theorem done_tail (r1 : GoEnt) (id : String) (k : GoEnt → Option (GoEnt × GoError)) :
    (match (match r1.seen.lookup id with
        | some t => if (t.state == St.dispatched) = true then none else some (Ent.refusal errKindMarkAsDone (some t))
        | none => some (Out.err Err.idNotFound)) with
      | some out => some (GoEnt.after r1 r1.seen, goErrOut id out)
      | none => k (GoEnt.after r1 r1.seen)) =
    iterK k (match EntRepository.GetById r1 none id with
        | (r, t, getErr) =>
          if (!(Go.isNil getErr)) = true then Go.Iter.ret (r, getErr)
          else if (t.State == Def.TaskDispatched) = true then Go.Iter.next r
          else Go.Iter.ret (r, Def.ErrKindMarkAsDone t)) := by
  rw [tie_ent_GetById]
  cases h : r1.seen.lookup id with
  | none => simp [goErrOut, Go.isNil, Go.IsNil.isNil, iterK]
  | some t =>
    have hid := repo_lookup_id h
    have hst := state_beq t .dispatched
    simp only [St.name] at hst
    simp only [goErrOut, Go.isNil, Go.IsNil.isNil, Option.isNone_none, Bool.not_true, Bool.false_eq_true, if_false,
      Def.TaskDispatched, hst, tie_ErrKindMarkAsDone, Ent.refusal]
    by_cases hs : t.state = .dispatched
    · simp [hs, iterK]
    · have hs' : (t.state == St.dispatched) = false := by simpa using hs
      simp only [hs', Bool.false_eq_true, if_false, iterK]
      rw [refusal_done t id hid]
      cases errKindMarkAsDone t <;> rfl

theorem tie_ent_MarkAsDone (fuel : Nat) (r : GoEnt) (id : String) (err : GoError) :
    EntRepository.MarkAsDone fuel r none id err = doneRounds fuel r id (doneMsg err) := by
  unfold EntRepository.MarkAsDone
  refine forever_eq _ (fun n r => doneRounds n r id (doneMsg err)) (fun _ => rfl) ?_ fuel r
  intro n r
  simp only [doneRounds, Ent.stmt, Ent.classify]
  generalize hb : (if Go.isNil err = true then _ else _ : EntUpd) = b
  have hbid : b.id = id := by subst hb; split <;> rfl
  have happly : b.apply = Ent.setDone r.now (doneMsg err) := by
    subst hb; funext t
    cases err with
    | none =>
      simp [EntUpd.apply, EntUpd.SetDoneAt, EntUpd.SetState, EntUpd.Where, EntTaskClient.UpdateOneID, Ent.setDone,
        EntTask.StateDone, stOf, tie_NormalizeTime, GoEnt.clock, Go.isNil, Go.IsNil.isNil, doneMsg]
    | some e =>
      simp [EntUpd.apply, EntUpd.SetDoneAt, EntUpd.SetState, EntUpd.SetErr, EntUpd.Where, EntTaskClient.UpdateOneID,
        Ent.setDone, EntTask.StateErr, stOf, tie_NormalizeTime, GoEnt.clock, Go.isNil, Go.IsNil.isNil, doneMsg]
  have hguard : ∀ t : Gk.Task, b.guardOk t = (t.state == .dispatched) := by
    subst hb; intro t
    split <;>
    · simp only [EntUpd.guardOk, EntUpd.SetDoneAt, EntUpd.SetState, EntUpd.SetErr, EntUpd.Where, EntTask.StateEQ,
        EntTask.StateDispatched]
      exact name_beq t.state .dispatched
  cases h : r.seen.lookup id with
  | none =>
    rw [guard_of_unknown h]
    have := execUpdate_unknown (r := r) (b := b) (by rw [hbid]; exact h)
    simp only [this, Go.ent_IsNotFound, beq_self_eq_true, if_true, Bool.false_eq_true, if_false]
    exact done_tail (GoEnt.after r r.seen) id (fun s => doneRounds n s id (doneMsg err))
  | some t =>
    rw [guard_of_lookup h]
    by_cases hs : t.state = .dispatched
    · have := execUpdate_hit (r := r) (b := b) (by rw [hbid]; exact h) (by rw [hguard]; simp [hs])
      simp [this, hs, Go.ent_IsNotFound, Go.ent_NotFound, Go.isNil, Go.IsNil.isNil, Go.nil, goErrOut, hbid, happly, iterK]
    · have hs' : (t.state == St.dispatched) = false := by simpa using hs
      have := execUpdate_refused (r := r) (b := b) (by rw [hbid]; exact h) (by rw [hguard]; exact hs')
      simp only [this, hs', Go.ent_IsNotFound, beq_self_eq_true, if_true, Bool.false_eq_true, if_false]
      exact done_tail (GoEnt.after r r.seen) id (fun s => doneRounds n s id (doneMsg err))
/-! ### the generated methods against the protocol's transition system -/

section Protocol
open Gk.Ent
/-- the client an action of the protocol belongs to -/
def actClient : Act → Nat
  | .call c _ _ | .stmt c | .classify c _ | .ret c => c

theorem tick_other (s : Sys) (c c' : Nat) (ph : Phase) (h : c' ≠ c) : (s.tick c' ph).phases[c]? = s.phases[c]? := by
  simp only [Sys.tick]
  exact List.getElem?_set_ne h

theorem step_other (s : Sys) (a : Act) (c : Nat) (h : actClient a ≠ c) : (Ent.step s a).phases[c]? = s.phases[c]? := by
  cases a with
  | call c' now op =>
    simp only [actClient] at h
    simp only [Ent.step]
    split
    · split
      · exact tick_other s c c' _ h
      · rfl
    · rfl
  | stmt c' =>
    simp only [actClient] at h
    simp only [Ent.step]
    split
    · split
      · exact tick_other s c c' _ h
      · exact tick_other s c c' _ h
    · rfl
  | classify c' now' =>
    simp only [actClient] at h
    simp only [Ent.step]
    split
    · split
      · exact tick_other s c c' _ h
      · exact tick_other s c c' _ h
    · rfl
  | ret c' =>
    simp only [actClient] at h
    simp only [Ent.step]
    split
    · exact tick_other s c c' _ h
    · rfl

theorem run_others (acts : List Act) (c : Nat) (h : ∀ a ∈ acts, actClient a ≠ c) :
    ∀ s : Sys, (Ent.run s acts).phases[c]? = s.phases[c]? := by
  induction acts with
  | nil => intro s; rfl
  | cons a rest ih =>
    intro s
    simp only [Ent.run, List.foldl_cons]
    have := ih (fun a ha => h a (List.mem_cons_of_mem _ ha)) (Ent.step s a)
    simp only [Ent.run] at this
    rw [this, step_other s a c (h a List.mem_cons_self)]

/-- **What the translated methods compute is what the protocol M13 does for the calling client.**
Client `c` has called `op` (a conditional operation other than `MarkAsDone`); its first statement runs, then any
actions of OTHER clients, then its classifying read. The result the protocol records for `c` is the result `twoPhase`
— hence the generated Go method, by `tie_ent_Cancel / MarkAsDispatched / UpdateById` — returns when the table the
second statement finds is the one those other clients left. -/
theorem twoPhase_is_protocol (s : Sys) (c k : Nat) (now now' : Time) (op : Op) (id : String)
    (hph : s.phases[c]? = some (.called k now op)) (others : List Act) (ho : ∀ a ∈ others, actClient a ≠ c)
    (hcl : ∀ db, (Ent.classify db op).isSome = true) :
    let s2 := Ent.run (Ent.step s (.stmt c)) others
    let s3 := Ent.step s2 (.classify c now')
    let r : GoEnt := { db := s.repo, clk := fun _ => now, env := fun _ _ => s2.repo }
    ∃ out lin, s3.phases[c]? = some (.finished k now op out lin) ∧ (twoPhase r id op).2 = goErrOut id out := by
  intro s2 s3 r
  have hlt : c < s.phases.length := by
    rcases Nat.lt_or_ge c s.phases.length with h | h
    · exact h
    · rw [List.getElem?_eq_none h] at hph; cases hph
  have hs2 : s2.phases[c]? = (Ent.step s (.stmt c)).phases[c]? := run_others others c ho _
  cases hst : Ent.stmt s.repo now op with
  | fin db' out =>
    have h1 : (Ent.step s (.stmt c)).phases[c]? = some (.finished k now op out s.clock) := by
      simp only [Ent.step, hph, hst, Sys.tick]
      simp [hlt]
    rw [h1] at hs2
    refine ⟨out, s.clock, ?_, ?_⟩
    · have : s3 = s2 := by
        show Ent.step s2 (.classify c now') = s2
        simp only [Ent.step, hs2]
      rw [this, hs2]
    · show (twoPhase r id op).2 = _
      simp only [twoPhase, r, GoEnt.seen, GoEnt.now, if_true, hst]
  | miss =>
    have h1 : (Ent.step s (.stmt c)).phases[c]? = some (.missed k now op) := by
      simp only [Ent.step, hph, hst, Sys.tick]
      simp [hlt]
    rw [h1] at hs2
    have hlt2 : c < s2.phases.length := by
      rcases Nat.lt_or_ge c s2.phases.length with h | h
      · exact h
      · rw [List.getElem?_eq_none h] at hs2; cases hs2
    obtain ⟨out, hout⟩ := Option.isSome_iff_exists.mp (hcl s2.repo)
    refine ⟨out, s2.clock, ?_, ?_⟩
    · show (Ent.step s2 (.classify c now')).phases[c]? = _
      simp only [Ent.step, hs2, hout, Sys.tick]
      simp [hlt2]
    · show (twoPhase r id op).2 = _
      simp [twoPhase, r, GoEnt.seen, GoEnt.now, hst, GoEnt.after, hout]

end Protocol

/-! ### sequential use -/

/-- **Sequential use: the generated ent methods are `Repo.step`.** With no other client between the statements
(`env = id`) what `Cancel` / `MarkAsDispatched` / `UpdateById` (by `tie_ent_*` = `twoPhase`) leave in the table and
return is the atomic operation of the sequential specification — the same `Repo.step` the in-memory repository
refines (`tie_mem_*`, `Mem_refines_Spec`): "both repository implementations behave identically". -/
theorem twoPhase_sequential (r : GoEnt) (id : String) (op : Op) (hwf : r.db.WF)
    (h0 : r.nstmt = 0) (hseq : r.env = fun _ => _root_.id)
    (hop : (∃ p, op = .update id p) ∨ op = .cancel id ∨ op = .dispatch id) :
    (twoPhase r id op).1.db = (Repo.step {} r.db r.now op).1 ∧
      (twoPhase r id op).2 = goErrOut id (Repo.step {} r.db r.now op).2 := by
  have hseen : r.seen = r.db := by simp [GoEnt.seen, h0]
  have hseen1 : ∀ db, (GoEnt.after r db).seen = db := by
    intro db; simp [GoEnt.seen, GoEnt.after, hseq]
  simp only [twoPhase, hseen, hseen1]
  cases hs : Ent.stmt r.db r.now op with
  | fin db' out =>
    have := Ent.stmt_fin_spec hwf hs
    simp [this, GoEnt.after]
  | miss =>
    have hm := Ent.stmt_miss_spec hs
    have hcl : ∃ out, Ent.classify r.db op = some out := by
      rcases hop with ⟨p, rfl⟩ | rfl | rfl <;> exact ⟨_, rfl⟩
    obtain ⟨out, hout⟩ := hcl
    have := Ent.classify_spec hm r.now hout
    simp [this, hout, GoEnt.after]
/-! ### non-vacuity: a miss whose classification reads what another client wrote in between -/

def exTask (st : St) : Gk.Task :=
  { id := "a", workId := "w", priority := 0, state := st, err := "", param := [], meta_ := [],
    scheduledAt := 1000000, createdAt := 1000000, deadline := none, cancelledAt := none,
    dispatchedAt := (if st == .dispatched then some 2000000 else none), doneAt := none }

/-- the row is `dispatched` when the UPDATE runs: a miss, and the classifying read finds it `dispatched` —
`Cancel` reports `already_dispatched`. -/
example : (EntRepository.Cancel { db := { tasks := [exTask .dispatched] }, clk := fun _ => 5000000 } none "a").2 =
    some (.repo "a" "already_dispatched") := by rfl

/-- the row is `scheduled`: one statement, the row is cancelled at the normalised clock reading. -/
example : ((EntRepository.Cancel { db := { tasks := [exTask .scheduled] }, clk := fun _ => 5000001 } none "a").1.db.lookup "a").map
    (fun t => (t.state, t.cancelledAt)) = some (.cancelled, some 5000000) := by rfl

/-! ### MarkAsDone's loop terminates (no livelock) -/

/-- One lifecycle step, seen from one stored id: the row stays stored, and unless it was `scheduled` its state is
unchanged or went `dispatched → done / err`. -/
theorem lookup_lifecycle_step {db : Repo} {id : String} {t : Gk.Task} (h : db.lookup id = some t)
    (now : Time) {op : Op} (hl : Ent.lifecycle op = true) :
    ∃ t', (Repo.step {} db now op).1.lookup id = some t' ∧
      (t.state ≠ .scheduled → t'.state = t.state ∨ (t.state = .dispatched ∧ (t'.state = .done ∨ t'.state = .err))) := by
  have hid : t.id = id := repo_lookup_id h
  have same : ∃ t', db.lookup id = some t' ∧
      (t.state ≠ .scheduled → t'.state = t.state ∨ (t.state = .dispatched ∧ (t'.state = .done ∨ t'.state = .err))) :=
    ⟨t, h, fun _ => .inl rfl⟩
  -- a guarded UPDATE of the row `id'` whose guard is `state = scheduled`
  have hms : ∀ id' (f : Gk.Task → Gk.Task), (∀ t, (f t).id = t.id) →
      ∃ t', (db.mutateScheduled id' f).1.lookup id = some t' ∧
        (t.state ≠ .scheduled → t'.state = t.state ∨ (t.state = .dispatched ∧ (t'.state = .done ∨ t'.state = .err))) := by
    intro id' f hf
    cases hg : Ent.guard db id' .scheduled
    · rw [Ent.mutate_miss _ hg]; exact same
    · rw [Ent.mutate_hit _ hg]
      obtain ⟨t0, hl0, hs0⟩ := Ent.guard_eq_true.mp hg
      simp only [Ent.lookup_replace_map db id' id f hf, h, Option.map_some]
      refine ⟨_, rfl, fun hns => ?_⟩
      by_cases hii : id = id'
      · subst hii
        rw [h] at hl0
        cases hl0
        exact absurd hs0 hns
      · have : (t.id == id') = false := by rw [hid]; simpa using hii
        simp only [this]
        exact .inl rfl
  cases op with
  | add id' p =>
    simp only [Repo.step]
    split
    · exact same
    · refine ⟨t, ?_, fun _ => .inl rfl⟩
      rw [Ent.lookup_append, h]; rfl
  | get id' => rw [(step_reads_fst {} db now).1 id']; exact same
  | find q o l => exact same
  | next => rw [(step_reads_fst {} db now).2.2]; exact same
  | update id' p =>
    simp only [Repo.step]
    split
    · exact same
    · exact hms id' _ (fun _ => rfl)
  | cancel id' => exact hms id' _ (fun _ => rfl)
  | dispatch id' => exact hms id' _ (fun _ => rfl)
  | done id' e =>
    cases hg : Ent.guard db id' .dispatched
    · rw [Ent.done_miss now e hg]; exact same
    · rw [Ent.done_hit now e hg]
      obtain ⟨t0, hl0, hs0⟩ := Ent.guard_eq_true.mp hg
      simp only [Ent.lookup_replace_map db id' id _ (Ent.setDone_id now e), h, Option.map_some]
      refine ⟨_, rfl, fun _ => ?_⟩
      by_cases hii : id = id'
      · subst hii
        rw [h] at hl0
        cases hl0
        have : (t.id == id) = true := by simp [hid]
        simp only [this, if_true]
        right
        refine ⟨hs0, ?_⟩
        cases e
        · exact .inl rfl
        · exact .inr rfl
      · have : (t.id == id') = false := by rw [hid]; simpa using hii
        simp only [this]
        exact .inl rfl
  | revert | cancelDispatched | deleteEnded => cases hl

/-- what the other clients may do between two statements: any finite sequence of lifecycle operations -/
def lifeRun (ops : List (Time × Op)) (db : Repo) : Repo :=
  ops.foldl (fun r p => (Repo.step {} r p.1 p.2).1) db

/-- The other clients only perform lifecycle operations of the repository (`Ent.lifecycle`: add / get / update / cancel /
dispatch / done / find / next — everything the scheduler and the dispatcher call). `Ent.lifecycle` EXCLUDES the recovery
operations `.revert` (dispatched → scheduled!), `.cancelDispatched` and `.deleteEnded`, and that is exactly right here:
with `.revert` allowed a task can become `dispatched` again and again and `MarkAsDone` can be sent round its loop any
number of times (`exRevertEnv` below). -/
def LifecycleEnv (env : Nat → Repo → Repo) : Prop :=
  ∀ n, ∃ ops : List (Time × Op), (∀ p ∈ ops, Ent.lifecycle p.2 = true) ∧ env n = lifeRun ops

/-- The monotonicity fact behind termination, along a lifecycle run: a stored id stays stored; a task that is not
`scheduled` keeps its state, except that a `dispatched` one may become `done` / `err`. In particular a task never
becomes `dispatched` unless it was `scheduled` immediately before, and `done` / `err` / `cancelled` are final.
(No `Repo.WF` and no "nobody adds this id" hypothesis: `Repo.lookup` is the FIRST row with the key and an insertion
appends, so a row that is stored stays the row `lookup` finds.) -/
theorem lookup_lifeRun (ops : List (Time × Op)) (hl : ∀ p ∈ ops, Ent.lifecycle p.2 = true) :
    ∀ {db : Repo} {id : String} {t : Gk.Task}, db.lookup id = some t → t.state ≠ .scheduled →
    ∃ t', (lifeRun ops db).lookup id = some t' ∧
      (t'.state = t.state ∨ (t.state = .dispatched ∧ (t'.state = .done ∨ t'.state = .err))) := by
  induction ops with
  | nil => intro db id t h _; exact ⟨t, h, .inl rfl⟩
  | cons p rest ih =>
    intro db id t h hns
    obtain ⟨t1, h1, hs1⟩ := lookup_lifecycle_step h p.1 (hl p List.mem_cons_self)
    have hs1 := hs1 hns
    have hns1 : t1.state ≠ .scheduled := by
      rcases hs1 with e | ⟨_, e | e⟩
      · rw [e]; exact hns
      · rw [e]; decide
      · rw [e]; decide
    obtain ⟨t', h', hs'⟩ := ih (fun q hq => hl q (List.mem_cons_of_mem _ hq)) h1 hns1
    refine ⟨t', by simpa only [lifeRun, List.foldl_cons] using h', ?_⟩
    rcases hs1 with e1 | ⟨hd, e1⟩
    · rw [e1] at hs'; exact hs'
    · rcases hs' with e' | ⟨hd', _⟩
      · right; exact ⟨hd, by rw [e']; exact e1⟩
      · rcases e1 with e1 | e1 <;> rw [e1] at hd' <;> cases hd'

/-- after a statement the next one sees what the other clients made of the table this one left -/
theorem seen_after (r : GoEnt) (db : Repo) : (GoEnt.after r db).seen = r.env (r.nstmt + 1) db := by
  simp [GoEnt.seen, GoEnt.after]

/-- `continue` only when the read shows the task dispatched -/
theorem classify_done_none {db : Repo} {id : String} {e : Option String}
    (h : Ent.classify db (.done id e) = none) : ∃ t, db.lookup id = some t ∧ t.state = .dispatched := by
  simp only [Ent.classify] at h
  cases hl : db.lookup id with
  | none => simp [hl] at h
  | some t =>
    refine ⟨t, rfl, ?_⟩
    by_cases hs : t.state = .dispatched
    · exact hs
    · simp [hl, hs] at h

/-- a read that shows a stored task in any other state decides the call -/
theorem classify_done_some {db : Repo} {id : String} {e : Option String} {t : Gk.Task}
    (hl : db.lookup id = some t) (hs : t.state ≠ .dispatched) : ∃ out, Ent.classify db (.done id e) = some out := by
  have hs' : (t.state == St.dispatched) = false := by simpa using hs
  refine ⟨Ent.refusal errKindMarkAsDone (some t), ?_⟩
  simp only [Ent.classify, hl, hs', Bool.false_eq_true, if_false]

/-- a round that finds the task `dispatched`, `done` or `err` is the last one -/
theorem doneRounds_last (n : Nat) (r : GoEnt) (id : String) (e : Option String) (henv : LifecycleEnv r.env)
    (hlive : ∃ t, r.seen.lookup id = some t ∧ (t.state = .dispatched ∨ t.state = .done ∨ t.state = .err)) :
    ∃ res, doneRounds (n + 1) r id e = some res := by
  obtain ⟨t, hl, hs⟩ := hlive
  simp only [doneRounds, Ent.stmt]
  cases hg : Ent.guard r.seen id .dispatched
  · simp only [Bool.false_eq_true, if_false]
    have hnd : t.state ≠ .dispatched := Ent.guard_eq_false.mp hg t hl
    have hns : t.state ≠ .scheduled := by
      rcases hs with h | h | h <;> rw [h] <;> decide
    obtain ⟨ops, hops, henv1⟩ := henv (r.nstmt + 1)
    obtain ⟨t', hl', hs'⟩ := lookup_lifeRun ops hops hl hns
    have hnd' : t'.state ≠ .dispatched := by
      rcases hs' with h | ⟨hd, _⟩
      · rw [h]; exact hnd
      · exact absurd hd hnd
    rw [seen_after, henv1]
    obtain ⟨out, hout⟩ := classify_done_some (e := e) hl' hnd'
    simp only [hout]
    exact ⟨_, rfl⟩
  · simp only [if_true]
    exact ⟨_, rfl⟩

/-- more fuel does not change a result -/
theorem doneRounds_mono (n : Nat) : ∀ (r : GoEnt) (id : String) (e : Option String) (res : GoEnt × GoError),
    doneRounds n r id e = some res → doneRounds (n + 1) r id e = some res := by
  induction n with
  | zero => intro r id e res h; cases h
  | succ n ih =>
    intro r id e res h
    rw [doneRounds] at h ⊢
    cases hst : Ent.stmt r.seen r.now (.done id e) with
    | fin db' out => simpa only [hst] using h
    | miss =>
      simp only [hst] at h ⊢
      cases hc : Ent.classify (GoEnt.after r r.seen).seen (.done id e) with
      | some out => simpa only [hc] using h
      | none =>
        simp only [hc] at h ⊢
        exact ih _ _ _ _ h

theorem doneRounds_mono_le {n m : Nat} (hnm : n ≤ m) {r : GoEnt} {id : String} {e : Option String}
    {res : GoEnt × GoError} (h : doneRounds n r id e = some res) : doneRounds m r id e = some res := by
  induction hnm with
  | refl => exact h
  | step _ ih => exact doneRounds_mono _ _ _ _ _ ih

/-- **`MarkAsDone`'s retry loop (introduced for D19) cannot livelock: two rounds always suffice** when the other clients
only perform lifecycle operations. Round 1: the guard `state = dispatched` holds ⇒ hit. Otherwise a miss, and the
later read shows an unknown id or a state other than `dispatched` ⇒ classified, return; or it shows `dispatched` ⇒
round 2, whose UPDATE finds the task still `dispatched` ⇒ hit, or `done` / `err` ⇒ miss, and then the classifying
read still finds `done` / `err` ⇒ return.
The ONLY hypothesis is `LifecycleEnv`: neither `r.nstmt = 0`, nor `r.db.WF`, nor freshness of `id` (nobody adds a task
with this id meanwhile) is needed — an id that is unknown at the read returns `id_not_found` at once, and an id that is
stored can not be shadowed by a later insertion (`lookup_lifeRun`). -/
theorem doneRounds_terminates (r : GoEnt) (id : String) (e : Option String) (henv : LifecycleEnv r.env) :
    ∃ res, doneRounds 2 r id e = some res := by
  rw [doneRounds]
  cases hst : Ent.stmt r.seen r.now (.done id e) with
  | fin db' out => exact ⟨_, rfl⟩
  | miss =>
    simp only []
    cases hc : Ent.classify (GoEnt.after r r.seen).seen (.done id e) with
    | some out => exact ⟨_, rfl⟩
    | none =>
      simp only []
      obtain ⟨t1, hl1, hs1⟩ := classify_done_none hc
      have henv2 : LifecycleEnv (GoEnt.after (GoEnt.after r r.seen) (GoEnt.after r r.seen).seen).env := henv
      refine doneRounds_last 0 _ id e henv2 ?_
      obtain ⟨ops, hops, he⟩ := henv2 ((GoEnt.after r r.seen).nstmt + 1)
      rw [seen_after]
      have he' : (GoEnt.after r r.seen).env ((GoEnt.after r r.seen).nstmt + 1) = lifeRun ops := he
      rw [he']
      obtain ⟨t2, hl2, hs2⟩ := lookup_lifeRun ops hops hl1 (by rw [hs1]; decide)
      refine ⟨t2, hl2, ?_⟩
      rcases hs2 with h | ⟨_, h | h⟩
      · left; rw [h]; exact hs1
      · right; left; exact h
      · right; right; exact h

/-- the generated `MarkAsDone` returns (`some _`: the `for { … }` loop is left) with any fuel ≥ 2 -/
theorem tie_ent_MarkAsDone_terminates (fuel : Nat) (hf : 2 ≤ fuel) (r : GoEnt) (id : String) (err : GoError)
    (henv : LifecycleEnv r.env) :
    ∃ res, EntRepository.MarkAsDone fuel r none id err = some res := by
  obtain ⟨res, h⟩ := doneRounds_terminates r id (doneMsg err) henv
  exact ⟨res, by rw [tie_ent_MarkAsDone]; exact doneRounds_mono_le hf h⟩

/-! ### non-vacuity: a call that really goes round the loop -/

/-- another client dispatches the task "a" between this call's first UPDATE and its classifying read -/
def exDispatchEnv : Nat → Repo → Repo := fun n => if n = 1 then lifeRun [(3000000, .dispatch "a")] else lifeRun []

example : LifecycleEnv exDispatchEnv := by
  intro n
  by_cases h : n = 1
  · exact ⟨[(3000000, .dispatch "a")], by simp [Ent.lifecycle], by simp [exDispatchEnv, h]⟩
  · exact ⟨[], by simp, by simp [exDispatchEnv, h]⟩

/-- the task is `scheduled` when `MarkAsDone` starts: the UPDATE misses; the dispatcher's `MarkAsDispatched` lands; the
classifying read shows `dispatched` ⇒ `continue`; the second round's UPDATE hits: nil error, the task ends `done` — and
one round is not enough. -/
example :
    (EntRepository.MarkAsDone 2 { db := { tasks := [exTask .scheduled] }, clk := fun _ => 5000000, env := exDispatchEnv }
        none "a" none).map (fun p => (p.2, (p.1.db.lookup "a").map (fun t => (t.state, t.doneAt)), p.1.nstmt)) =
      some (none, some (.done, some 5000000), 3) ∧
    (EntRepository.MarkAsDone 1 { db := { tasks := [exTask .scheduled] }, clk := fun _ => 5000000, env := exDispatchEnv }
        none "a" none).isNone = true := by
  exact ⟨rfl, rfl⟩

/-- why `LifecycleEnv` must exclude the recovery operation `.revert` (dispatched → scheduled): an environment that
dispatches before every read and reverts before every UPDATE keeps the loop going for as long as it likes. -/
def exRevertEnv : Nat → Repo → Repo := fun n =>
  if n % 2 = 1 then lifeRun [(3000000, .dispatch "a")] else fun db => (Repo.step {} db 4000000 .revert).1

example : (EntRepository.MarkAsDone 6 { db := { tasks := [exTask .scheduled] }, clk := fun _ => 5000000, env := exRevertEnv }
    none "a" none).isNone = true := by rfl

end Gk.Tie
