/- Axiom audit of the C05 / C20 (liveness side) property theorems: only `propext`, `Classical.choice`,
`Quot.sound` may appear. -/
import Gk.Props.C05
import Gk.Props.C20live
import Gk.Props.C20core
open Gk
#print axioms C05_liveInv_init
#print axioms C05_liveInv_step_partial
#print axioms C05_liveInv_run_partial
#print axioms C05_liveInv_step
#print axioms C05_liveInv_run
#print axioms C05_dispatchErr_sets_restart
#print axioms C05_no_idle_timer
#print axioms C05_no_idle_timer_run_partial
#print axioms C05_never_late_or_owed
#print axioms C05_armed_not_late
#print axioms C05_owes_idle
#print axioms C05_step_over_dispatchErr_now
#print axioms C05_D12_witness
#print axioms C05_D12_fixed
#print axioms C05_round_ends
#print axioms C05_round_invariants
#print axioms C05_round_invariants_init
#print axioms C05_round_never_blocks
#print axioms C05_select_not_idle
#print axioms C05_round_announce
#print axioms C05_round_restart_announce
#print axioms C05_round_dispatch
#print axioms C05_progress_partial
#print axioms C20_dispInv_step_partial
#print axioms C20_recovery_partial
#print axioms C20_recovery_idle_partial
#print axioms C20_step_over_dispatchErr_now
#print axioms C05_select_hook_fault_witness
#print axioms C20_core_after_effect_recovers
#print axioms C20_core_after_effect_unrepaired_strands
