/-
Tie theorem, `internal/sortable_task`: the comparator the in-memory heap is ordered by, as generated from the
current Go source (Gk/Gen/Sortabletask.lean), is `Gk.Key.less` — the strict total order of C02's theorems.
-/
import Gk.Gen.Sortabletask
import Gk.Props.TieDef
namespace Gk.Tie
open Gk Gk.Gen

def toIndexed (t : Gk.Task) (index : Int) (rank : Nat) : Sortabletask.IndexedTask :=
  { Task := toGen t, Index := index, InsertionOrder := rank }

theorem tie_sortable_Less (a b : Gk.Task) (ia ib : Int) (ra rb : Nat) :
    Sortabletask.Less (toIndexed a ia ra) (toIndexed b ib rb) = (a.key ra).less (b.key rb) := by
  simp only [Sortabletask.Less, Sortabletask.IndexedTask.ScheduledAt, Sortabletask.IndexedTask.Priority,
    Sortabletask.IndexedTask.CreatedAt, Sortabletask.IndexedTask.GetInsertionOrder, toIndexed, toGen,
    Gk.Key.less, Gk.Task.key, Int.Equal, Int.Before]
  by_cases h1 : a.scheduledAt = b.scheduledAt <;> by_cases h2 : a.priority = b.priority <;>
    by_cases h3 : a.createdAt = b.createdAt <;> simp [h1, h2, h3] <;> exact decide_eq_decide.mpr Iff.rfl

end Gk.Tie
