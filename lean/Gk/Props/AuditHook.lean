/- Axiom audit of the C07 property theorems: only `propext`, `Classical.choice`, `Quot.sound`
may appear. -/
import Gk.Props.C07
open Gk
#print axioms C07_inv_init
#print axioms C07_inv_step
#print axioms C07_inv_never_late
#print axioms C07_inv_stopped_silent
#print axioms C07_never_late
#print axioms C07_never_late'
#print axioms C07_stopped_silent
#print axioms C07_stopped_no_fire
#print axioms C07_error_surfaces
#print axioms C07_error_surfaces_step
#print axioms C07_error_then_rearm
#print axioms C07_next_scheduled
#print axioms C07_cache_accurate
#print axioms C07_clock_monotone
#print axioms C07_orig_witness
#print axioms C07_fixed_same_history
