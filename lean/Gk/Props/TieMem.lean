/-
Tie theorems, `repository/inmemory/repository.go`: `AddTask`, `GetById`, `UpdateById`, `Cancel`,
`MarkAsDispatched`, `MarkAsDone`, `GetNext` as generated from the CURRENT Go source (Gk/Gen/Inmemory.lean) act on the
Go-shaped receiver exactly as `Gk.Mem.step` (Gk/Mem.lean) acts on the model state — the `Mem` that C02 / C14 /
`Mem_refines_Spec` are about. (`Find`, `Save`, `Load` have loops with accumulators: not translated.)

Hypothesis `Uniq m id`: every stored task with this id is the one `lookup` finds (the Go ordered map holds one object
per key; ids are fresh). It is what makes "write the object back" and "map over the list" the same thing.
-/
import Gk.Gen.Inmemory
import Gk.Props.TieDef
import Gk.Proofs.MemInv
import Gk.Proofs.ByCreated
namespace Gk.Tie
open Gk Gk.Gen Gk.Gen.Inmemory

def genMem (m : Mem) (now : Time) (nextId : String) : GoMem := { mem := m, now := now, nextId := nextId }

/-- a refusal of the repository as the Go error value the in-memory code builds -/
def goErrOut (id : String) : Out → GoError
  | .err .invalidTask => some (.wrap (.sentinel "invalid task"))
  | .err e => some (.repo id (kindStr (some e)))
  | _ => none

def Uniq (m : Mem) (id : String) : Prop := ∀ t ∈ m.tasks, t.id = id → some t = m.lookup id

theorem toGenTask_eq (t : Gk.Task) : toGenTask t = toGen t := rfl

theorem stOf_name (s : St) : stOf s.name = s := by cases s <;> decide

theorem ofGen_toGen (t : Gk.Task) : ofGen (toGen t) = t := by
  simp [ofGen, toGen, stOf_name]

theorem lookup_id {m : Mem} {id : String} {t : Gk.Task} (h : m.lookup id = some t) : t.id = id := by
  unfold Mem.lookup at h
  have := List.find?_some h
  simpa using this

theorem state_ne (t : Gk.Task) (s : St) : ((toGen t).State != s.name) = (t.state != s) := by
  cases hs : t.state <;> cases s <;> simp [toGen, hs, St.name] <;> decide

/-! ### replaceTask: object write-back = map over the list (under `Uniq`) -/

theorem replace_const_twice (ts : List Gk.Task) (id : String) (a b : Gk.Task) (ha : a.id = id) :
    Mem.replaceTask (Mem.replaceTask ts id (fun _ => a)) id (fun _ => b) = Mem.replaceTask ts id (fun _ => b) := by
  unfold Mem.replaceTask
  rw [List.map_map]
  apply List.map_congr_left
  intro x _
  by_cases hx : x.id = id <;> simp [hx, ha]

theorem replace_const_eq (m : Mem) (id : String) (t0 : Gk.Task) (f : Gk.Task → Gk.Task)
    (h0 : m.lookup id = some t0) (hu : Uniq m id) :
    Mem.replaceTask m.tasks id (fun _ => f t0) = Mem.replaceTask m.tasks id f := by
  unfold Mem.replaceTask
  apply List.map_congr_left
  intro x hx
  by_cases hid : x.id = id
  · have := hu x hx hid
    rw [h0] at this
    simp [hid, Option.some.inj this]
  · simp [hid]

theorem ofGen_id (x : Def.Task) : (ofGen x).id = x.Id := rfl

@[simp] theorem clock_storeTask (r : GoMem) (w : Sortabletask.IndexedTask) : (GoMem.storeTask r w).clock = r.clock := rfl
@[simp] theorem clock_heapRemove (r : GoMem) (i : Int) : (GoMem.heapRemove r i).clock = r.clock := rfl
@[simp] theorem clock_heapFix (r : GoMem) (i : Int) : (GoMem.heapFix r i).clock = r.clock := rfl
@[simp] theorem randStrGen_genMem (m : Mem) (now : Time) (nid : String) : (genMem m now nid).randStrGen = nid := rfl
@[simp] theorem clock_genMem (m : Mem) (now : Time) (nid : String) : (genMem m now nid).clock.Now = now := rfl

theorem storeTask_twice (r : GoMem) (w1 w2 : Sortabletask.IndexedTask) (h : w1.Task.Id = w2.Task.Id) :
    GoMem.storeTask (GoMem.storeTask r w1) w2 = GoMem.storeTask r w2 := by
  simp only [GoMem.storeTask, h]
  rw [replace_const_twice _ _ _ _ (by rw [ofGen_id, h])]

theorem storeTask_eq (r : GoMem) (id : String) (t : Gk.Task) (f : Gk.Task → Gk.Task)
    (h0 : r.mem.lookup id = some t) (hu : Uniq r.mem id) (w : Sortabletask.IndexedTask) (hw : w.Task.Id = id)
    (hf : ofGen w.Task = f t) :
    GoMem.storeTask r w = { r with mem := { r.mem with tasks := Mem.replaceTask r.mem.tasks id f } } := by
  simp only [GoMem.storeTask, hw, hf]
  rw [replace_const_eq r.mem id t f h0 hu]

/-! ### the methods -/

theorem omapGet_some {m : Mem} {now : Time} {nid id : String} {t : Gk.Task} (h : m.lookup id = some t) :
    GoMem.omapGet (genMem m now nid) id = ({ Task := toGen t, Index := m.heap.idx id, InsertionOrder := m.rank id }, true) := by
  simp [GoMem.omapGet, genMem, h, toGenTask_eq]

theorem omapGet_none {m : Mem} {now : Time} {nid id : String} (h : m.lookup id = none) :
    (GoMem.omapGet (genMem m now nid) id).2 = false := by
  simp [GoMem.omapGet, genMem, h]

/-- a cancelled context: every mutating method returns the context error and leaves the receiver alone -/
theorem tie_mem_ctx (r : GoMem) (e : GoErr) (id : String) (p : Def.TaskUpdateParam) (we : GoError) :
    (InMemoryRepository.AddTask r (some e) p) = (r, default, some e) ∧
    (InMemoryRepository.UpdateById r (some e) id p) = (r, some e) ∧
    (InMemoryRepository.Cancel r (some e) id) = (r, some e) ∧
    (InMemoryRepository.MarkAsDispatched r (some e) id) = (r, some e) ∧
    (InMemoryRepository.MarkAsDone r (some e) id we) = (r, some e) ∧
    (InMemoryRepository.GetById r (some e) id) = (default, some e) := by
  simp [InMemoryRepository.AddTask, InMemoryRepository.UpdateById, InMemoryRepository.Cancel,
    InMemoryRepository.MarkAsDispatched, InMemoryRepository.MarkAsDone, InMemoryRepository.GetById,
    Option.Err, Go.isNil, Go.IsNil.isNil]

theorem tie_mem_GetById (m : Mem) (now : Time) (nid id : String) :
    InMemoryRepository.GetById (genMem m now nid) none id =
      match m.lookup id with
      | some t => (toGen t, none)
      | none => (default, some (.repo id "id_not_found")) := by
  cases h : m.lookup id with
  | none =>
    simp [InMemoryRepository.GetById, Option.Err, Go.isNil, Go.IsNil.isNil, omapGet_none h, Go.repoErr, Def.IdNotFound]
  | some t =>
    simp only [InMemoryRepository.GetById, Option.Err, Go.isNil, Go.IsNil.isNil, omapGet_some h, Def.Task.Clone,
      Go.maps_Clone, Go.nil]
    rfl

/-- the refusal a non-scheduled task gets from `ErrKindUpdate / Cancel / MarkAsDispatch` -/
theorem refusal_mutate (t : Gk.Task) (id : String) (hid : t.id = id) :
    wrapKind t (errKindMutate t) =
      goErrOut id (match errKindMutate t with | some e => Out.err e | none => Out.ok) := by
  rcases errKind_range t {} with h | h | h | h | h <;>
    simp only [errKindMutate, h, wrapKind, goErrOut, hid]

/-- `Cancel` / `MarkAsDispatched`: the shape `Mem.removeThen`. -/
theorem tie_mem_Cancel (m : Mem) (now : Time) (nid id : String) (hu : Uniq m id) :
    InMemoryRepository.Cancel (genMem m now nid) none id =
      (genMem (Mem.step {} m now (.cancel id)).1 now nid, goErrOut id (Mem.step {} m now (.cancel id)).2) := by
  simp only [Mem.step, Mem.removeThen]
  cases h : m.lookup id with
  | none =>
    simp [InMemoryRepository.Cancel, Option.Err, Go.isNil, Go.IsNil.isNil, omapGet_none h, Go.repoErr, Def.IdNotFound,
      goErrOut, kindStr]
  | some t =>
    have hid := lookup_id h
    simp only [InMemoryRepository.Cancel, Option.Err, Go.isNil, Go.IsNil.isNil, Option.isNone_none, Bool.not_true,
      Bool.false_eq_true, if_false, omapGet_some h, Bool.not_true]
    have hst := state_ne t .scheduled
    simp only [St.name] at hst
    simp only [Def.TaskScheduled, hst]
    by_cases hs : t.state = .scheduled
    · simp only [hs, bne_self_eq_false, Bool.false_eq_true, if_false]
      simp only [clock_storeTask, clock_heapRemove, clock_genMem]
      rw [storeTask_twice]
      · rw [storeTask_eq _ id t (fun t => { t with state := .cancelled, cancelledAt := some (normalize now) })
          (by simpa [GoMem.heapRemove, genMem, Mem.lookup] using h) (by simpa [GoMem.heapRemove, genMem, Uniq, Mem.lookup] using hu)
          _ (by simp [toGen, hid])
          (by simp [ofGen, toGen, stOf, Def.TaskCancelled, Go.option_Some, tie_NormalizeTime, stOf_name])]
        simp [GoMem.heapRemove, genMem, goErrOut, Go.nil]
      · rfl
    · have hs' : (t.state != St.scheduled) = true := by simpa using hs
      simp only [hs', if_true, tie_ErrKindCancel]
      rw [refusal_mutate t id hid]
      cases errKindMutate t <;> rfl

theorem tie_mem_MarkAsDispatched (m : Mem) (now : Time) (nid id : String) (hu : Uniq m id) :
    InMemoryRepository.MarkAsDispatched (genMem m now nid) none id =
      (genMem (Mem.step {} m now (.dispatch id)).1 now nid, goErrOut id (Mem.step {} m now (.dispatch id)).2) := by
  simp only [Mem.step, Mem.removeThen]
  cases h : m.lookup id with
  | none =>
    simp [InMemoryRepository.MarkAsDispatched, Option.Err, Go.isNil, Go.IsNil.isNil, omapGet_none h, Go.repoErr,
      Def.IdNotFound, goErrOut, kindStr]
  | some t =>
    have hid := lookup_id h
    simp only [InMemoryRepository.MarkAsDispatched, Option.Err, Go.isNil, Go.IsNil.isNil, Option.isNone_none,
      Bool.not_true, Bool.false_eq_true, if_false, omapGet_some h, Bool.not_true]
    have hst := state_ne t .scheduled
    simp only [St.name] at hst
    simp only [Def.TaskScheduled, hst]
    by_cases hs : t.state = .scheduled
    · simp only [hs, bne_self_eq_false, Bool.false_eq_true, if_false]
      simp only [clock_storeTask, clock_heapRemove, clock_genMem]
      rw [storeTask_twice]
      · rw [storeTask_eq _ id t (fun t => { t with state := .dispatched, dispatchedAt := some (normalize now) })
          (by simpa [GoMem.heapRemove, genMem, Mem.lookup] using h) (by simpa [GoMem.heapRemove, genMem, Uniq, Mem.lookup] using hu)
          _ (by simp [toGen, hid])
          (by simp [ofGen, toGen, stOf, Def.TaskDispatched, Go.option_Some, tie_NormalizeTime, stOf_name])]
        simp [GoMem.heapRemove, genMem, goErrOut, Go.nil]
      · rfl
    · have hs' : (t.state != St.scheduled) = true := by simpa using hs
      simp only [hs', if_true, tie_ErrKindMarkAsDispatch]
      rw [refusal_mutate t id hid]
      cases errKindMutate t <;> rfl

/-- the refusal a non-dispatched task gets from `ErrKindMarkAsDone` -/
theorem refusal_done (t : Gk.Task) (id : String) (hid : t.id = id) :
    wrapKind t (errKindMarkAsDone t) =
      goErrOut id (match errKindMarkAsDone t with | some e => Out.err e | none => Out.ok) := by
  rcases errKind_range t { returnOnEmptyDispatchedAt := true, skipDispatchedAt := true } with h | h | h | h | h <;>
    simp only [errKindMarkAsDone, h, wrapKind, goErrOut, hid]

/-- the work function's error as `MarkAsDone` receives it: nil, or an error whose text is recorded -/
def goWorkErr : Option String → GoError
  | none => none
  | some msg => some (.other msg)

theorem tie_mem_MarkAsDone (m : Mem) (now : Time) (nid id : String) (e : Option String) (hu : Uniq m id) :
    InMemoryRepository.MarkAsDone (genMem m now nid) none id (goWorkErr e) =
      (genMem (Mem.step {} m now (.done id e)).1 now nid, goErrOut id (Mem.step {} m now (.done id e)).2) := by
  simp only [Mem.step]
  cases h : m.lookup id with
  | none =>
    simp [InMemoryRepository.MarkAsDone, Option.Err, Go.isNil, Go.IsNil.isNil, omapGet_none h, Go.repoErr,
      Def.IdNotFound, goErrOut, kindStr]
  | some t =>
    have hid := lookup_id h
    simp only [InMemoryRepository.MarkAsDone, Option.Err, Go.isNil, Go.IsNil.isNil, Option.isNone_none,
      Bool.not_true, Bool.false_eq_true, if_false, omapGet_some h, Bool.not_true]
    have hst := state_ne t .dispatched
    simp only [St.name] at hst
    simp only [Def.TaskDispatched, hst]
    by_cases hs : t.state = .dispatched
    · simp only [hs, bne_self_eq_false, Bool.false_eq_true, if_false]
      simp only [clock_storeTask, clock_genMem]
      cases e with
      | none =>
        simp only [goWorkErr, Option.isNone_none, if_true]
        rw [storeTask_twice]
        · rw [storeTask_eq _ id t (fun t => { t with state := .done, doneAt := some (normalize now) })
            (by simpa [genMem] using h) (by simpa [genMem] using hu) _ (by simp [toGen, hid])
            (by simp [ofGen, toGen, stOf, Def.TaskDone, Go.option_Some, tie_NormalizeTime, stOf_name])]
          simp [genMem, goErrOut, Go.nil]
        · rfl
      | some msg =>
        simp only [goWorkErr, Option.isNone_some, Bool.false_eq_true, if_false]
        rw [storeTask_twice, storeTask_twice]
        · rw [storeTask_eq _ id t (fun t => { t with state := .err, err := msg, doneAt := some (normalize now) })
            (by simpa [genMem] using h) (by simpa [genMem] using hu) _ (by simp [toGen, hid])
            (by simp [ofGen, toGen, stOf, Def.TaskErr, Go.option_Some, tie_NormalizeTime, stOf_name, Option.Error])]
          simp [genMem, goErrOut, Go.nil]
        · rfl
        · rfl
    · have hs' : (t.state != St.dispatched) = true := by simpa using hs
      simp only [hs', if_true, tie_ErrKindMarkAsDone]
      rw [refusal_done t id hid]
      cases errKindMarkAsDone t <;> rfl

/-! ### AddTask, UpdateById, GetNext -/

/-- the in-memory repository's `validTask` as a model task (ent uses `fakeTask`: same id, work id and times) -/
def validTaskM : Gk.Task := { fakeTask with param := [], meta_ := [] }

theorem validTask_eq : Inmemory.validTask = toGen validTaskM := by rfl

theorem normalize_idem' (t : Time) : Gk.normalize (Gk.normalize t) = Gk.normalize t := by
  have h : ∀ x : Int, (x - x % 1000000) - (x - x % 1000000) % 1000000 = x - x % 1000000 := by intro x; omega
  exact h t

/-- `validTask.Update(param.Normalize()).IsValid()` is the model's `validForUpdate` -/
theorem tie_validForUpdate (p : Gk.Param) :
    ((Inmemory.validTask).Update (toGenP p).Normalize).IsValid = p.validForUpdate := by
  rw [validTask_eq, tie_Param_Normalize, tie_Task_Update, tie_IsValid]
  simp only [Param.validForUpdate, Task.isValid, Task.update, Task.normalizeTime, Param.normalize, validTaskM, fakeTask]
  cases p.scheduledAt <;> cases p.workId <;> simp [normalize_idem']

theorem toTask_id (p : Gk.Param) (id : String) (now : Time) : (p.toTask id now).id = id := by
  simp [Param.toTask, Task.update, Task.normalizeTime, Task.blank]

theorem tie_mem_AddTask (m : Mem) (now : Time) (id : String) (p : Gk.Param) :
    InMemoryRepository.AddTask (genMem m now id) none (toGenP p) =
      (genMem (Mem.step {} m now (.add id p)).1 now id,
       (match (Mem.step {} m now (.add id p)).2 with | .task t => toGen t | _ => default),
       goErrOut id (Mem.step {} m now (.add id p)).2) := by
  simp only [InMemoryRepository.AddTask, Option.Err, Go.isNil, Go.IsNil.isNil, Option.isNone_none, Bool.not_true,
    Bool.false_eq_true, if_false, tie_Param_Normalize, randStrGen_genMem, clock_genMem, tie_Param_ToTask,
    tie_IsValid, Mem.step]
  by_cases hv : (p.normalize.toTask id now).isValid = true
  · simp only [hv, Bool.not_true, Bool.false_eq_true, if_false]
    have hclone : (toGen (p.normalize.toTask id now)).Clone = toGen (p.normalize.toTask id now) := rfl
    simp only [hclone, GoMem.WrapTask, GoMem.heapPush, GoMem.omapSet, genMem, ofGen_toGen, toGen_Id, toTask_id,
      goErrOut, Go.nil]
  · have hv' : (p.normalize.toTask id now).isValid = false := by simpa using hv
    simp [hv', goErrOut, Go.wrapErr, Go.def_ErrInvalidTask]

theorem tie_mem_UpdateById (m : Mem) (now : Time) (nid id : String) (p : Gk.Param) (hu : Uniq m id) :
    InMemoryRepository.UpdateById (genMem m now nid) none id (toGenP p) =
      (genMem (Mem.step {} m now (.update id p)).1 now nid, goErrOut id (Mem.step {} m now (.update id p)).2) := by
  simp only [InMemoryRepository.UpdateById, Option.Err, Go.isNil, Go.IsNil.isNil, Option.isNone_none, Bool.not_true,
    Bool.false_eq_true, if_false, tie_validForUpdate, Mem.step]
  by_cases hv : p.validForUpdate = true
  · simp only [hv, Bool.not_true, Bool.false_eq_true, if_false]
    cases h : m.lookup id with
    | none =>
      simp [omapGet_none h, Go.repoErr, Def.IdNotFound, goErrOut, kindStr]
    | some t =>
      have hid := lookup_id h
      simp only [omapGet_some h, Bool.not_true, Bool.false_eq_true, if_false]
      have hst := state_ne t .scheduled
      simp only [St.name] at hst
      simp only [Def.TaskScheduled, hst]
      by_cases hs : t.state = .scheduled
      · simp only [hs, bne_self_eq_false, Bool.false_eq_true, if_false, tie_Param_Normalize, tie_Task_Update]
        rw [storeTask_eq _ id t (fun t => t.update p.normalize) (by simpa [genMem] using h) (by simpa [genMem] using hu)
          _ (by simp [toGen, Task.update, Task.normalizeTime, hid]) (by simp [ofGen_toGen])]
        simp [GoMem.heapFix, genMem, goErrOut, Go.nil]
      · have hs' : (t.state != St.scheduled) = true := by simpa using hs
        simp only [hs', if_true, tie_ErrKindUpdate]
        rw [refusal_mutate t id hid]
        cases errKindMutate t <;> rfl
  · have hv' : p.validForUpdate = false := by simpa using hv
    simp [hv', goErrOut, Go.wrapErr, Go.def_ErrInvalidTask]

theorem tie_mem_GetNext (m : Mem) (now : Time) (nid : String) (ctx : Ctx)
    (hwf : ∀ id, m.heap.arr[0]? = some id → (m.lookup id).isSome) :
    InMemoryRepository.GetNext (genMem m now nid) ctx =
      (match (Mem.step {} m now .next).2 with | .task t => toGen t | _ => default,
       match (Mem.step {} m now .next).2 with | .err _ => some (.repo "" "exhausted") | _ => none) := by
  simp only [InMemoryRepository.GetNext, GoMem.heapLen, GoMem.heapPeek, Mem.step]
  cases h0 : m.heap.arr[0]? with
  | none =>
    have : m.heap.arr.size = 0 := by
      rcases Nat.eq_zero_or_pos m.heap.arr.size with h | h
      · exact h
      · simp [Array.getElem?_eq_getElem h] at h0
    simp [genMem, this, Go.repoErr, Def.Exhausted]
  | some id =>
    have hne : m.heap.arr.size ≠ 0 := by
      intro hz
      have : m.heap.arr[0]? = none := by simp [hz]
      rw [this] at h0; cases h0
    have hl := hwf id h0
    cases hlk : m.lookup id with
    | none => simp [hlk] at hl
    | some t =>
      have hsz : (((genMem m now nid).mem.heap.arr.size : Int) == 0) = false := by
        simp only [genMem]; rw [beq_eq_false_iff_ne]; omega
      have h0' : (genMem m now nid).mem.heap.arr[0]? = some id := h0
      simp only [hsz, Bool.false_eq_true, if_false, h0', omapGet_some hlk, hlk, Def.Task.Clone, Go.maps_Clone, Go.nil]


/-! ### Find -/

theorem foldl_filter_append {α β : Type} (p : α → Bool) (f : α → β) (xs : List α) (acc : List β) :
    List.foldl (fun out x => if p x = true then out ++ [f x] else out) acc xs = acc ++ (xs.filter p).map f := by
  induction xs generalizing acc with
  | nil => simp
  | cons x xs ih => by_cases hp : p x = true <;> simp [hp, ih]

@[simp] theorem toGen_CreatedAt (c : Gk.Task) : (toGen c).CreatedAt = c.createdAt := rfl

theorem insert_map_toGen (t : Gk.Task) (xs : List Gk.Task) :
    Go.insertByCmp (fun (a b : Def.Task) => a.CreatedAt.Compare b.CreatedAt) (toGen t) (xs.map toGen) =
      (insCreated t xs).map toGen := by
  induction xs with
  | nil => rfl
  | cons x xs ih =>
    have hc : ((toGen t).CreatedAt.Compare (toGen x).CreatedAt ≤ 0) ↔ t.createdAt ≤ x.createdAt := by
      simp only [toGen_CreatedAt, Int.Compare, gt_iff_lt]; exact cmp_le _ _
    simp only [List.map_cons, Go.insertByCmp, insCreated]
    by_cases h : t.createdAt ≤ x.createdAt
    · rw [if_pos (hc.2 h), if_pos h]; rfl
    · rw [if_neg (fun h' => h (hc.1 h')), if_neg h, List.map_cons, ih]

theorem sort_map_toGen (xs : List Gk.Task) :
    Go.slices_SortStableFunc (xs.map toGen) (fun (a b : Def.Task) => a.CreatedAt.Compare b.CreatedAt) =
      (byCreated xs).map toGen := by
  induction xs with
  | nil => rfl
  | cons x xs ih =>
    simp only [Go.slices_SortStableFunc, List.map_cons, List.foldr_cons, byCreated] at ih ⊢
    rw [ih, insert_map_toGen]

/-- inserting into a sorted list an element that is not later than its head puts it in front -/
theorem insCreated_front (t : Gk.Task) (xs : List Gk.Task) (h : ∀ x ∈ xs, t.createdAt ≤ x.createdAt) :
    insCreated t xs = t :: xs := by
  cases xs with
  | nil => rfl
  | cons x xs => simp [insCreated, h x (by simp)]

theorem insCreated_filter (p : Gk.Task → Bool) (t : Gk.Task) (xs : List Gk.Task) (hs : CreatedSorted xs) :
    (insCreated t xs).filter p = if p t then insCreated t (xs.filter p) else xs.filter p := by
  induction xs with
  | nil => by_cases hp : p t = true <;> simp [insCreated, hp]
  | cons x xs ih =>
    have hs' : CreatedSorted xs := (List.pairwise_cons.1 hs).2
    have hx_le : ∀ y ∈ xs, x.createdAt ≤ y.createdAt := (List.pairwise_cons.1 hs).1
    simp only [insCreated]
    by_cases h : t.createdAt ≤ x.createdAt
    · by_cases hp : p t = true <;> by_cases hx : p x = true <;> simp [h, hp, hx, insCreated]
      -- p t, ¬ p x: t goes in front of the filtered tail, all of whose elements are not earlier than x
      rw [insCreated_front]
      intro y hy
      exact Int.le_trans h (hx_le y (List.mem_filter.1 hy).1)
    · by_cases hp : p t = true <;> by_cases hx : p x = true <;> simp [h, hp, hx, insCreated, ih hs']

/-- the stable sort by creation time commutes with filtering -/
theorem byCreated_filter (p : Gk.Task → Bool) (xs : List Gk.Task) :
    byCreated (xs.filter p) = (byCreated xs).filter p := by
  induction xs with
  | nil => rfl
  | cons x xs ih =>
    by_cases hp : p x = true
    · simp [List.filter_cons, hp, byCreated, ih, insCreated_filter _ _ _ (byCreated_sorted xs)]
    · simp [List.filter_cons, hp, byCreated, ih, insCreated_filter _ _ _ (byCreated_sorted xs)]

theorem findLoop_filter (p : Gk.Task → Bool) (xs : List Gk.Task) (o l : Int) :
    findLoop p xs o l = findLoop (fun _ => true) (xs.filter p) o l := by
  induction xs generalizing o l with
  | nil => rfl
  | cons x xs ih =>
    by_cases hp : p x = true
    · simp only [findLoop, hp, List.filter_cons, if_true]
      split
      · exact ih _ _
      · split
        · rfl
        · rw [ih]
    · simp only [findLoop, hp, List.filter_cons]
      simpa using ih o l

abbrev PageAcc := Bool × Int × Int × List Def.Task

/-- the step of `Find`'s paging loop, as the generated code has it -/
@[reducible] def PageStep (g : PageAcc → Def.Task → PageAcc) : Prop :=
  ∀ (b : Bool) (o l : Int) (out : List Def.Task) (task : Def.Task),
    g (b, o, l, out) task =
      if b = true then (b, o, l, out)
      else if (o != 0) = true then (b, o - 1, l, out)
      else if (l == 0) = true then (true, o, l, out)
      else if decide (l > 0) = true then (b, o, l - 1, out ++ [task.Clone])
      else (b, o, l, out ++ [task.Clone])

theorem paging_done (g : PageAcc → Def.Task → PageAcc) (hg : PageStep g) (ys : List Def.Task) (o l : Int)
    (out : List Def.Task) : List.foldl g (true, o, l, out) ys = (true, o, l, out) := by
  induction ys with
  | nil => rfl
  | cons y ys ih =>
    have h := hg true o l out y
    simp only [if_true] at h
    simp only [List.foldl_cons, h, ih]

/-- the paging loop of `Find` (offset-- / continue, limit == 0 → break, limit--) = `findLoop` -/
theorem paging_fold (g : PageAcc → Def.Task → PageAcc) (hg : PageStep g) (xs : List Gk.Task) (o l : Int)
    (out : List Def.Task) :
    (List.foldl g (false, o, l, out) (xs.map toGen)).2.2.2 =
      out ++ (findLoop (fun _ => true) xs o l).map toGen := by
  induction xs generalizing o l out with
  | nil => simp [findLoop]
  | cons x xs ih =>
    have h := hg false o l out (toGen x)
    simp only [Bool.false_eq_true, if_false] at h
    simp only [List.map_cons, List.foldl_cons, h, findLoop, if_true]
    by_cases ho : o = 0
    · subst ho
      simp only [bne_self_eq_false, Bool.false_eq_true, if_false]
      by_cases hl : l = 0
      · subst hl
        simp [paging_done g hg]
      · have hl' : (l == 0) = false := by simpa using hl
        simp only [hl', Bool.false_eq_true, if_false]
        have hclone : (toGen x).Clone = toGen x := rfl
        by_cases hpos : l > 0
        · simp only [hpos, decide_true, if_true]
          rw [ih]
          simp [hclone]
        · simp only [hpos, decide_false, Bool.false_eq_true, if_false]
          rw [ih]
          simp [hclone]
    · have ho' : (o != 0) = true := by simpa using ho
      simp only [ho', if_true]
      exact ih _ _ _

theorem tie_mem_Find (m : Mem) (now : Time) (nid : String) (ctx : Ctx) (Q : Def.TaskQueryParam) (o l : Int) :
    InMemoryRepository.Find (genMem m now nid) ctx Q o l =
      ((findLoop ((absQ Q).normalize true).matches (byCreated m.tasks) o l).map toGen, none) := by
  simp only [InMemoryRepository.Find, Go.rangeFold, GoMem.omapPairs, genMem, List.foldl_map]
  -- first loop: the matching tasks, oldest-inserted first
  have h1 := foldl_filter_append (fun t : Gk.Task => Q.Normalize.Match (toGenTask t)) toGenTask m.tasks []
  simp only [List.nil_append] at h1
  rw [h1]
  have hp : (fun t : Gk.Task => Q.Normalize.Match (toGenTask t)) = ((absQ Q).normalize true).matches := by
    funext t; rw [toGenTask_eq, tie_Query_Match, tie_Query_Normalize]
  rw [hp]
  have hm : List.map toGenTask (List.filter ((absQ Q).normalize true).matches m.tasks) =
      List.map toGen (List.filter ((absQ Q).normalize true).matches m.tasks) := rfl
  rw [hm, sort_map_toGen, byCreated_filter, findLoop_filter]
  refine Prod.ext ?_ rfl
  show (List.foldl _ (false, o, l, []) _).2.2.2 = _
  rw [paging_fold]
  · simp
  · intro b o l out task; rfl

/-! ### Save / Load (repository/inmemory/io.go) -/

def toKV (t : Gk.Task) : KeyValue := { Key := t.id, Value := toGen t }

theorem foldl_append_map {α β : Type} (f : α → β) (xs : List α) (acc : List β) :
    List.foldl (fun out x => out ++ [f x]) acc xs = acc ++ xs.map f := by
  induction xs generalizing acc with
  | nil => simp
  | cons x xs ih => simp [ih]

/-- `Save`: one `KeyValue` per stored task, oldest first, key = id, value = a copy of the task -/
theorem tie_mem_Save (m : Mem) (now : Time) (nid : String) :
    InMemoryRepository.Save (genMem m now nid) = (Mem.save m).map toKV := by
  simp only [InMemoryRepository.Save, Go.rangeFold, GoMem.omapPairs, genMem, Mem.save]
  rw [foldl_append_map (fun (pair : GoMem.Pair) => ({ Key := pair.Key, Value := pair.Value.Task.Clone } : KeyValue))]
  simp only [List.map_map, toGenTask_eq, Def.Task.Clone, Go.maps_Clone, Function.comp_def, List.nil_append]
  rfl

/-- one iteration of `Load`'s second loop = one step of `Mem.load`'s fold -/
def loadGo (acc : Mem) (t : Gk.Task) : Mem :=
  let c := acc.counter + 1
  let rank := fun x => if x = t.id then c else acc.rank x
  let tasks := acc.tasks ++ [t]
  { acc with counter := c, rank := rank, tasks := tasks,
             heap := if t.state == .scheduled then H.push (Mem.lt tasks rank) acc.heap t.id else acc.heap }

theorem load_fold (kv : List Gk.Task) (acc : Mem) (now : Time) (nid : String) :
    List.foldl (fun r (pair : KeyValue) =>
        if (pair.Value.State == Def.TaskScheduled) = true then
          GoMem.omapSet (GoMem.heapPush (GoMem.WrapTask r pair.Value.Clone).1 (GoMem.WrapTask r pair.Value.Clone).2)
            pair.Key (GoMem.WrapTask r pair.Value.Clone).2
        else GoMem.omapSet (GoMem.WrapTask r pair.Value.Clone).1 pair.Key (GoMem.WrapTask r pair.Value.Clone).2)
      (genMem acc now nid) (kv.map toKV) = genMem (kv.foldl loadGo acc) now nid := by
  induction kv generalizing acc with
  | nil => rfl
  | cons t ts ih =>
    simp only [List.map_cons, List.foldl_cons]
    rw [← ih (loadGo acc t)]
    congr 1
    have hs : ((toKV t).Value.State == Def.TaskScheduled) = (t.state == St.scheduled) := by
      cases h : t.state <;> simp [toKV, toGen, h, St.name, Def.TaskScheduled] <;> decide
    have hclone : (toKV t).Value.Clone = toGen t := rfl
    simp only [hs, hclone]
    cases h : (t.state == St.scheduled) <;>
      simp only [h, loadGo, GoMem.WrapTask, GoMem.heapPush, GoMem.omapSet, genMem, toKV, ofGen_toGen, toGen_Id,
        Bool.false_eq_true, if_false, if_true] <;> rfl

theorem tie_mem_Load (m : Mem) (now : Time) (nid : String) (kv : List Gk.Task) :
    InMemoryRepository.Load (genMem m now nid) (kv.map toKV) =
      (genMem (Mem.load kv m).1 now nid, goErrOut "" (Mem.load kv m).2) := by
  simp only [InMemoryRepository.Load, Mem.load, Go.rangeFirst, Go.rangeFold]
  by_cases hany : kv.any (fun t => !t.isValid) = true
  · have : List.findSome? (fun (pair : KeyValue) =>
        if (!pair.Value.IsValid) = true then some (genMem m now nid, Go.wrapErr Go.def_ErrInvalidTask) else none)
        (kv.map toKV) = some (genMem m now nid, Go.wrapErr Go.def_ErrInvalidTask) := by
      induction kv with
      | nil => simp at hany
      | cons t ts ih =>
        simp only [List.map_cons, List.findSome?_cons, toKV, tie_IsValid]
        by_cases ht : t.isValid = true
        · simp only [ht, Bool.not_true, Bool.false_eq_true, if_false]
          apply ih
          simpa [ht] using hany
        · have : t.isValid = false := by simpa using ht
          simp [this]
    simp only [this, hany, if_true]
    simp [goErrOut, Go.wrapErr, Go.def_ErrInvalidTask]
  · have hall : ∀ t ∈ kv, t.isValid = true := by
      intro t ht
      have := hany
      simp only [List.any_eq_true, not_exists, not_and, Bool.not_eq_true'] at this
      have := this t ht
      simpa using this
    have : List.findSome? (fun (pair : KeyValue) =>
        if (!pair.Value.IsValid) = true then some (genMem m now nid, Go.wrapErr Go.def_ErrInvalidTask) else none)
        (kv.map toKV) = none := by
      rw [List.findSome?_eq_none_iff]
      intro x hx
      obtain ⟨t, ht, rfl⟩ := List.mem_map.1 hx
      simp [toKV, tie_IsValid, hall t ht]
    have hany' : kv.any (fun t => !t.isValid) = false := by simpa using hany
    simp only [this, hany', Bool.false_eq_true, if_false]
    have hinit : GoMem.init (genMem m now nid) = genMem {} now nid := rfl
    rw [hinit, load_fold kv {} now nid]
    simp only [goErrOut, Go.nil]
    rfl

/-! ### the hypotheses hold in every reachable state (`Mem.Inv`, preserved by every step: `Mem_inv_preserved`) -/

theorem Uniq_of_inv {m : Mem} (inv : Mem.Inv m) (id : String) : Uniq m id := by
  intro t ht hid
  have := Mem.find_of_mem inv.ids_nodup ht
  unfold Mem.lookup
  rw [← hid, this]

theorem heapHead_stored_of_inv {m : Mem} (inv : Mem.Inv m) :
    ∀ id, m.heap.arr[0]? = some id → (m.lookup id).isSome := by
  intro id h0
  have hmem : id ∈ m.heap.arr.toList := by
    have := Array.mem_of_getElem? h0
    simpa using this
  obtain ⟨t, ht, hid, _⟩ := (inv.heap_mem id).1 hmem
  have := Mem.find_of_mem inv.ids_nodup ht
  unfold Mem.lookup
  rw [← hid, this]; rfl

/-- non-vacuity: the empty repository satisfies the invariant, so every theorem above applies from the start -/
example : Uniq ({} : Mem) "x" ∧ ∀ id, ({} : Mem).heap.arr[0]? = some id → (({} : Mem).lookup id).isSome := by
  constructor
  · intro t ht; cases ht
  · intro id h; simp [H.empty] at h

end Gk.Tie
