/-
C18 — mutators (`/repo/mutator`): label decoding is total with an exact error condition, the
transcribed `crypto/rand.Int` loop only ever returns values in `[0, max)`, the repaired
`RandomizeScheduledAt.Mutate` never panics on its argument and always lands inside the window,
`ScheduleAtNow` sets the normalised clock reading, and what reaches the repository is ms-normalised
and still inside the window.  Witnesses for D11 / D11b on the original (`fixed = false`) code.

`|max - min|` is written `((max - min).natAbs : Int)` (core Lean has no `|·|` notation).
Helpers live in `Gk/Proofs/Mut.lean`.
-/
import Gk.Basic
import Gk.Query
import Gk.Mut
import Gk.Proofs.Mut
namespace Gk
open Gk.Mut

/-! ## 1. Decoding is total; exact error condition

`decodeRandomize` and `load` are total Lean functions (no `partial`, no `panic`), so the Go decoder's
"never panics, returns exactly one of value / error" is by construction.  `Mut.rejected m lbl o`
(defined in `Gk/Proofs/Mut.lean`) is
`∃ v, SMap.lookup m lbl = some v ∧ v ≠ "" ∧ o.dur = none ∧ o.int = none`. -/

theorem C18_rejected_def (m : SMap) (lbl : String) (o : ParseOracle) :
    rejected m lbl o ↔ ∃ v, SMap.lookup m lbl = some v ∧ v ≠ "" ∧ o.dur = none ∧ o.int = none :=
  Iff.rfl

/-- `parseDur` fails iff the value is non-empty and both parsers reject it. -/
theorem C18_parseDur_error (s : String) (o : ParseOracle) :
    parseDur s o = none ↔ s ≠ "" ∧ o.dur = none ∧ o.int = none :=
  parseDur_eq_none

theorem C18_decode_error (m : SMap) (oMin oMax : ParseOracle) :
    decodeRandomize m oMin oMax = .error () ↔
      rejected m labelMin oMin ∨ rejected m labelMax oMax :=
  decode_error_iff m oMin oMax

/-- `Load` errs iff the meta map is non-empty and a present, non-empty randomize label is rejected
by both `time.ParseDuration` and `strconv.ParseInt`. -/
theorem C18_decode_total (m : SMap) (oMin oMax : ParseOracle) :
    load m oMin oMax = .error () ↔
      m ≠ [] ∧ (rejected m labelMin oMin ∨ rejected m labelMax oMax) := by
  rw [← decode_error_iff]
  unfold load
  cases m with
  | nil => simp
  | cons kv m =>
    simp only [List.isEmpty_cons, Bool.false_eq_true, if_false, ne_eq, reduceCtorEq,
      not_false_eq_true, true_and]
    cases hd : decodeRandomize (kv :: m) oMin oMax with
    | error e => simp
    | ok r => cases r <;> simp

/-- Both labels absent: decoding yields "no mutator", and `Load` succeeds with at most the
`ScheduleAtNow` mutator — never a randomize mutator. -/
theorem C18_decode_absent (m : SMap) (oMin oMax : ParseOracle)
    (hmn : SMap.lookup m labelMin = none) (hmx : SMap.lookup m labelMax = none) :
    decodeRandomize m oMin oMax = .ok none ∧
    load m oMin oMax = .ok (if (SMap.lookup m labelNow).isSome then [Mutator.now] else []) ∧
    ∀ l, load m oMin oMax = .ok l → ∀ x ∈ l, x = Mutator.now := by
  have hd := decode_none_none (oMin := oMin) (oMax := oMax) hmx hmn
  have hl : load m oMin oMax =
      .ok (if (SMap.lookup m labelNow).isSome then [Mutator.now] else []) := by
    unfold load
    cases m with
    | nil => simp [SMap.lookup]
    | cons kv m => simp [hd]
  refine ⟨hd, hl, ?_⟩
  intro l h x hx
  rw [hl] at h
  injection h with h
  subst h
  split at hx <;> simp at hx
  exact hx

/-- Only the min label present: the max bound is 0. -/
theorem C18_decode_only_min (m : SMap) (oMin oMax : ParseOracle) (s : String) (v : Int)
    (hmx : SMap.lookup m labelMax = none) (hmn : SMap.lookup m labelMin = some s)
    (hp : parseDur s oMin = some v) :
    decodeRandomize m oMin oMax = .ok (some (.randomize v 0)) := by
  rw [decode_none_some hmx hmn, hp]

/-- Only the max label present: the min bound is 0. -/
theorem C18_decode_only_max (m : SMap) (oMin oMax : ParseOracle) (s : String) (v : Int)
    (hmx : SMap.lookup m labelMax = some s) (hmn : SMap.lookup m labelMin = none)
    (hp : parseDur s oMax = some v) :
    decodeRandomize m oMin oMax = .ok (some (.randomize 0 v)) := by
  rw [decode_some_none hmx hmn, hp]

/-- Both labels present and accepted. -/
theorem C18_decode_both (m : SMap) (oMin oMax : ParseOracle) (sn sx : String) (vn vx : Int)
    (hmx : SMap.lookup m labelMax = some sx) (hmn : SMap.lookup m labelMin = some sn)
    (hpn : parseDur sn oMin = some vn) (hpx : parseDur sx oMax = some vx) :
    decodeRandomize m oMin oMax = .ok (some (.randomize vn vx)) := by
  rw [decode_some_some hmx hmn, hpx, hpn]

/-- A present but empty label value is the bound 0 (never an error). -/
theorem C18_parseDur_empty (o : ParseOracle) : parseDur "" o = some 0 := parseDur_empty o

/-- `Load` appends the decoded randomize mutator after the optional `ScheduleAtNow`. -/
theorem C18_load_some (m : SMap) (oMin oMax : ParseOracle) (mu : Mutator)
    (hd : decodeRandomize m oMin oMax = .ok (some mu)) (hne : m ≠ []) :
    load m oMin oMax =
      .ok ((if (SMap.lookup m labelNow).isSome then [Mutator.now] else []) ++ [mu]) := by
  unfold load
  cases m with
  | nil => exact absurd rfl hne
  | cons kv m => simp [hd]

/-! ## 2. `rand.Int` stays in range -/

theorem C18_randint_range (max : Int) (bytes : List Nat) :
    (∀ n rest, randInt max bytes = .val n rest → 0 < max ∧ (n : Int) < max ∧ rest <:+ bytes) ∧
    (randInt max bytes = .panic ↔ max ≤ 0) ∧
    (∀ (n : Nat) rest, max ≤ (n : Int) → randInt max bytes ≠ .val n rest) := by
  refine ⟨fun n rest h => randInt_val h, randInt_panic_iff max bytes, ?_⟩
  intro n rest hge h
  have := (randInt_val h).2.1
  omega

/-- `max = 1`: the only value is 0 and no byte is consumed. -/
theorem C18_randint_one (bytes : List Nat) : randInt 1 bytes = .val 0 bytes := randInt_one bytes

/-- The loop itself: any accepted value is `< max`, and it never panics. -/
theorem C18_randloop_range (max k b fuel : Nat) (bytes : List Nat) :
    (∀ n rest, randLoop max k b fuel bytes = .val n rest → n < max ∧ rest <:+ bytes) ∧
    randLoop max k b fuel bytes ≠ .panic :=
  ⟨fun _ _ h => randLoop_val fuel bytes h, randLoop_ne_panic fuel bytes⟩

/-! ## 3. The repaired `Mutate` never panics on its argument -/

/-- The only way the repaired code panics is the random source running dry. -/
theorem C18_mutate_no_panic (min max : Int) (p : Param) (bytes : List Nat)
    (h : mutateRandomize true min max p bytes = .panic) :
    min ≠ max ∧ randInt ((max - min).natAbs : Int) bytes = .eof :=
  (mutate_fixed_panic_iff min max p bytes).1 h

theorem C18_mutate_panic_iff (min max : Int) (p : Param) (bytes : List Nat) :
    mutateRandomize true min max p bytes = .panic ↔
      min ≠ max ∧ randInt ((max - min).natAbs : Int) bytes = .eof :=
  mutate_fixed_panic_iff min max p bytes

/-- The argument handed to `rand.Int` by the repaired code is never rejected as non-positive. -/
theorem C18_mutate_arg_pos (min max : Int) (bytes : List Nat) (h : min ≠ max) :
    randInt ((max - min).natAbs : Int) bytes ≠ .panic := by
  intro hp
  have := (randInt_panic_iff _ _).1 hp
  omega

/-- Degenerate window: no panic for any byte list (even `[]`), no byte consumed, offset = `min`. -/
theorem C18_mutate_degenerate (min : Int) (p : Param) (bytes : List Nat) :
    mutateRandomize true min min p bytes =
      .ok { p with scheduledAt := some (p.scheduledAt.getD 0 + min) } bytes := by
  rw [mutateRandomize_fixed]; simp

/-! ## 4. The window -/

theorem C18_window (min max : Int) (p p' : Param) (bytes rest : List Nat)
    (h : mutateRandomize true min max p bytes = .ok p' rest) :
    let orig := p.scheduledAt.getD 0
    let off := p'.scheduledAt.getD 0 - orig
    p'.scheduledAt.isSome = true ∧
    (min = max → off = min) ∧
    (min < max → min ≤ off ∧ off < max) ∧
    (max < min → max < off ∧ off ≤ min) ∧
    (p'.workId = p.workId ∧ p'.priority = p.priority ∧ p'.param = p.param ∧
      p'.meta_ = p.meta_ ∧ p'.deadline = p.deadline) ∧
    rest <:+ bytes := by
  obtain ⟨off, hp, hsuf, h1, h2, h3⟩ := mutate_fixed_ok h
  have e : p'.scheduledAt.getD 0 - p.scheduledAt.getD 0 = off := by
    rw [hp]; exact int_add_sub_cancel_left _ _
  have hs : p'.scheduledAt.isSome = true := by rw [hp]; rfl
  have hf : p'.workId = p.workId ∧ p'.priority = p.priority ∧ p'.param = p.param ∧
      p'.meta_ = p.meta_ ∧ p'.deadline = p.deadline := by
    rw [hp]; exact ⟨rfl, rfl, rfl, rfl, rfl⟩
  intro orig off'
  have e' : off' = off := e
  rw [e']
  exact ⟨hs, h1, h2, h3, hf, hsuf⟩

/-- Same fact as a record equation. -/
theorem C18_window_record (min max : Int) (p p' : Param) (bytes rest : List Nat)
    (h : mutateRandomize true min max p bytes = .ok p' rest) :
    p' = { p with scheduledAt := p'.scheduledAt } := by
  obtain ⟨off, hp, -⟩ := mutate_fixed_ok h
  subst hp
  rfl

/-! ## 5. `ScheduleAtNow`, and `now` followed by `randomize` -/

theorem C18_now (now : Time) (p : Param) :
    (mutateNow now p).scheduledAt = some (normalize now) ∧
    mutateNow now p = { p.normalize with scheduledAt := some (normalize now) } ∧
    ((mutateNow now p).workId = p.normalize.workId ∧
      (mutateNow now p).priority = p.normalize.priority ∧
      (mutateNow now p).param = p.normalize.param ∧
      (mutateNow now p).meta_ = p.normalize.meta_ ∧
      (mutateNow now p).deadline = p.normalize.deadline) :=
  ⟨rfl, rfl, rfl, rfl, rfl, rfl, rfl⟩

theorem C18_apply_now_then_randomize (mn mx : Int) (now : Time) (p p' : Param)
    (bytes rest : List Nat)
    (h : apply true now [.now, .randomize mn mx] p bytes = .ok p' rest) :
    let off := p'.scheduledAt.getD 0 - normalize now
    p'.scheduledAt.isSome = true ∧
    (mn = mx → off = mn) ∧
    (mn < mx → mn ≤ off ∧ off < mx) ∧
    (mx < mn → mx < off ∧ off ≤ mn) ∧
    (p'.workId = p.normalize.workId ∧ p'.priority = p.normalize.priority ∧
      p'.param = p.normalize.param ∧ p'.meta_ = p.normalize.meta_ ∧
      p'.deadline = p.normalize.deadline) ∧
    rest <:+ bytes := by
  have h' : mutateRandomize true mn mx (mutateNow now p) bytes = .ok p' rest := by
    simp only [apply] at h
    cases hm : mutateRandomize true mn mx (mutateNow now p) bytes with
    | ok q r =>
      rw [hm] at h
      exact h
    | panic => rw [hm] at h; simp at h
  exact C18_window mn mx (mutateNow now p) p' bytes rest h'

/-- `apply` on that list panics only when the random source runs dry. -/
theorem C18_apply_now_then_randomize_panic (mn mx : Int) (now : Time) (p : Param)
    (bytes : List Nat) (h : apply true now [.now, .randomize mn mx] p bytes = .panic) :
    mn ≠ mx ∧ randInt ((mx - mn).natAbs : Int) bytes = .eof := by
  simp only [apply] at h
  cases hm : mutateRandomize true mn mx (mutateNow now p) bytes with
  | ok q r => rw [hm] at h; simp at h
  | panic => exact C18_mutate_no_panic mn mx _ bytes hm

/-! ## 6. What the repository stores -/

/-- `ToTask` after `Normalize` stores the ms-truncation of the mutated time (for every `p`). -/
theorem C18_store_scheduledAt (p : Param) (id : String) (now : Time) :
    (p.normalize.toTask id now).scheduledAt = normalize (p.scheduledAt.getD 0) := by
  cases hp : p.scheduledAt with
  | none => simp [Param.toTask, Task.update, Task.normalizeTime, Param.normalize, Task.blank, hp]
  | some t =>
    simp [Param.toTask, Task.update, Task.normalizeTime, Param.normalize, Task.blank, hp,
      normalize_normalize]

theorem C18_normalized_at_store (min max : Int) (p p' : Param) (bytes rest : List Nat)
    (id : String) (now : Time) (hle : min ≤ max)
    (h : mutateRandomize true min max p bytes = .ok p' rest) :
    let orig := p.scheduledAt.getD 0
    normalize (orig + min) ≤ normalize (p'.scheduledAt.getD 0) ∧
    normalize (p'.scheduledAt.getD 0) ≤ orig + max ∧
    (p'.normalize.toTask id now).scheduledAt = normalize (p'.scheduledAt.getD 0) ∧
    isNorm (p'.normalize.toTask id now).scheduledAt = true := by
  obtain ⟨_, h1, h2, _, _, _⟩ := C18_window min max p p' bytes rest h
  have hb := window_bounds _ _ min max hle h1 h2
  refine ⟨normalize_mono hb.1, Int.le_trans (normalize_le_self _) hb.2,
    C18_store_scheduledAt p' id now, ?_⟩
  rw [C18_store_scheduledAt]
  exact isNorm_normalize' _

/-- For a proper window the stored value is strictly below `orig + max`. -/
theorem C18_normalized_at_store_lt (min max : Int) (p p' : Param) (bytes rest : List Nat)
    (hlt : min < max) (h : mutateRandomize true min max p bytes = .ok p' rest) :
    normalize (p'.scheduledAt.getD 0) < p.scheduledAt.getD 0 + max := by
  obtain ⟨_, _, h2, _, _, _⟩ := C18_window min max p p' bytes rest h
  exact window_store_lt _ _ min max (h2 hlt)

/-! ## 7. Witnesses for the original code (`fixed = false`) -/

deriving instance DecidableEq for MutOut
deriving instance DecidableEq for Except

/-- D11: `min = max` makes the original code call `rand.Int(_, 0)`, which panics — although the
byte source is non-empty. -/
theorem C18_D11_witness :
    mutateRandomize false 7000000 7000000
      { workId := some "w", scheduledAt := some 1700000000000000000 } [1, 2, 3] = .panic := by
  decide

/-- The repaired code on the same input: offset exactly `min`, no byte consumed. -/
theorem C18_D11_fixed :
    mutateRandomize true 7000000 7000000
      { workId := some "w", scheduledAt := some 1700000000000000000 } [1, 2, 3] =
      .ok { workId := some "w", scheduledAt := some 1700000000007000000 } [1, 2, 3] := by
  decide

/-- D11b: `max - min = 2^63 + 1` wraps to a negative int64, so the draw is *subtracted*. -/
theorem C18_D11b_witness_eq :
    mutateRandomize false (-2) 9223372036854775807 {} [0x7f, 0, 0, 0, 0, 0, 0, 1] =
      .ok { scheduledAt := some (-9151314442816847875) } [] := by
  decide

theorem C18_D11b_witness :
    ∃ p' rest,
      mutateRandomize false (-2) 9223372036854775807 {} [0x7f, 0, 0, 0, 0, 0, 0, 1] = .ok p' rest ∧
      let off := p'.scheduledAt.getD 0 - (({} : Param).scheduledAt.getD 0)
      ¬ ((-2 : Int) ≤ off ∧ off < 9223372036854775807) ∧ off < -2 :=
  ⟨_, _, C18_D11b_witness_eq, by decide⟩

/-- The repaired code on the D11b input lands inside the window. -/
theorem C18_D11b_fixed :
    mutateRandomize true (-2) 9223372036854775807 {} [0x7f, 0, 0, 0, 0, 0, 0, 1] =
      .ok { scheduledAt := some 9151314442816847871 } [] := by
  decide

/-! ## 8. Non-vacuity -/

/-- The draw `250` is rejected (`≥ 200`), `100` is accepted, `7` is left unread. -/
example : randInt 200 [250, 100, 7] = .val 100 [7] := by decide

example :
    mutateRandomize true 0 200 { scheduledAt := some 5000 } [250, 100, 7] =
      .ok { scheduledAt := some 5100 } [7] := by decide

/-- The hypothesis of `C18_window` is satisfiable with a rejected-then-accepted draw, and its
conclusion gives the expected bounds. -/
example :
    (0 : Int) ≤ 5100 - 5000 ∧ (5100 - 5000 : Int) < 200 := by
  have h := C18_window 0 200 { scheduledAt := some 5000 } { scheduledAt := some 5100 }
    [250, 100, 7] [7] (by decide)
  exact h.2.2.1 (by decide)

/-- Reversed window `max < min`: the draw is subtracted from `min`. -/
example :
    mutateRandomize true 300 100 { scheduledAt := some 5000 } [250, 100, 7] =
      .ok { scheduledAt := some 5200 } [7] := by decide

example : (100 : Int) < 5200 - 5000 ∧ (5200 - 5000 : Int) ≤ 300 := by
  have h := C18_window 300 100 { scheduledAt := some 5000 } { scheduledAt := some 5200 }
    [250, 100, 7] [7] (by decide)
  exact h.2.2.2.1 (by decide)

/-- Panic of the repaired code really happens, and only because the source ran dry: the single
draw `250` is rejected and nothing is left. -/
example :
    mutateRandomize true 0 200 { scheduledAt := some 5000 } [250] = .panic ∧
    randInt 200 [250] = .eof := by decide

example : randInt (((200 : Int) - 0).natAbs : Int) [250] = .eof :=
  (C18_mutate_no_panic 0 200 { scheduledAt := some 5000 } [250] (by decide)).2

/-- Rejected, then accepted, through `apply` with `ScheduleAtNow` first. -/
example :
    apply true 1700000000123456789 [.now, .randomize 0 200] {} [250, 100, 7] =
      .ok { scheduledAt := some 1700000000123000100 } [7] := by decide

/-- Decoding: a rejected label is an error, an absent pair is no mutator. -/
example :
    load [(labelMin, "abc")] { dur := none, int := none } { dur := none, int := none } =
      .error () := by decide

example :
    load [(labelNow, ""), (labelMax, "1s")] default { dur := some 1000000000, int := none } =
      .ok [.now, .randomize 0 1000000000] := by decide

end Gk
