/-
Tie theorems, package `mutator` (decode logic): `parseDur`, `DecodeRandomizeScheduledAt`, `DecodeScheduleAtNow`,
`ScheduleAtNow.Mutate` as generated from the CURRENT Go sources (Gk/Gen/Mutator.lean) equal the hand-written model
`Gk.Mut` (Gk/Mut.lean) that C18's theorems are about. `time.ParseDuration` / `strconv.ParseInt` are oracles on both
sides: `oracleOf` is the model's per-string `ParseOracle` read off the Go-side oracle functions.
-/
import Gk.Gen.Mutator
import Gk.Mut
import Gk.Props.TieDef
namespace Gk.Tie
open Gk Gk.Gen Gk.Gen.Mutator

/-- the model's oracle record for the string `s`, read off the Go-side oracles -/
def oracleOf [o : Go.Oracles] (s : String) : Mut.ParseOracle :=
  { dur := if (o.parseDuration s).2.isNone then some (o.parseDuration s).1 else none
    int := if (o.parseInt s).2.isNone then some (o.parseInt s).1 else none }

variable [o : Go.Oracles]

theorem tie_parseDur (s : String) :
    (if (parseDur s).2.isNone then some (parseDur s).1 else none) = Mut.parseDur s (oracleOf s) := by
  unfold parseDur Mut.parseDur oracleOf Go.time_ParseDuration Go.strconv_ParseInt
  by_cases hs : s = ""
  · simp [hs, Go.nil]
  · rcases hd : o.parseDuration s with ⟨d, ed⟩
    rcases hi : o.parseInt s with ⟨i, ei⟩
    cases ed <;> cases ei <;> simp [hs, Go.nil, Go.isNil, Go.IsNil.isNil, Go.fmtErrorf]

/-- a failed `parseDur` returns a non-nil error (never a silent zero) -/
theorem tie_parseDur_err (s : String) : (parseDur s).2.isSome ↔ Mut.parseDur s (oracleOf s) = none := by
  rw [← tie_parseDur]; cases (parseDur s).2 <;> simp

/-- what `DecodeRandomizeScheduledAt` returns, read as the model's result type -/
def absDecode (r : RandomizeScheduledAt × Bool × GoError) : Except Unit (Option Mut.Mutator) :=
  if r.2.2.isSome then .error () else if r.2.1 then .ok (some (.randomize r.1.Min r.1.Max)) else .ok none

theorem lookup_of_mapLookup (m : SMap) (k : String) :
    SMap.lookup m k = if (Go.mapLookup m k).2 = true then some (Go.mapLookup m k).1 else none := by
  unfold Go.mapLookup; cases SMap.lookup m k <;> simp

theorem mapLookup_absent (m : SMap) (k : String) (h : (Go.mapLookup m k).2 = false) : (Go.mapLookup m k).1 = "" := by
  unfold Go.mapLookup at *; cases hl : SMap.lookup m k <;> simp_all

theorem tie_DecodeRandomizeScheduledAt (m : SMap) :
    absDecode (DecodeRandomizeScheduledAt m) =
      Mut.decodeRandomize m
        (oracleOf ((Go.mapLookup m Mut.labelMin).1)) (oracleOf ((Go.mapLookup m Mut.labelMax).1)) := by
  unfold DecodeRandomizeScheduledAt Mut.decodeRandomize
  have e1 : Mut.labelMax = LabelRandomizeScheduledAtMax := rfl
  have e2 : Mut.labelMin = LabelRandomizeScheduledAtMin := rfl
  simp only [lookup_of_mapLookup, e1, e2]
  by_cases hx : (Go.mapLookup m LabelRandomizeScheduledAtMax).2 = true <;>
    by_cases hn : (Go.mapLookup m LabelRandomizeScheduledAtMin).2 = true <;>
    simp only [hx, hn, if_true, if_false, Bool.not_true, Bool.not_false, Bool.and_true, Bool.and_false, Bool.true_and,
      Bool.false_and, Bool.false_eq_true, Go.isNil, Go.IsNil.isNil, Go.nil] <;>
    (try simp only [← tie_parseDur])
  · by_cases ex : (parseDur (Go.mapLookup m LabelRandomizeScheduledAtMax).1).2.isNone = true <;>
      by_cases en : (parseDur (Go.mapLookup m LabelRandomizeScheduledAtMin).1).2.isNone = true <;>
      simp [ex, en, absDecode]
  · by_cases ex : (parseDur (Go.mapLookup m LabelRandomizeScheduledAtMax).1).2.isNone = true <;>
      simp [ex, absDecode] <;> rfl
  · by_cases en : (parseDur (Go.mapLookup m LabelRandomizeScheduledAtMin).1).2.isNone = true <;>
      simp [en, absDecode] <;> rfl
  · simp [absDecode]

/-- `DecodeScheduleAtNow`: found iff the label is present; never an error -/
theorem tie_DecodeScheduleAtNow (m : SMap) :
    (DecodeScheduleAtNow m).2.1 = (SMap.lookup m Mut.labelNow).isSome ∧ (DecodeScheduleAtNow m).2.2 = none := by
  have e : Mut.labelNow = LabelScheduleAtNow := rfl
  unfold DecodeScheduleAtNow
  simp only [lookup_of_mapLookup, e]
  by_cases h : (Go.mapLookup m LabelScheduleAtNow).2 = true <;> simp [h, Go.nil]

/-- `ScheduleAtNow.Mutate`: ScheduledAt = clock.Now(), then Normalize -/
theorem tie_ScheduleAtNow_Mutate (x : ScheduleAtNow) (p : Gk.Param) :
    x.Mutate (toGenP p) = toGenP (Mut.mutateNow o.now p) := by
  unfold ScheduleAtNow.Mutate Mut.mutateNow
  rw [← tie_Param_Normalize]
  rfl

end Gk.Tie
