/-
C03 — no work function starts before the scheduled time of the task record handed to it.

FALSE in general (open finding D3i): the scheduler dispatches the *copy* of the task it read earlier;
if the user postpones the task between that read and `MarkAsDispatched`, the work function starts
with the postponed record before its time. PROVED for every script in which no update changes the
scheduled time of the task whose copy the scheduler currently holds (`World.heldId`).
-/
import Gk.Proofs.World
namespace Gk
open World WP

/-- C03 as demanded. -/
def C03_full : Prop :=
  ∀ (t0 : Time) (acts : List Act), (init t0).Script acts → ((init t0).run acts).noEarlyStart = true

namespace C03

def t0 : Time := 63808128000000000000
def sec : Time := 1000000000

def pT : Param := { workId := some "w", scheduledAt := some (t0 + 10 * sec) }

/-- start the timer, add `t` (due at 10 s), advance to 40 s, Step announces `t` -/
def announce : List Act :=
  [ .user .start none, .user (.add "t" pT) none, .advance (t0 + 40 * sec),
    .sched .beginStep, .sched .lastTimerErr, .sched .selTimer, .sched (.getNext .none),
    .sched .nextScheduled ]

def postpone : Act := .user (.update "t" { scheduledAt := some (t0 + 50 * sec) }) none

def dispatch : List Act :=
  [ .sched .beginStep, .sched .lastTimerErr, .sched (.waitWorker true),
    .sched (.markDispatched .none none), .sched (.getById .none) ]

/-- D3i: the task is postponed to 50 s after it was announced (held in `lastTask`) -/
def d3i : List Act := announce ++ [postpone] ++ dispatch

/-- variant: postponed between `GetNext` and `NextScheduled` (held by the program counter); the hook
keeps its cached head (it only marks the cache stale), so the `NextScheduled` comparison passes -/
def d3iPc : List Act :=
  [ .user .start none, .user (.add "t" pT) none, .advance (t0 + 40 * sec),
    .sched .beginStep, .sched .lastTimerErr, .sched .selTimer, .sched (.getNext .none),
    postpone, .sched .nextScheduled ] ++ dispatch

/-- variant: postponed while a failed dispatch (`DispatchErr`, no worker) awaits its `Retry` -/
def d3iRet : List Act :=
  announce ++
  [ .sched .beginStep, .sched .lastTimerErr, .sched (.waitWorker false), postpone,
    .sched .beginRetry, .sched (.getById .none), .sched (.waitWorker true),
    .sched (.markDispatched .none none), .sched (.getById .none) ]

end C03

/-- D3i witness: the work function of `t` starts at 40 s with a record scheduled at 50 s. -/
theorem C03_D3i_witness :
    (init C03.t0).Script C03.d3i ∧
    (((init C03.t0).run C03.d3i).log.map (fun e => (e.id, e.at_, e.task.scheduledAt, e.task.state)))
      = [("t", C03.t0 + 40 * C03.sec, C03.t0 + 50 * C03.sec, .dispatched)] ∧
    ((init C03.t0).run C03.d3i).noEarlyStart = false := by
  decide

theorem C03_full_false : ¬ C03_full := by
  intro h
  have h1 := h C03.t0 C03.d3i C03_D3i_witness.1
  rw [C03_D3i_witness.2.2] at h1
  cases h1

/-- each of the three places a copy is held in is a real trigger -/
theorem C03_D3i_variants :
    ((init C03.t0).Script C03.d3iPc ∧ ((init C03.t0).run C03.d3iPc).noEarlyStart = false) ∧
    ((init C03.t0).Script C03.d3iRet ∧ ((init C03.t0).run C03.d3iRet).noEarlyStart = false) := by
  decide

/-- the scripts above do postpone the held task -/
example : ¬ (init C03.t0).NoPostpone C03.d3i ∧ ¬ (init C03.t0).NoPostpone C03.d3iPc ∧
    ¬ (init C03.t0).NoPostpone C03.d3iRet := by decide

/-- **C03 (partial).** If no update of the script changes the scheduled time of the task whose copy the
scheduler holds at that moment, no work function starts before the scheduled time of its record. -/
theorem C03_partial (t0 : Time) (acts : List Act) (hs : (init t0).Script acts)
    (hp : (init t0).NoPostpone acts) : ((init t0).run acts).noEarlyStart = true := by
  have hT := TInv_run (Inv_init t0) (TInv_init t0) hs hp
  unfold World.noEarlyStart
  rw [List.all_eq_true]
  intro e he
  exact decide_eq_true (hT.early e he)

/-- what the proof rests on: whatever the scheduler holds is stored and due -/
theorem C03_held_is_due (t0 : Time) (acts : List Act) (hs : (init t0).Script acts)
    (hp : (init t0).NoPostpone acts) (t : Task) (cur : Task)
    (hpc : ∀ t', ((init t0).run acts).pc ≠ .s_nextSched t')
    (hh : ((init t0).run acts).held = some t)
    (hl : ((init t0).run acts).obs.repo.lookup t.id = some cur) :
    cur.scheduledAt ≤ ((init t0).run acts).obs.clock.now := by
  have hI := Inv_run (Inv_init t0) hs
  have hT := TInv_run (Inv_init t0) (TInv_init t0) hs hp
  generalize (init t0).run acts = w at *
  unfold World.held at hh
  cases hw : w.pc <;> rw [hw] at hh <;> simp only at hh
  case idle =>
    cases hlt : w.lastTask with
    | some t' =>
      rw [hlt] at hh; simp only [Option.some.injEq] at hh; subst hh
      exact hT.lastDue _ hlt cur hl
    | none =>
      rw [hlt] at hh
      cases hr : w.ret <;> rw [hr] at hh <;> simp only [Option.some.injEq, reduceCtorEq] at hh
      subst hh
      exact hT.retDue _ _ hw hr cur hl
  case s_nextSched t' => exact absurd hw (hpc t')
  case d_wait t' b => cases hh; exact hT.pcDue t (by rw [hw]; rfl) (by rw [hw]; simp) cur hl
  case d_mark t' b => cases hh; exact hT.pcDue t (by rw [hw]; rfl) (by rw [hw]; simp) cur hl
  case d_get t' => cases hh; exact hT.pcDue t (by rw [hw]; rfl) (by rw [hw]; simp) cur hl
  case r_getById t' => cases hh; exact hT.pcDue t (by rw [hw]; rfl) (by rw [hw]; simp) cur hl
  all_goals exact hT.lastDue t hh cur hl

/-- Non-vacuity: a script with `Script` and `NoPostpone` (it even contains an update of the held task
that does not touch the time, and an update of the time before the task is held) that starts a work
function, at 40 s for a record scheduled at 20 s. -/
example :
    let s := [ Act.user (.add "t" C03.pT) none,
               .user (.update "t" { scheduledAt := some (C03.t0 + 20 * C03.sec) }) none,
               .user .start none,
               .advance (C03.t0 + 40 * C03.sec),
               .sched .beginStep, .sched .lastTimerErr, .sched .selTimer, .sched (.getNext .none),
               .sched .nextScheduled, .user (.update "t" { priority := some 7 }) none ] ++ C03.dispatch
    (init C03.t0).Script s ∧ (init C03.t0).NoPostpone s ∧
    (((init C03.t0).run s).log.map (fun e => (e.id, e.at_, e.task.scheduledAt, e.task.priority)))
      = [("t", C03.t0 + 40 * C03.sec, C03.t0 + 20 * C03.sec, 7)] := by
  decide

/-! ### D3ii: the due check -/

/-- the code before the due check was added to the timer branch (everything else repaired) -/
def C03.d3iiInit : World := { init C03.t0 with fix := { dueCheck := false } }

/-- the timer fires for `a` (10 s) at 40 s; before `GetNext` the user cancels `a` and adds `b`
(100 s): `GetNext` returns `b`, the hook's cache says `b` too, so the comparison passes -/
def C03.d3ii : List Act :=
  [ .user .start none, .user (.add "a" C03.pT) none, .advance (C03.t0 + 40 * C03.sec),
    .sched .beginStep, .sched .lastTimerErr, .sched .selTimer,
    .user (.cancel "a") none,
    .user (.add "b" { workId := some "w", scheduledAt := some (C03.t0 + 100 * C03.sec) }) none,
    .sched (.getNext .none), .sched .nextScheduled ] ++ C03.dispatch

/-- D3ii witness: without the due check `b` is started 60 s early although nobody postponed anything;
with the due check the same script announces nothing (`ErrScheduleStoppedOrChanged`). -/
theorem C03_D3ii_witness :
    C03.d3iiInit.Script C03.d3ii ∧ C03.d3iiInit.NoPostpone C03.d3ii ∧
    ((C03.d3iiInit.run C03.d3ii).log.map (fun e => (e.id, e.at_, e.task.scheduledAt)))
      = [("b", C03.t0 + 40 * C03.sec, C03.t0 + 100 * C03.sec)] ∧
    (C03.d3iiInit.run C03.d3ii).noEarlyStart = false ∧
    ((init C03.t0).run C03.d3ii).log = [] ∧
    ((init C03.t0).run (C03.d3ii.take 10)).ret = .nextTask none (some .schedChanged) := by
  decide

end Gk
