/-
C10ent — linearizability of the SQL (ent) repository's two-statement protocol.

`Gk.Ent` (Gk/EntProto.lean) models N concurrent clients of /repo/repository/ent/repository.go over one
shared database: a conditional `UPDATE … WHERE id = ? AND state = <required>` and, only when it misses,
a separate later `GetById` from which the refusal is classified (`MarkAsDone` retries when that read
shows the task dispatched).  Statements of other clients run in between.

* the conditional statement, when it hits, is `Repo.step` (`C10ent_hit_is_step`);
* a missed statement followed — after any lifecycle steps of other clients — by the classifying read is
  the atomic operation executed at the instant of the read (`C10ent_miss_then_classify`,
  `C10ent_miss_then_classify_done`), PROVIDED the id was known at the miss (`C10ent_needs_known_id`);
* every run whose INSERTs use fresh ids (`FreshAdds`) has a linearizable history
  (`C10ent_linearizable` for quiescent runs, `C10ent_linearizable_prefix` for every run);
* racing `Cancel` / `MarkAsDispatched` of one task never both succeed (`C10ent_conflict`).
-/
import Gk.Proofs.EntProto
import Gk.Props.C10
namespace Gk
open Gk.Lin Gk.Ent

/-! ## 1 — the statements against the specification -/

/-- A first statement that decides the call (a hit of the conditional UPDATE — "hit" is defined from the
guard `row exists ∧ state = required` in `Ent.stmt` —, the parameter check / read-only path of
`UpdateById`, or a single-statement operation) has exactly the effect and the result of `Repo.step`
on the database it ran against. -/
theorem C10ent_hit_is_step {r r' : Repo} (h : r.WF) {now : Time} {op : Op} {out : Out}
    (hs : Ent.stmt r now op = .fin r' out) : Repo.step {} r now op = (r', out) :=
  stmt_fin_spec h hs

/-- The conditional UPDATE hits exactly when its guard holds, and then sets what `Repo.step` sets. -/
theorem C10ent_hit_iff_guard (r : Repo) (now : Time) (id : String) (e : Option String) :
    (Ent.stmt r now (.cancel id) =
      if Ent.guard r id .scheduled then .fin (r.replace id (setCancel now)) .ok else .miss) ∧
    (Ent.stmt r now (.dispatch id) =
      if Ent.guard r id .scheduled then .fin (r.replace id (setDispatch now)) .ok else .miss) ∧
    (Ent.stmt r now (.done id e) =
      if Ent.guard r id .dispatched then .fin (r.replace id (setDone now e)) .ok else .miss) ∧
    (Ent.guard r id .scheduled = true → ∀ f, r.mutateScheduled id f = (r.replace id f, .ok)) ∧
    (Ent.guard r id .dispatched = true →
      Repo.step {} r now (.done id e) = (r.replace id (setDone now e), .ok)) :=
  ⟨rfl, rfl, rfl, fun h f => mutate_hit f h, done_hit now e⟩

/-- Pointwise atomicity of miss + later classification.  The conditional statement of
cancel / dispatch / update missed in `s1` on an id that EXISTS in `s1`; `s2` is reached from `s1` by any
lifecycle steps at any clock readings.  Then the classifying read in `s2` yields a result (no retry),
this result is what `Repo.step` returns in `s2`, and `Repo.step` leaves `s2` unchanged: the two-statement
operation is the atomic operation executed at the instant of its second statement. -/
theorem C10ent_miss_then_classify {s1 : Repo} {now1 : Time} {op : Op} {id : String}
    (hop : op = .cancel id ∨ op = .dispatch id ∨ ∃ p, op = .update id p)
    (hmiss : Ent.stmt s1 now1 op = .miss) (hex : (s1.lookup id).isSome = true)
    (mid : List (Time × Op)) (hlc : ∀ x ∈ mid, x.2.isLifecycle = true) (now : Time) :
    ∃ out, Ent.classify (Repo.run {} s1 mid) op = some out ∧
      Repo.step {} (Repo.run {} s1 mid) now op = (Repo.run {} s1 mid, out) := by
  have hm := stmt_miss_spec hmiss
  have hg : Ent.guard s1 id .scheduled = false := by
    rcases hop with rfl | rfl | ⟨p, rfl⟩
    · exact hm
    · exact hm
    · exact hm.2
  obtain ⟨-, hg2⟩ := run_keeps_miss mid (fun x hx => by rw [lifecycle_eq]; exact hlc x hx) hex hg
  have hm2 : missOk (Repo.run {} s1 mid) op := by
    rcases hop with rfl | rfl | ⟨p, rfl⟩
    · exact hg2
    · exact hg2
    · exact ⟨hm.1, hg2⟩
  have hc : ∃ out, Ent.classify (Repo.run {} s1 mid) op = some out := by
    rcases hop with rfl | rfl | ⟨p, rfl⟩ <;> exact ⟨_, rfl⟩
  obtain ⟨out, hc⟩ := hc
  exact ⟨out, hc, classify_spec hm2 now hc⟩

/-- The same for `MarkAsDone`, with no hypothesis at all on the state at the miss: whenever the
classifying read does not show the task dispatched, its result is what `Repo.step` returns in that state,
and `Repo.step` changes nothing. -/
theorem C10ent_miss_then_classify_done (s2 : Repo) (id : String) (e : Option String) (now : Time)
    {out : Out} (hc : Ent.classify s2 (.done id e) = some out) :
    Repo.step {} s2 now (.done id e) = (s2, out) :=
  classify_spec (op := .done id e) trivial now hc

/-- `MarkAsDone` goes back to its conditional UPDATE exactly when the read shows the task dispatched,
i.e. when the guard of that UPDATE holds in the state that was read. -/
theorem C10ent_done_retry_iff (s2 : Repo) (id : String) (e : Option String) :
    Ent.classify s2 (.done id e) = none ↔ Ent.guard s2 id .dispatched = true := by
  simp only [Ent.classify, Ent.guard]
  cases s2.lookup id with
  | none => simp
  | some t => cases h : (t.state == St.dispatched) <;> simp [h]

/-! ## 2 — the id must be known at the miss -/

namespace ExEnt

def p : Param := { workId := some "w", scheduledAt := some 5000000 }

/-- the database after `add "a"` at 1 ms -/
def s2 : Repo := (Repo.step {} {} 1000000 (.add "a" p)).1

/-- `Cancel("a")` misses on the empty database; then `AddTask` inserts that very id; then `Cancel`
classifies, finds a scheduled task and reports success; a later `MarkAsDispatched("a")` succeeds too. -/
def badRun : List Act :=
  [.call 0 1000000 (.cancel "a"), .stmt 0,
   .call 1 1000000 (.add "a" p), .stmt 1,
   .classify 0 1000000, .ret 0, .ret 1,
   .call 0 2000000 (.dispatch "a"), .stmt 0, .ret 0]

end ExEnt

/-- Counterexample: without "the id exists at the miss" the classification is not the atomic operation.
`Cancel("a")` misses in `{}` (unknown id), `add "a"` runs in between, the classifying read sees a
scheduled task and reports success (`errKindMutate` of a scheduled task is empty), although nothing was
cancelled — the atomic `Repo.step` at that instant would have cancelled the task.  At the level of the
system: the run `badRun` (which violates `FreshAdds`) is quiescent and its history is NOT linearizable. -/
theorem C10ent_needs_known_id :
    Ent.stmt {} 1000000 (.cancel "a") = .miss ∧
    ({} : Repo).lookup "a" = none ∧
    Ent.classify ExEnt.s2 (.cancel "a") = some .ok ∧
    (ExEnt.s2.lookup "a").map (·.state) = some .scheduled ∧
    (Repo.step {} ExEnt.s2 1000000 (.cancel "a")).1 ≠ ExEnt.s2 ∧
    (Ent.run (Ent.init 2) ExEnt.badRun).Quiescent ∧
    ¬ FreshAdds (Ent.init 2) ExEnt.badRun ∧
    (Ent.run (Ent.init 2) ExEnt.badRun).history.map (·.out) =
      [.ok, .task (ExEnt.p.normalize.toTask "a" 1000000), .ok] ∧
    linearizable sameExact {} (Ent.run (Ent.init 2) ExEnt.badRun).history = false := by
  refine ⟨by decide, by decide, by decide, by decide, by decide, by decide, by decide, by decide,
    by decide⟩

/-! ## 3 — linearizability -/

/-- Every run from the initial state whose INSERTs use fresh ids: the returned calls, together with the
calls whose result is already decided but which have not returned (`pending`, completed with a return at
the current stamp; calls that have not been decided yet have had no effect and are dropped), form a
linearizable history. -/
theorem C10ent_linearizable_prefix (n : Nat) (acts : List Act) (hf : FreshAdds (Ent.init n) acts) :
    linearizable sameExact {}
      ((Ent.run (Ent.init n) acts).history ++ (Ent.run (Ent.init n) acts).pending.map (·.1)) = true := by
  obtain ⟨σ, h⟩ := (Inv.init n).run acts hf
  obtain ⟨σL, hp, hsec, hrep, -, -⟩ := h.witness
  exact C10_atomic_sections_gen hrep hsec hp.symm

/-- MAIN.  `n` clients run the two-statement protocol of the SQL repository in any interleaving `acts`
from the empty database; ids of `AddTask` are fresh (`FreshAdds`); at the end every client is idle.
Then the history of the completed calls is linearizable with respect to `Repo.step`. -/
theorem C10ent_linearizable (n : Nat) (acts : List Act) (hf : FreshAdds (Ent.init n) acts)
    (hq : (Ent.run (Ent.init n) acts).Quiescent) :
    linearizable sameExact {} (Ent.run (Ent.init n) acts).history = true := by
  have := C10ent_linearizable_prefix n acts hf
  rwa [pending_nil_of_quiescent hq, List.map_nil, List.append_nil] at this

/-- The witness behind `C10ent_linearizable`: an order `σ` of the completed calls (the order of their
deciding statements — the hit, or the final classifying read) whose deciding statements ran at strictly
increasing stamps inside the calls' intervals (`AtomicSections`), on which `Repo.step` returns the
reported results, and whose sequential execution ends in the database the concurrent run ended in. -/
theorem C10ent_sequential_witness (n : Nat) (acts : List Act) (hf : FreshAdds (Ent.init n) acts)
    (hq : (Ent.run (Ent.init n) acts).Quiescent) :
    ∃ σ : List LOp, σ.Perm (Ent.run (Ent.init n) acts).history ∧ AtomicSections σ ∧
      replays sameExact {} σ = true ∧
      Repo.run {} {} (σ.map fun o => (o.now, o.op)) = (Ent.run (Ent.init n) acts).repo := by
  obtain ⟨σ, h⟩ := (Inv.init n).run acts hf
  obtain ⟨σL, hp, hsec, hrep, -, hfin⟩ := h.witness
  rw [pending_nil_of_quiescent hq, List.map_nil, List.append_nil] at hp
  exact ⟨σL, hp, hsec, hrep, hfin⟩

/-- In such a run no two calls among `Cancel(id)` / `MarkAsDispatched(id)` of the same task both
return ok (any two positions of the history). -/
theorem C10ent_conflict (n : Nat) (acts : List Act) (hf : FreshAdds (Ent.init n) acts)
    (hq : (Ent.run (Ent.init n) acts).Quiescent) :
    (Ent.run (Ent.init n) acts).history.Pairwise fun a b =>
      ∀ id, (a.op = .cancel id ∨ a.op = .dispatch id) → (b.op = .cancel id ∨ b.op = .dispatch id) →
        ¬ (a.out = .ok ∧ b.out = .ok) := by
  obtain ⟨σ, h⟩ := (Inv.init n).run acts hf
  obtain ⟨σL, hp, -, hrep, hlc, -⟩ := h.witness
  rw [pending_nil_of_quiescent hq, List.map_nil, List.append_nil] at hp
  exact (List.Perm.pairwise_iff NoConflict.symm hp).mp
    (replays_no_conflict σL {} Marked_empty hlc hrep)

/-! ## 4 — non-vacuity -/

namespace ExEnt

/-- `add "a"` by client 0; then client 0 cancels and client 1 dispatches "a" concurrently: client 0's
conditional UPDATE would still hit at stamp 5, but client 1's runs first (stamp 5), client 0's statement
(stamp 6) misses, client 1 returns, and only then client 0 classifies (stamp 8) and returns. -/
def goodRun : List Act :=
  [.call 0 1000000 (.add "a" p), .stmt 0, .ret 0,
   .call 0 2000000 (.cancel "a"), .call 1 2000000 (.dispatch "a"),
   .stmt 1, .stmt 0, .ret 1, .classify 0 2000000, .ret 0]

/-- `MarkAsDone` misses while the task is still scheduled, the dispatch lands in between, the classifying
read shows it dispatched, `MarkAsDone` retries and hits. -/
def doneRun : List Act :=
  [.call 0 1000000 (.add "a" p), .stmt 0, .ret 0,
   .call 0 2000000 (.done "a" none), .stmt 0,
   .call 1 2000000 (.dispatch "a"), .stmt 1,
   .classify 0 3000000, .stmt 0, .ret 0, .ret 1]

end ExEnt

/- `#eval (Ent.run (Ent.init 2) ExEnt.goodRun).history` (with a derived `Repr LOp`) prints
[{ call := 0, ret := 2, now := 1000000, op := Gk.Op.add "a" { workId := some "w", …, scheduledAt := some 5000000, … },
   out := Gk.Out.task { id := "a", workId := "w", priority := 0, state := Gk.St.scheduled, …,
                        scheduledAt := 5000000, createdAt := 1000000, … } },
 { call := 4, ret := 7, now := 2000000, op := Gk.Op.dispatch "a", out := Gk.Out.ok },
 { call := 3, ret := 9, now := 2000000, op := Gk.Op.cancel "a", out := Gk.Out.err (Gk.Err.alreadyDispatched) }] -/

/-- The hypotheses of `C10ent_linearizable` hold of a run in which a statement misses, another client's
statement has landed in between and the classification happens afterwards; the refusal is the one of the
state at the classification (`alreadyDispatched`), and the checker accepts the history. -/
example :
    FreshAdds (Ent.init 2) ExEnt.goodRun ∧ (Ent.run (Ent.init 2) ExEnt.goodRun).Quiescent ∧
    (Ent.run (Ent.init 2) ExEnt.goodRun).history.map (fun o => (o.call, o.ret, o.out)) =
      [(0, 2, .task (ExEnt.p.normalize.toTask "a" 1000000)), (4, 7, .ok),
       (3, 9, .err .alreadyDispatched)] ∧
    linearizable sameExact {} (Ent.run (Ent.init 2) ExEnt.goodRun).history = true := by
  refine ⟨by decide, by decide, by decide, ?_⟩
  exact C10ent_linearizable 2 ExEnt.goodRun (by decide) (by decide)

/-- The retry loop of `MarkAsDone`: both the dispatch and the done succeed, linearized dispatch first;
the done is stamped with the clock reading of its second iteration. -/
example :
    FreshAdds (Ent.init 2) ExEnt.doneRun ∧ (Ent.run (Ent.init 2) ExEnt.doneRun).Quiescent ∧
    (Ent.run (Ent.init 2) ExEnt.doneRun).history.map (fun o => (o.call, o.ret, o.out)) =
      [(0, 2, .task (ExEnt.p.normalize.toTask "a" 1000000)), (3, 9, .ok), (5, 10, .ok)] ∧
    (Ent.run (Ent.init 2) ExEnt.doneRun).repo.tasks.map (fun t => (t.state, t.doneAt)) =
      [(.done, some 3000000)] ∧
    linearizable sameExact {} (Ent.run (Ent.init 2) ExEnt.doneRun).history = true := by
  refine ⟨by decide, by decide, by decide, by decide, ?_⟩
  exact C10ent_linearizable 2 ExEnt.doneRun (by decide) (by decide)

/-- A non-quiescent prefix: client 1's dispatch is decided but has not returned; it is part of the
completed history of `C10ent_linearizable_prefix`. -/
example :
    ¬ (Ent.run (Ent.init 2) (ExEnt.goodRun.take 7)).Quiescent ∧
    ((Ent.run (Ent.init 2) (ExEnt.goodRun.take 7)).pending.map fun x => (x.1.call, x.1.ret, x.1.out, x.2)) =
      [(4, 7, .ok, 5)] := by
  refine ⟨by decide, by decide⟩

end Gk
