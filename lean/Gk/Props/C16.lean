/-
C16 — edits of the cron store are atomic and local (repaired code, `Cron.fixed = true`), and the
witnesses of D9 / D9b in the pinned code (`fixed = false`).

Helper lemmas (staging loop characterisation `stage_spec`, `Accepted`, `updateTask_accept`,
`updateTask_reject`) are in `Gk/Proofs/Cron.lean`.
-/
import Gk.Cron
import Gk.Proofs.Cron
namespace Gk
open Cron

/-! ### 1. a rejected edit changes nothing -/

/-- A rejected `updateTask` returns the store it was given: no cursor moved, `entries`, `pending`,
the rank counter untouched — up to the model's harness-error flag `oracleExhausted`, which is set
when the rejection is due to the occurrence oracle having run dry. -/
theorem C16_rejected_noop_flag (c : Cron) (hf : c.fixed = true) (added removed : List String)
    (hrej : (c.updateTask added removed).2 = false) :
    (c.updateTask added removed).1 = c ∨
      (c.updateTask added removed).1 = { c with oracleExhausted := true } :=
  updateTask_reject hf hrej

/-- With an oracle that is long enough (flag still clear afterwards) the whole record is unchanged. -/
theorem C16_rejected_noop (c : Cron) (hf : c.fixed = true) (added removed : List String)
    (hrej : (c.updateTask added removed).2 = false)
    (ho : (c.updateTask added removed).1.oracleExhausted = false) :
    (c.updateTask added removed).1 = c := by
  rcases updateTask_reject hf hrej with e | e
  · exact e
  · rw [e] at ho; cases ho

/-- `EditTask`: a rejected edit leaves everything but the clock as it was, and the clock is what
`stopTimerRaw` followed by `resetTimer` produce. -/
theorem C16_rejected_noop_edit (c : Cron) (hf : c.fixed = true) (added removed : List String)
    (hrej : (c.editTask added removed).2 = false)
    (ho : (c.editTask added removed).1.oracleExhausted = false) :
    (c.editTask added removed).1 = c.stopTimerRaw.resetTimer ∧
    (c.editTask added removed).1 = { c with clock := c.stopTimerRaw.resetTimer.clock } := by
  rw [editTask_eq] at hrej ho ⊢
  simp only [resetTimer_oracle] at ho
  have := C16_rejected_noop c.stopTimerRaw hf added removed hrej ho
  dsimp only
  rw [this]
  exact ⟨rfl, by rw [resetTimer_eq]; rfl⟩

/-- Spelled out: no cursor moved, nothing stored or pending changed. -/
theorem C16_rejected_noop_fields (c : Cron) (hf : c.fixed = true) (added removed : List String)
    (hrej : (c.editTask added removed).2 = false)
    (ho : (c.editTask added removed).1.oracleExhausted = false) :
    let c' := (c.editTask added removed).1
    c'.ents = c.ents ∧ c'.entries = c.entries ∧ c'.pending = c.pending ∧ c'.counter = c.counter ∧
      c'.started = c.started ∧ c'.fixed = c.fixed := by
  have := (C16_rejected_noop_edit c hf added removed hrej ho).2
  rw [this]
  exact ⟨rfl, rfl, rfl, rfl, rfl, rfl⟩

/-- Non-vacuity: on `store1` (`a`, `b` stored), removing `b` and offering `a2` — which has the
identity of the stored `a` — is rejected, and no cursor moved. -/
example : ((CronEx.store1).editTask ["a2"] ["b"]).2 = false ∧
    ((CronEx.store1).editTask ["a2"] ["b"]).1.oracleExhausted = false ∧
    ((CronEx.store1).editTask ["a2"] ["b"]).1.ents.map (·.prev) = (CronEx.store1).ents.map (·.prev) := by
  decide

/-! ### 2. duplicates and malformed metadata are rejected -/

theorem accepted_of_not_rejected {c : Cron} {a r : List String}
    (h : ¬ (c.updateTask a r).2 = false) : (c.updateTask a r).2 = true := by
  cases h' : (c.updateTask a r).2 with
  | true => rfl
  | false => exact absurd h' h

/-- an accepted edit staged exactly the entries the names denote -/
theorem Cron.Accepted.staged_of_mem {c c' : Cron} {a r : List String} {staged : List Staged}
    (hA : Accepted c a r c' staged) {n : String} (hn : n ∈ a) {e : CEntry} (he : c.ent n = some e) :
    ∃ s ∈ staged, s.ent = e ∧ StagedOK c (c.removedKeys r) s := by
  rw [← hA.names] at hn
  obtain ⟨s, hs, rfl⟩ := List.mem_map.mp hn
  have hok := hA.ok s hs
  have := hok.1
  rw [he] at this
  cases this
  exact ⟨s, hs, rfl, hok⟩

/-- (a) an added entry whose identity is stored and is not being removed -/
theorem C16_dup_rejected_stored (c : Cron) (hf : c.fixed = true) (added removed : List String)
    (n : String) (e : CEntry) (hn : n ∈ added) (he : c.ent n = some e)
    (hstored : e.ident ∈ c.entries.map (·.1)) (hkeep : e.ident ∉ c.removedKeys removed) :
    (c.updateTask added removed).2 = false := by
  apply Classical.byContradiction
  intro hacc
  obtain ⟨staged, hA⟩ := updateTask_accept hf (accepted_of_not_rejected hacc)
  obtain ⟨s, _, rfl, hok⟩ := hA.staged_of_mem hn he
  obtain ⟨hk, _, hdup⟩ := hok.key
  rw [hk] at hdup
  exact hkeep (hdup hstored)

/-- (b) an accepted edit has pairwise distinct identities among the added entries (in particular
no name is offered twice) -/
theorem C16_accepted_distinct (c : Cron) (hf : c.fixed = true) (added removed : List String)
    (hacc : (c.updateTask added removed).2 = true) :
    (added.map (fun n => (c.ent n).map CEntry.ident)).Nodup := by
  obtain ⟨staged, hA⟩ := updateTask_accept hf hacc
  have : added.map (fun n => (c.ent n).map CEntry.ident) = (staged.map (·.w.key)).map some := by
    rw [← hA.names, List.map_map, List.map_map]
    apply List.map_congr_left
    intro s hs
    have hok := hA.ok s hs
    simp only [Function.comp, hok.1, Option.map_some, hok.key.1]
  rw [this]
  exact List.Pairwise.map some (fun a b h h' => h (Option.some.inj h')) hA.keys

/-- (b) two added entries with equal identities -/
theorem C16_dup_rejected_added (c : Cron) (hf : c.fixed = true) (removed : List String)
    (l1 l2 l3 : List String) (n1 n2 : String) (e1 e2 : CEntry)
    (h1 : c.ent n1 = some e1) (h2 : c.ent n2 = some e2) (hid : e1.ident = e2.ident) :
    (c.updateTask (l1 ++ n1 :: l2 ++ n2 :: l3) removed).2 = false := by
  apply Classical.byContradiction
  intro hacc
  have := C16_accepted_distinct c hf _ removed (accepted_of_not_rejected hacc)
  simp only [List.map_append, List.map_cons, h1, h2, Option.map_some, hid, List.append_assoc] at this
  have h3 := (List.nodup_append.mp this).2.1
  rw [List.cons_append] at h3
  have h4 := (List.nodup_cons.mp h3).1
  exact h4 (by simp)

/-- (c) an added entry whose metadata the mutator store cannot load -/
theorem C16_dup_rejected_load (c : Cron) (hf : c.fixed = true) (added removed : List String)
    (n : String) (e : CEntry) (p : Param) (hn : n ∈ added) (he : c.ent n = some e)
    (hp : e.param = some p) (hload : Mut.load (p.meta_.getD []) e.oMin e.oMax = .error ()) :
    (c.updateTask added removed).2 = false := by
  apply Classical.byContradiction
  intro hacc
  obtain ⟨staged, hA⟩ := updateTask_accept hf (accepted_of_not_rejected hacc)
  obtain ⟨s, _, rfl, hok⟩ := hA.staged_of_mem hn he
  obtain ⟨_, p', muts, hp', _, hl, _⟩ := hok
  rw [hp] at hp'
  cases hp'
  rw [hload] at hl
  cases hl

/-- the three clauses together, for `EditTask` -/
theorem C16_dup_rejected (c : Cron) (hf : c.fixed = true) (added removed : List String)
    (h : (∃ n e, n ∈ added ∧ c.ent n = some e ∧ e.ident ∈ c.entries.map (·.1) ∧
            e.ident ∉ c.removedKeys removed) ∨
         ¬ (added.map (fun n => (c.ent n).map CEntry.ident)).Nodup ∨
         (∃ n e p, n ∈ added ∧ c.ent n = some e ∧ e.param = some p ∧
            Mut.load (p.meta_.getD []) e.oMin e.oMax = .error ())) :
    (c.editTask added removed).2 = false ∧ (c.updateTask added removed).2 = false := by
  have key : ∀ c : Cron, c.fixed = true →
      ((∃ n e, n ∈ added ∧ c.ent n = some e ∧ e.ident ∈ c.entries.map (·.1) ∧
            e.ident ∉ c.removedKeys removed) ∨
         ¬ (added.map (fun n => (c.ent n).map CEntry.ident)).Nodup ∨
         (∃ n e p, n ∈ added ∧ c.ent n = some e ∧ e.param = some p ∧
            Mut.load (p.meta_.getD []) e.oMin e.oMax = .error ())) →
      (c.updateTask added removed).2 = false := by
    intro c hf h
    rcases h with ⟨n, e, hn, he, h1, h2⟩ | h | ⟨n, e, p, hn, he, hp, hl⟩
    · exact C16_dup_rejected_stored c hf added removed n e hn he h1 h2
    · apply Classical.byContradiction
      intro hacc
      exact h (C16_accepted_distinct c hf added removed (accepted_of_not_rejected hacc))
    · exact C16_dup_rejected_load c hf added removed n e p hn he hp hl
  exact ⟨key c.stopTimerRaw hf h, key c hf h⟩

/-- Non-vacuity of the three clauses on `store1` (`a`, `b` stored): `a2` has the identity of the
stored `a`; `a` and `a2` offered together (while `a` is removed) have equal identities; `bad` has
an unparsable RandomizeScheduledAt label. All three edits are rejected. -/
example :
    ((CronEx.store1).editTask ["a2"] []).2 = false ∧
    ((CronEx.store1).editTask ["a", "a2"] ["a"]).2 = false ∧
    ((CronEx.store1).editTask ["bad"] []).2 = false := by decide

example : ∃ n e, n ∈ ["a2"] ∧ (CronEx.store1).ent n = some e ∧
    e.ident ∈ (CronEx.store1).entries.map (·.1) ∧ e.ident ∉ (CronEx.store1).removedKeys [] :=
  ⟨"a2", CronEx.entA', by decide, by rfl, by decide, by decide⟩

/-! ### 3. witnesses of the defects of the pinned code (`fixed = false`) -/

/-- D9: on the pinned code a *rejected* edit has already advanced cursors: `b` (re-offered while
being removed) moves 2 ms → 4 ms and `a2` (the duplicate that causes the rejection) 3 ms → 6 ms,
so the occurrences `b@4ms` and `a2@6ms` are lost. -/
theorem C16_D9_witness :
    ((CronEx.store1 false).editTask ["b", "a2"] ["b"]).2 = false ∧
    (CronEx.store1 false).ents.map (·.prev) = [3000000, 2000000, 3000000, 0] ∧
    ((CronEx.store1 false).editTask ["b", "a2"] ["b"]).1.ents.map (·.prev) =
      [3000000, 4000000, 6000000, 0] := by decide

/-- The repaired code rejects the same edit and moves nothing. -/
theorem C16_D9_fixed :
    ((CronEx.store1 true).editTask ["b", "a2"] ["b"]).2 = false ∧
    ((CronEx.store1 true).editTask ["b", "a2"] ["b"]).1.ents.map (·.prev) =
      (CronEx.store1 true).ents.map (·.prev) := by decide

/-- D9b: on the pinned code two added entries with the identity of an entry that is being removed
are *both* accepted; both cursors advance (`a`: 3 → 6 ms, `a2`: 3 → 6 ms) but only the later one is
stored — two entries were accepted, one pending task was created, `a` is silently dropped. -/
theorem C16_D9b_witness :
    ((CronEx.store1 false).editTask ["a", "a2"] ["a"]).2 = true ∧
    ((CronEx.store1 false).editTask ["a", "a2"] ["a"]).1.ents.map (·.prev) =
      [6000000, 2000000, 6000000, 0] ∧
    ((CronEx.store1 false).editTask ["a", "a2"] ["a"]).1.entries.map (·.2) = ["b", "a2"] ∧
    ((CronEx.store1 false).editTask ["a", "a2"] ["a"]).1.pending.map (·.task.scheduledAt) =
      [2000000, 6000000] := by decide

/-- The repaired code rejects it. -/
theorem C16_D9b_fixed :
    ((CronEx.store1 true).editTask ["a", "a2"] ["a"]).2 = false := by decide

theorem Cron.stopAndDrain_now (k : Clock) : k.stopAndDrain.now = k.now := by
  unfold Clock.stopAndDrain; split <;> rfl

theorem Cron.wrap_stopTimerRaw (c : Cron) (e : CEntry) (p : Param) (muts : List Mut.Mutator) (r : Nat) :
    wrap c.stopTimerRaw e p muts r = wrap c e p muts r := by
  unfold wrap stopTimerRaw
  simp only [stopAndDrain_now]

/-! ### 4. an accepted edit is local -/

/-- What an accepted edit `c ↦ c'` did, `staged` being the wrapped first occurrences of the added
entries (in the order offered). -/
structure EditOK (c : Cron) (added removed : List String) (c' : Cron) (staged : List Staged) : Prop where
  names : staged.map (·.ent.name) = added
  entries : c'.entries = c.entries.filter (fun kv => !(c.removedKeys removed).contains kv.1) ++
    staged.map (fun s => (s.w.key, s.ent.name))
  pending : c'.pending = c.pending.filter (fun w => !(c.removedKeys removed).contains w.key) ++
    staged.map (·.w)
  /-- a removed identity is stored / pending afterwards only if it was added again -/
  removedGone : ∀ k ∈ c.removedKeys removed,
    (k ∈ c'.entries.map (·.1) ∨ k ∈ c'.pending.map (·.key)) → k ∈ staged.map (·.w.key)
  keptEntries : ∀ kv ∈ c.entries, kv.1 ∉ c.removedKeys removed → kv ∈ c'.entries
  keptPending : ∀ w ∈ c.pending, w.key ∉ c.removedKeys removed → w ∈ c'.pending
  /-- entries that were not offered keep their cursor -/
  others : ∀ n, n ∉ added → c'.ent n = c.ent n
  /-- each added entry: its cursor advanced by exactly one occurrence `o`, and its pending task is
  `wrap` of `Param()` before the advance, whose un-mutated time is `o` -/
  addedOK : ∀ s ∈ staged, c.ent s.ent.name = some s.ent ∧
    ∃ o p muts, s.ent.nextOcc = some o ∧ s.ent.param = some p ∧ p.scheduledAt = some o ∧
      Mut.load (p.meta_.getD []) s.ent.oMin s.ent.oMax = .ok muts ∧
      wrap c s.ent p muts s.w.rank = some s.w ∧ s.w.key = s.ent.ident ∧
      c'.ent s.ent.name = some { s.ent with prev := o } ∧
      s.w ∈ c'.pending ∧ (s.w.key, s.ent.name) ∈ c'.entries

theorem C16_success (c : Cron) (hf : c.fixed = true) (added removed : List String)
    (hacc : (c.updateTask added removed).2 = true) :
    ∃ staged, EditOK c added removed (c.updateTask added removed).1 staged := by
  obtain ⟨staged, hA⟩ := updateTask_accept hf hacc
  refine ⟨staged, hA.names, hA.entries, hA.pending, ?_, ?_, ?_, ?_, ?_⟩
  · intro k hk hin
    rw [hA.entries, hA.pending] at hin
    simp only [List.map_append, List.mem_append, List.map_map] at hin
    have hk' : (c.removedKeys removed).contains k = true := by simpa using hk
    rcases hin with (h | h) | (h | h)
    · obtain ⟨kv, hkv, rfl⟩ := List.mem_map.mp h
      have := (List.mem_filter.mp hkv).2
      rw [hk'] at this; cases this
    · exact h
    · obtain ⟨w, hw, rfl⟩ := List.mem_map.mp h
      have := (List.mem_filter.mp hw).2
      rw [hk'] at this; cases this
    · exact h
  · intro kv hkv hk
    rw [hA.entries]
    exact List.mem_append_left _ (List.mem_filter.mpr ⟨hkv, by simpa using hk⟩)
  · intro w hw hk
    rw [hA.pending]
    exact List.mem_append_left _ (List.mem_filter.mpr ⟨hw, by simpa using hk⟩)
  · intro n hn
    rw [hA.ent n]
    cases hx : c.ent n with
    | none => rfl
    | some x =>
      have : x.name = n := (ent_some hx).1
      simp [this, hn]
  · intro s hs
    have hok := hA.ok s hs
    have hkey := hok.key.1
    obtain ⟨h1, p, muts, hp, _, hl, hw⟩ := hok
    obtain ⟨o, hno, _⟩ := CEntry.param_eq hp
    have hin : added.contains s.ent.name = true := by
      rw [← hA.names]; simp only [List.contains_eq_mem, List.mem_map, decide_eq_true_eq]
      exact ⟨s, hs, rfl⟩
    refine ⟨h1, o, p, muts, hno, hp, by rw [CEntry.param_sched hp, hno], hl, hw, hkey, ?_, ?_, ?_⟩
    · rw [hA.ent, h1, Option.map_some, if_pos hin, CEntry.advance_prev hno]
    · rw [hA.pending]; exact List.mem_append_right _ (List.mem_map.mpr ⟨s, hs, rfl⟩)
    · rw [hA.entries]; exact List.mem_append_right _ (List.mem_map.mpr ⟨s, hs, rfl⟩)

/-- `EditTask` = `updateTask` between stopping and re-arming the timer: same statement. -/
theorem C16_success_edit (c : Cron) (hf : c.fixed = true) (added removed : List String)
    (hacc : (c.editTask added removed).2 = true) :
    ∃ staged, EditOK c added removed (c.editTask added removed).1 staged := by
  rw [editTask_eq] at hacc ⊢
  obtain ⟨staged, h⟩ := C16_success c.stopTimerRaw hf added removed hacc
  refine ⟨staged, h.names, ?_, ?_, ?_, ?_, ?_, ?_, ?_⟩
  · rw [resetTimer_entries]; exact h.entries
  · rw [resetTimer_pending]; exact h.pending
  · rw [resetTimer_entries, resetTimer_pending]; exact h.removedGone
  · rw [resetTimer_entries]; exact h.keptEntries
  · rw [resetTimer_pending]; exact h.keptPending
  · intro n hn; rw [resetTimer_ent]; exact h.others n hn
  · intro s hs
    obtain ⟨h1, o, p, muts, a1, a2, a3, a4, a5, a6, a7, a8, a9⟩ := h.addedOK s hs
    rw [wrap_stopTimerRaw] at a5
    exact ⟨h1, o, p, muts, a1, a2, a3, a4, a5, a6, by rw [resetTimer_ent]; exact a7,
      by rw [resetTimer_pending]; exact a8, by rw [resetTimer_entries]; exact a9⟩

/-- On a store satisfying the C15 invariant a kept identity's entry was not offered (that would have
been a rejected duplicate), so kept identities keep their entry's cursor as well as their pending
task. -/
theorem C16_success_kept_cursor (c : Cron) (hI : Core c) (added removed : List String)
    (hacc : (c.updateTask added removed).2 = true) (kv : SerKey × String) (hkv : kv ∈ c.entries)
    (hk : kv.1 ∉ c.removedKeys removed) :
    kv.2 ∉ added ∧ (c.updateTask added removed).1.ent kv.2 = c.ent kv.2 ∧
      kv ∈ (c.updateTask added removed).1.entries := by
  obtain ⟨staged, h⟩ := C16_success c hI.fixed added removed hacc
  obtain ⟨e, he, hi⟩ := hI.ents kv hkv
  have hn : kv.2 ∉ added := by
    intro hin
    have := C16_dup_rejected_stored c hI.fixed added removed kv.2 e hin he
      (by rw [hi]; exact List.mem_map.mpr ⟨kv, hkv, rfl⟩) (by rw [hi]; exact hk)
    rw [this] at hacc; cases hacc
  exact ⟨hn, h.others kv.2 hn, h.keptEntries kv hkv hk⟩

/-- Non-vacuity: on `store1` remove `a` and add `a2` (same identity): accepted; `b` keeps its
pending task and cursor, `a2`'s cursor moves 3 → 6 ms and its task is at 6 ms. -/
example :
    (CronEx.store1.editTask ["a2"] ["a"]).2 = true ∧
    (CronEx.store1.editTask ["a2"] ["a"]).1.entries.map (·.2) = ["b", "a2"] ∧
    (CronEx.store1.editTask ["a2"] ["a"]).1.pending.map (·.task.scheduledAt) = [2000000, 6000000] ∧
    (CronEx.store1.editTask ["a2"] ["a"]).1.ents.map (·.prev) = [3000000, 2000000, 6000000, 0] := by
  decide

end Gk
