/-
C17 — the cron store's timer follows the head of the pending bag and honours Start/Stop (repaired
code, `Cron.fixed = true`); `NextScheduled`; and the witness of D10 in the pinned code.

The invariant `ClockInv` (a value is never both armed and waiting in the channel; a stopped or empty
store has a silent timer) and its preservation are in `Gk/Proofs/Cron.lean`.
-/
import Gk.Cron
import Gk.Proofs.Cron
import Gk.Props.C16
namespace Gk
open Cron

/-! ### the invariant -/

theorem C17_inv_init (c : Cron) (hf : c.fixed = true) (ha : c.clock.armed = none)
    (hp : c.clock.pending = false) : ClockInv c := ClockInv.init hf ha hp

theorem C17_inv_step (c : Cron) (op : COp) : ClockInv c → ClockInv (c.step op) :=
  fun h => h.step op

theorem C17_inv_run (c : Cron) (ops : List COp) : ClockInv c → ClockInv (c.run ops) :=
  fun h => h.run ops

/-! ### 1. armed exactly for the head -/

/-- One step from any state satisfying the clock invariant: after `pop`, `editTask` or `startTimer`
on a store that is (then) started, the timer is armed exactly at the head's time and that time is
still ahead, or the fire is already waiting in the channel and the head is due; with nothing
pending the timer is silent. -/
theorem C17_armed_exact_step (c : Cron) (hI : ClockInv c) (op : COp)
    (hop : op = .pop ∨ (∃ a r, op = .edit a r) ∨ op = .start)
    (hs : (c.step op).started = true) :
    (∀ h, (c.step op).head = some h →
      ((c.step op).clock.armed = some h.task.scheduledAt ∧
          (c.step op).clock.now < h.task.scheduledAt) ∨
      ((c.step op).clock.pending = true ∧ h.task.scheduledAt ≤ (c.step op).clock.now)) ∧
    ((c.step op).head = none → (c.step op).clock.armed = none ∧ (c.step op).clock.pending = false) :=
  hI.follows op hop hs

/-- The same after every history, from any store of the repaired code whose timer is idle
(whether started or not, whatever it holds). -/
theorem C17_armed_exact (c0 : Cron) (hf : c0.fixed = true) (ha : c0.clock.armed = none)
    (hp : c0.clock.pending = false) (ops : List COp) (op : COp)
    (hop : op = .pop ∨ (∃ a r, op = .edit a r) ∨ op = .start)
    (hs : ((c0.run ops).step op).started = true) :
    TimerFollowsHead ((c0.run ops).step op) :=
  ((ClockInv.init hf ha hp).run ops).follows op hop hs

/-- Non-vacuity: `store1` (`a@3ms`, `b@2ms`) started; the pop takes `b@2ms` and pushes `b@4ms`, so
the head is `a@3ms` and the timer is armed at exactly that time. -/
example :
    let c := (CronEx.store1.step .start).step .pop
    c.started = true ∧ c.head.map (·.task.scheduledAt) = some 3000000 ∧
      c.clock.armed = some 3000000 ∧ c.clock.now < 3000000 := by decide

/-- Non-vacuity of the "fire is waiting" branch: time passes the head before the pop. -/
example :
    let c := ((CronEx.store1.step .start).step (.advance 3500000)).step .pop
    c.head.map (·.task.scheduledAt) = some 3000000 ∧ c.clock.pending = true ∧
      c.clock.armed = none := by decide

/-! ### 2. silent while stopped -/

/-- Over all runs from a store with an idle timer: while the store is not started (never started, or
stopped and not started again) nothing is armed and nothing waits in the channel, so the scheduler
cannot be woken. (`started = false` initially is not needed.) -/
theorem C17_silent_when_stopped (c0 : Cron) (hf : c0.fixed = true) (ha : c0.clock.armed = none)
    (hp : c0.clock.pending = false) (ops : List COp) :
    (c0.run ops).started = false →
      (c0.run ops).clock.armed = none ∧ (c0.run ops).clock.pending = false :=
  fun hs => ((ClockInv.init hf ha hp).run ops).quiet (Or.inl hs)

/-- … and consequently a `consume` finds nothing and an `advance` fires nothing. -/
theorem C17_stopped_no_fire (c0 : Cron) (hf : c0.fixed = true) (ha : c0.clock.armed = none)
    (hp : c0.clock.pending = false) (ops : List COp) (t : Time)
    (hs : (c0.run ops).started = false) :
    (c0.run ops).clock.consume.2 = false ∧
      ((c0.run ops).step (.advance t)).clock.pending = false ∧
      ((c0.run ops).step (.advance t)).clock.armed = none := by
  have hI := (ClockInv.init hf ha hp).run ops
  have h1 := hI.quiet (Or.inl hs)
  have h2 := (hI.step (.advance t)).quiet (Or.inl hs)
  exact ⟨h1.2, h2.2, h2.1⟩

/-- The timer is never both armed and holding an undelivered fire. -/
theorem C17_clock_sane (c0 : Cron) (hf : c0.fixed = true) (ha : c0.clock.armed = none)
    (hp : c0.clock.pending = false) (ops : List COp) :
    (c0.run ops).clock.armed.isSome → (c0.run ops).clock.pending = false :=
  ((ClockInv.init hf ha hp).run ops).sane

/-- Non-vacuity: a never-started store stays silent through an accepted edit, a pop and time
passing the head; after start + stop it is silent again. -/
example :
    let c := ((CronEx.store1.step .pop).step (.advance 9000000))
    c.started = false ∧ c.pending.length = 2 ∧ c.clock.armed = none ∧ c.clock.pending = false := by
  decide
example :
    let c := ((CronEx.store1.step .start).step (.advance 9000000)).step .stop
    ((CronEx.store1.step .start).step (.advance 9000000)).clock.pending = true ∧
    c.started = false ∧ c.clock.armed = none ∧ c.clock.pending = false := by
  decide

/-! ### 3. `NextScheduled` -/

theorem C17_next_scheduled (c : Cron) :
    (∀ h, c.head = some h → c.nextScheduled = (h.task.scheduledAt, true)) ∧
    (c.head = none → c.nextScheduled = (0, false)) ∧
    (c.nextScheduled.2 = false ↔ c.pending = []) ∧
    (c.nextScheduled = (0, false) ↔ c.pending = []) := by
  refine ⟨fun h hh => by simp [nextScheduled, hh], fun hh => by simp [nextScheduled, hh], ?_, ?_⟩
  · rw [← head_none_iff]
    unfold nextScheduled
    cases c.head <;> simp
  · rw [← head_none_iff]
    unfold nextScheduled
    cases c.head <;> simp

example : CronEx.store1.nextScheduled = (2000000, true) ∧
    (CronEx.store0).nextScheduled = (0, false) := by decide

/-! ### 4. D10: the pinned code arms the timer of a store that was never started -/

theorem C17_D10_witness :
    (CronEx.store0 false).started = false ∧
    ((CronEx.store0 false).editTask ["a"] []).2 = true ∧
    ((CronEx.store0 false).editTask ["a"] []).1.started = false ∧
    ((CronEx.store0 false).editTask ["a"] []).1.clock.armed = some 3000000 := by decide

/-- … and it then fires although `Start` was never called. -/
theorem C17_D10_fires :
    ((((CronEx.store0 false).editTask ["a"] []).1.step (.advance 3000000))).clock.pending = true := by
  decide

/-- The repaired code on the same history. -/
theorem C17_D10_fixed :
    ((CronEx.store0 true).editTask ["a"] []).2 = true ∧
    ((CronEx.store0 true).editTask ["a"] []).1.clock.armed = none ∧
    ((((CronEx.store0 true).editTask ["a"] []).1.step (.advance 3000000))).clock.pending = false := by
  decide

end Gk
