/-
M8 — the scheduler (`/repo/scheduler/scheduler.go`: `Step`, `Retry`, `dispatchTask`,
`setGetNextResult`) composed with the observable repository (M6 over M2), a dispatcher obeying
the `def.Dispatcher` contract (M7) and the event queue, as a flat program-counter automaton.

Every call the Go code makes on its repository / dispatcher is one action that moves `pc`; between
any two actions the adversary may place user mutations, time advances, completions of running work
functions, context cancellation and faults (error without effect / error after effect) on the
scheduler's calls. `step` is total: an action that is not enabled at the current `pc` leaves the
world unchanged and sets `stuck` (the driver reports it as a correspondence failure).

`Fix` selects the repaired code paths (see DESIGN §6 / known findings); all `false` = pinned source.
-/
import Gk.Basic
import Gk.Repo
import Gk.Hook
namespace Gk

/-- what a work function's run delivered on the dispatcher's result channel -/
inductive Outcome
  | nil                      -- returned nil
  | err (msg : String)       -- returned an error / unknown work id / panicked
  | ctxCanceled              -- the value is context.Canceled (dispatcher cancelled)
  deriving DecidableEq, Repr, Inhabited

/-- `scheduler.StepState` -/
inductive SS
  | zero
  | timerUpdateError (e : Err)
  | awaitingNext
  | nextTask (t : Option Task) (e : Option Err)
  | dispatchErr (t : Task) (e : Err)
  | dispatched (id : String)
  | taskDone (id : String) (o : Outcome) (updateErr : Option Err)
  deriving DecidableEq, Repr, Inhabited

/-- `StepState.Err()` -/
def SS.err : SS → Option Err
  | .timerUpdateError e => some e
  | .awaitingNext => some .ctx
  | .nextTask _ e => e
  | .dispatchErr _ e => some e
  | .taskDone _ _ e => e
  | _ => none

inductive Fault
  | none
  | before      -- the call returns an error and has no effect
  | after       -- the call takes effect and then returns an error
  deriving DecidableEq, Repr, Inhabited

structure Fix where
  /-- D12: `ErrScheduleStoppedOrChanged` remembers to restart the timer -/
  restartOnChanged : Bool := true
  /-- D4: `Retry(DispatchErr)` marks the task as dispatched unless the failed attempt already did -/
  retryMarks : Bool := true
  /-- D3 (part): the timer branch refuses to announce a task that is not due by the scheduler's clock -/
  dueCheck : Bool := true
  deriving DecidableEq, Repr, Inhabited

inductive Pc
  | idle
  | s_lastErr0 | s_stop | s_start | s_lastErr1
  | s_select
  | s_getNext | s_nextSched (t : Task)
  | s_markDone (id : String) (o : Outcome)
  | d_wait (t : Task) (retry : Bool)
  | d_mark (t : Task) (retry : Bool)
  | d_get (t : Task)
  | r_stop | r_start | r_lastErr
  | r_getById (t : Task)
  | r_markDone (id : String) (o : Outcome)
  deriving DecidableEq, Repr, Inhabited

structure RunEntry where
  id : String
  at_ : Time          -- scheduler clock reading at work-function entry
  task : Task         -- the record handed to the work function
  deriving DecidableEq, Repr, Inhabited

structure World where
  fix : Fix := {}
  obs : Obs := {}
  lastTask : Option Task := none
  getNextErr : Bool := false
  pc : Pc := .idle
  running : List (String × Task) := []
  completed : List (String × Outcome) := []
  log : List RunEntry := []
  reported : List (String × Outcome) := []     -- completions received by Step's result branch
  ret : SS := .zero
  ctxDone : Bool := false        -- the context given to the running Step / Retry has been cancelled
  stuck : Bool := false
  deriving Repr, Inhabited

/-- one scheduler-side call or event, as observed at the scheduler's boundary -/
inductive SAct
  | beginStep
  | beginRetry
  | lastTimerErr
  | stopTimer
  | startTimer (hookFault : Option Err)
  | selCtx | selTimer | selResult (id : String)
  | getNext (f : Fault)
  | nextScheduled
  | markDone (f : Fault)
  | waitWorker (acquired : Bool)
  | cancelCtx
  | markDispatched (f : Fault) (hookFault : Option Err)
  /-- D21's trigger: `MarkAsDispatched` reached the CORE repository below the observable wrapper, took effect there (if
  the core accepts it) and was then reported as failed; the wrapper returns that error WITHOUT calling its timer hook -/
  | markDispatchedCore
  | getById (f : Fault)
  deriving Repr, Inhabited

inductive Act
  | sched (a : SAct)
  | user (op : Obs.OOp) (hookFault : Option Err)
  | advance (t : Time)
  | complete (id : String) (o : Outcome)
  deriving Repr, Inhabited

/-- the value a scheduler call returned, for comparison with the implementation -/
inductive Resp
  | unit
  | err (e : Option Err)
  | task (t : Task)
  | nextSched (t : Time) (ok : Bool)
  | ret (s : SS)
  | stuck
  deriving DecidableEq, Repr, Inhabited

namespace World

def outcomeErr : Outcome → Option String
  | .nil => none
  | .err m => some m
  | .ctxCanceled => some "context canceled"

/-- `def.IsDefError` on our error classes: repository errors and invalid-task / work-id errors. -/
def isDefError : Err → Bool
  | .ctx | .other | .schedChanged => false
  | _ => true

def finish (w : World) (s : SS) : World := { w with ret := s, pc := .idle }

/-- `dispatchTask` gives up: besides returning `DispatchErr` it remembers to restart the timer in the next `Step`
(the announced timer event is consumed, and the failed attempt may have changed the repository without the timer
hook being told — D21) -/
def finishDE (w : World) (s : SS) : World := { w.finish s with getNextErr := true }

/-- after the restart prologue of `Step`: clear getNextErr, then dispatch the remembered task or select -/
def afterPrologue (w : World) : World :=
  let w := { w with getNextErr := false }
  match w.lastTask with
  | some t => { w with lastTask := none, pc := .d_wait t false }
  | none => { w with pc := .s_select }

def zeroTask : Task := Task.blank "" 0

/-- One scheduler action. Returns the new world and what the call returned. -/
def sched (w : World) (a : SAct) : World × Resp :=
  let now := w.obs.clock.now
  match w.pc, a with
  | _, .cancelCtx => ({ w with ctxDone := true }, .unit)
  | .idle, .beginStep =>
    let w := { w with ctxDone := false }
    (if w.getNextErr then { w with pc := .s_stop } else { w with pc := .s_lastErr0 }, .unit)
  | .s_lastErr0, .lastTimerErr =>
    let e := w.obs.hook.lastErr
    (if e.isSome then { w with pc := .s_stop } else w.afterPrologue, .err e)
  | .s_stop, .stopTimer => ({ w with obs := w.obs.stopTimer, pc := .s_start }, .unit)
  | .s_start, .startTimer hf => ({ w with obs := w.obs.startTimer hf, pc := .s_lastErr1 }, .unit)
  | .s_lastErr1, .lastTimerErr =>
    match w.obs.hook.lastErr with
    | some e => (w.finish (.timerUpdateError e), .err (some e))
    | none => (w.afterPrologue, .err none)
  | .s_select, .selCtx => (w.finish .awaitingNext, .unit)
  | .s_select, .selTimer =>
    let (c, got) := w.obs.clock.consume
    if got then ({ w with obs := { w.obs with clock := c }, pc := .s_getNext }, .unit)
    else ({ w with stuck := true }, .stuck)
  | .s_select, .selResult id =>
    match w.completed.find? (·.1 == id) with
    | none => ({ w with stuck := true }, .stuck)
    | some (_, o) =>
      let w := { w with completed := w.completed.filter (·.1 != id), reported := w.reported ++ [(id, o)] }
      if o == .ctxCanceled then (w.finish (.taskDone id o none), .unit)
      else ({ w with pc := .s_markDone id o }, .unit)
  | .s_getNext, .getNext f =>
    if f != .none then
      (({ w with lastTask := none, getNextErr := true }).finish (.nextTask none (some .other)), .err (some .other))
    else
      match w.obs.repo.getNext with
      | none =>
        (({ w with lastTask := none, getNextErr := true }).finish (.nextTask none (some .exhausted)),
          .err (some .exhausted))
      | some t => ({ w with pc := .s_nextSched t }, .task t)
  | .s_nextSched t, .nextScheduled =>
    let (ns, ok) := w.obs.nextScheduled
    let due := !w.fix.dueCheck || t.scheduledAt ≤ now
    if !ok || ns != t.scheduledAt || !due then
      (({ w with getNextErr := w.fix.restartOnChanged }).finish (.nextTask none (some .schedChanged)),
        .nextSched ns ok)
    else (({ w with lastTask := some t, getNextErr := false }).finish (.nextTask (some t) none), .nextSched ns ok)
  | .s_markDone id o, .markDone f =>
    if f == .before then (w.finish (.taskDone id o (some .other)), .err (some .other))
    else if w.ctxDone then (w.finish (.taskDone id o (some .ctx)), .err (some .ctx))
    else
      let (r, out) := Repo.step {} w.obs.repo now (.done id (outcomeErr o))
      let w := { w with obs := { w.obs with repo := r } }
      let e := if f == .after then some Err.other else (match out with | .err e => some e | _ => none)
      (w.finish (.taskDone id o e), .err e)
  | .d_wait t retry, .waitWorker acquired =>
    if !acquired then (w.finishDE (.dispatchErr t .ctx), .err (some .ctx))
    else if retry then ({ w with pc := .d_get t }, .unit)    -- isRetry: MarkAsDispatched is skipped
    else ({ w with pc := .d_mark t retry }, .unit)
  | .d_mark t retry, .markDispatched f hf =>
    if f == .before then (w.finishDE (.dispatchErr t .other), .err (some .other))
    else if w.ctxDone then (w.finishDE (.dispatchErr t .ctx), .err (some .ctx))
    else
      let (o', out) := w.obs.step (.dispatch t.id) hf
      let w := { w with obs := o' }
      let e : Option Err := if f == .after then some .other else (match out with | .err e => some e | _ => none)
      match e with
      | some e => (w.finishDE (.dispatchErr t e), .err (some e))
      | none => ({ w with pc := .d_get t }, .err none)
  | .d_mark t _, .markDispatchedCore =>
    if w.ctxDone then (w.finishDE (.dispatchErr t .ctx), .err (some .ctx))
    else
      -- the core applies the transition; the timer hook is NOT told; the caller sees an error
      let (r, out) := Repo.step {} w.obs.repo now (.dispatch t.id)
      let w := { w with obs := { w.obs with repo := r } }
      let e : Err := match out with | .err e => e | _ => .other
      (w.finishDE (.dispatchErr t e), .err (some e))
  | .d_get t, .getById f =>
    if f != .none then (w.finishDE (.dispatchErr t .other), .err (some .other))
    else if w.ctxDone then (w.finishDE (.dispatchErr t .ctx), .err (some .ctx))
    else
      match w.obs.repo.lookup t.id with
      | none => (w.finishDE (.dispatchErr t .idNotFound), .err (some .idNotFound))
      | some cur =>
        -- the dispatcher starts the work function with `cur`; Dispatch returns the channel; Reserve
        let w := { w with running := w.running ++ [(t.id, cur)],
                          log := w.log ++ [({ id := t.id, at_ := now, task := cur } : RunEntry)] }
        (w.finish (.dispatched t.id), .task cur)
  -- Retry
  | .idle, .beginRetry =>
    let w := { w with ctxDone := false }
    match w.ret with
    | .timerUpdateError _ => ({ w with pc := .r_stop }, .unit)
    | .dispatchErr t _ => ({ w with pc := .r_getById t }, .unit)
    | .taskDone id o _ => ({ w with pc := .r_markDone id o }, .unit)
    | _ => (w.finish .zero, .unit)
  | .r_stop, .stopTimer => ({ w with obs := w.obs.stopTimer, pc := .r_start }, .unit)
  | .r_start, .startTimer hf => ({ w with obs := w.obs.startTimer hf, pc := .r_lastErr }, .unit)
  | .r_lastErr, .lastTimerErr =>
    match w.obs.hook.lastErr with
    | some e => (w.finish (.timerUpdateError e), .err (some e))
    | none => (w.finish .zero, .err none)
  | .r_getById t, .getById f =>
    if f != .none then (w.finish (.dispatchErr t .other), .err (some .other))
    else if w.ctxDone then (w.finish (.dispatchErr t .ctx), .err (some .ctx))
    else
      match w.obs.repo.lookup t.id with
      | none =>   -- `task = fetched` (the zero value)
        ({ w with pc := .d_wait zeroTask (!w.fix.retryMarks) }, .err (some .idNotFound))
      | some cur =>
        -- pinned source: always `isRetry = true`; repaired: skip marking only if already dispatched
        ({ w with pc := .d_wait t (if w.fix.retryMarks then cur.state == .dispatched else true) }, .task cur)
  | .r_markDone id o, .markDone f =>
    if f == .before then (w.finish (.taskDone id o (some .other)), .err (some .other))
    else if w.ctxDone then (w.finish (.taskDone id o (some .ctx)), .err (some .ctx))
    else
      let (r, out) := Repo.step {} w.obs.repo now (.done id (outcomeErr o))
      let w := { w with obs := { w.obs with repo := r } }
      let e := if f == .after then some Err.other else (match out with | .err e => some e | _ => none)
      if e.isSome && e != some .alreadyDone then (w.finish (.taskDone id o e), .err e)
      else (w.finish .zero, .err e)
  | _, _ => ({ w with stuck := true }, .stuck)

def step (w : World) : Act → World
  | .sched a => (w.sched a).1
  | .user op hf => { w with obs := (w.obs.step op hf).1 }
  | .advance t => { w with obs := { w.obs with clock := w.obs.clock.advance t } }
  | .complete id o =>
    match w.running.find? (·.1 == id) with
    | none => { w with stuck := true }
    | some _ => { w with running := w.running.filter (·.1 != id), completed := w.completed ++ [(id, o)] }

def run (w : World) (acts : List Act) : World := acts.foldl step w

/-- C03 on the run log -/
def noEarlyStart (w : World) : Bool := w.log.all (fun e => e.task.scheduledAt ≤ e.at_)

/-- C04: at most once -/
def atMostOnce (w : World) : Bool := (w.log.map (·.id)).eraseDups.length == w.log.length

/-- C04: the record handed to the work function is in state dispatched -/
def dispatchedAtEntry (w : World) : Bool := w.log.all (fun e => e.task.state == .dispatched)

end World
end Gk
