/-
Driver for the `disp` family (C09; the no-invocation facts C04/C06 rely on; the pool's worker count C08).
  case <fetch> <reg01> <dl> <beh> <cancel> -> <dispatchErr|-> <values,|-> <closed01> <fetchCalled01> <invoked n> <sawCancel01> <sawDeadline01> <alive>
-/
import Gk.Proto
import Gk.Disp
namespace Gk.DrvDisp
open Gk.Disp

structure S where
  ops : Nat := 0
  nontrivial : Bool := true
  deriving Inhabited

def decVal : String → Option Val
  | "nil" => some .nil | "work_err" => some .workErr | "not_found" => some .notFound | "ctx" => some .ctx
  | "deadline" => some .deadline | "panic_err" => some .panicErr | "fetch_err" => some .fetchErr | _ => none

def decFetch : String → Option Fetch | "ok" => some .ok | "err" => some .err | _ => none
def decDl : String → Option Dl | "none" => some .none | "past" => some .past | "zero" => some .past | "future" => some .future | _ => none
def decBeh : String → Option Beh
  | "nil" => some .retNil | "err" => some .retErr | "panic" => some .panic | "block" => some .block
  | "panicerr" => some .panic   -- the panic value is an error wrapping context.Canceled: still a panic
  | _ => none
def decCancel : String → Option CancelAt
  | "never" => some .never | "before" => some .beforeDispatch | "waiting" => some .waitingWorker
  | "fetch" => some .duringFetch | "running" => some .running | _ => none

def decCase : List String → Option Case
  | [f, r, d, b, c] => do
    pure { fetch := ← decFetch f, registered := r == "1", dl := ← decDl d, beh := ← decBeh b, cancel := ← decCancel c }
  -- sixth token: the dispatch context's own deadline ("none" | "later"). A deadline far later than the task's must
  -- change nothing, so the expected outcome is that of the five-token case.
  | [f, r, d, b, c, cdl] => do
    if cdl != "none" && cdl != "later" then none
    pure { fetch := ← decFetch f, registered := r == "1", dl := ← decDl d, beh := ← decBeh b, cancel := ← decCancel c }
  | _ => none

def stepLine (s : S) (req resp : List String) : S × List String :=
  match req with
  | "mismatch" :: prop :: rest => (s, [s!"MON {prop} " ++ " ".intercalate (rest.take 40)])
  | ["new", _] => (s, [])
  | "case" :: rest =>
    match decCase rest, resp with
    | some c, [de, vals, closed, fc, inv, sc, sd, alive] =>
      let e := exec true c
      let ide := if de == "-" then none else decVal de
      let ivals := if vals == "-" then [] else (vals.splitOn ",").filterMap decVal
      let inv := inv.toNat?.getD 99
      let m :=
        (if ide == e.dispatchErr then [] else [s!"Dispatch returned {de}, expected {repr e.dispatchErr}"]) ++
        (if ivals == e.values then [] else [s!"channel delivered [{vals}], expected {repr e.values}"]) ++
        (if (closed == "1") == e.closed then [] else [s!"channel closed={closed}, expected {e.closed}"]) ++
        (if inv == (if e.invoked then 1 else 0) then [] else [s!"work function invoked {inv} times, expected {e.invoked}"]) ++
        (if (fc == "1") == e.fetchCalled then [] else [s!"fetcher called={fc}, expected {e.fetchCalled}"]) ++
        (if !e.invoked || (sc == "1") == e.sawCancel then [] else [s!"work ctx cancelled={sc}, expected {e.sawCancel}"]) ++
        (if !e.invoked || (sd == "1") == e.sawDeadline then [] else [s!"work ctx deadline seen={sd}, expected {e.sawDeadline}"])
      let pool := if alive == "1" then [] else [s!"MON C08 the pool has {alive} live workers after the case (1 expected)"]
      ({ s with ops := s.ops + 1 }, m.map ("MON C09 " ++ ·) ++ pool)
    | _, _ => (s, ["DIFF parse bad case line"])
  | _ => (s, ["DIFF parse bad request"])

end Gk.DrvDisp
