/-
Glue for the generated in-memory repository (Gk/Gen/Inmemory.lean). The Go struct holds a heap and an ordered map
that SHARE their `*IndexedTask` objects; `Gk.Mem` (Gk/Mem.lean) is that pair of containers with the `Index` /
`InsertionOrder` fields kept outside the objects. `GoMem` is the receiver of the generated methods; the functions
below are what the library calls `orderedMap.Get / Set`, `heap.Push / Fix / Remove / Len / Peek` (ngicks
FilterableHeap over container/heap, wk8 ordered map) and `sortabletask.WrapTask` do to it — hand-written, ASSUMED
(trusted base; tied to the real containers by the heap-array / Index comparison of the `repo` family).

A pointer obtained with `orderedMap.Get` is translated as a local copy of the `IndexedTask` plus a write-back of its
`Task` after every assignment through it (`storeTask`); `Index` is only ever read right after `Get`.
-/
import Gk.Gen.Sortabletask
import Gk.GenGlue
import Gk.Mem
namespace Gk

/-- the five state names back to the model's enumeration (anything else cannot be stored: tasks are validated) -/
def stOf (s : String) : St :=
  if s = "dispatched" then .dispatched else if s = "cancelled" then .cancelled
  else if s = "done" then .done else if s = "err" then .err else .scheduled

def ofGen (t : Gen.Def.Task) : Gk.Task :=
  { id := t.Id, workId := t.WorkId, priority := t.Priority, state := stOf t.State, err := t.Err,
    param := t.Param, meta_ := t.Meta, scheduledAt := t.ScheduledAt, createdAt := t.CreatedAt,
    deadline := t.Deadline, cancelledAt := t.CancelledAt, dispatchedAt := t.DispatchedAt, doneAt := t.DoneAt }

def toGenTask (t : Gk.Task) : Gen.Def.Task :=
  { Id := t.id, WorkId := t.workId, Priority := t.priority, State := t.state.name, Err := t.err,
    Param := t.param, Meta := t.meta_, ScheduledAt := t.scheduledAt, CreatedAt := t.createdAt,
    Deadline := t.deadline, CancelledAt := t.cancelledAt, DispatchedAt := t.dispatchedAt, DoneAt := t.doneAt }

/-- The receiver of the generated `InMemoryRepository` methods. -/
structure GoMem where
  mem : Mem := {}
  now : Time := 0           -- what `r.clock.Now()` returns
  nextId : String := ""     -- what `r.randStrGen()` returns

namespace GoMem
open Gen.Sortabletask

def clock (r : GoMem) : Go.NowClock := ⟨r.now⟩
def randStrGen (r : GoMem) : String := r.nextId

/-- `sortabletask.WrapTask(task, r.insertionOrderCount)`: `count.Add(1)` is the insertion order. -/
def WrapTask (r : GoMem) (t : Gen.Def.Task) : GoMem × IndexedTask :=
  let c := r.mem.counter + 1
  ({ r with mem := { r.mem with counter := c } }, { Task := t, Index := 0, InsertionOrder := c })

/-- `r.orderedMap.Get(id)` -/
def omapGet (r : GoMem) (id : String) : IndexedTask × Bool :=
  match r.mem.lookup id with
  | some t => ({ Task := toGenTask t, Index := r.mem.heap.idx id, InsertionOrder := r.mem.rank id }, true)
  | none => (default, false)

/-- write-back of `*task.Task` after an assignment through a pointer obtained with `Get` -/
def storeTask (r : GoMem) (w : IndexedTask) : GoMem :=
  { r with mem := { r.mem with tasks := Mem.replaceTask r.mem.tasks w.Task.Id (fun _ => ofGen w.Task) } }

/-- `r.heap.Push(wrapped)`: the comparator reads the pushed object itself (it is not in the ordered map yet) -/
def heapPush (r : GoMem) (w : IndexedTask) : GoMem :=
  let id := w.Task.Id
  let rank := fun x => if x = id then w.InsertionOrder else r.mem.rank x
  let tasks := r.mem.tasks ++ [ofGen w.Task]
  { r with mem := { r.mem with heap := H.push (Mem.lt tasks rank) r.mem.heap id } }

/-- `r.orderedMap.Set(id, wrapped)` of a new key: appended, with its insertion order -/
def omapSet (r : GoMem) (id : String) (w : IndexedTask) : GoMem :=
  { r with mem := { r.mem with tasks := r.mem.tasks ++ [ofGen w.Task],
                               rank := fun x => if x = id then w.InsertionOrder else r.mem.rank x } }

/-- `r.heap.Fix(i)` (a negative index makes container/heap panic) -/
def heapFix (r : GoMem) (i : Int) : GoMem :=
  let (h', ok) := if i < 0 then (r.mem.heap, false) else H.fix (Mem.lt r.mem.tasks r.mem.rank) r.mem.heap i.toNat
  { r with mem := { r.mem with heap := h', panicked := r.mem.panicked || !ok } }

/-- `r.heap.Remove(i)` -/
def heapRemove (r : GoMem) (i : Int) : GoMem :=
  let (h', x) := if i < 0 then (r.mem.heap, none) else H.remove (Mem.lt r.mem.tasks r.mem.rank) r.mem.heap i.toNat
  { r with mem := { r.mem with heap := h', panicked := r.mem.panicked || x.isNone } }

def heapLen (r : GoMem) : Int := r.mem.heap.arr.size

/-- `r.init()`: a fresh counter, heap and ordered map -/
def init (r : GoMem) : GoMem := { r with mem := {} }

/-- one `orderedmap.Pair` -/
structure Pair where
  Key : String := default
  Value : IndexedTask := default
  deriving Inhabited

/-- `for pair := r.orderedMap.Oldest(); pair != nil; pair = pair.Next()`: the pairs, oldest first -/
def omapPairs (r : GoMem) : List Pair :=
  r.mem.tasks.map fun t => { Key := t.id, Value := { Task := toGenTask t, Index := r.mem.heap.idx t.id, InsertionOrder := r.mem.rank t.id } }

def omapLen (r : GoMem) : Int := r.mem.tasks.length

/-- `r.heap.Peek()` (only called when `Len() != 0`) -/
def heapPeek (r : GoMem) : IndexedTask :=
  match r.mem.heap.arr[0]? with
  | some id => (omapGet r id).1
  | none => default

end GoMem

namespace Go
def def_ErrInvalidTask : GoError := some (.sentinel "invalid task")
def time_April : Int := 4

/-- days from 0001-01-01 to y-m-d in the proleptic Gregorian calendar (Go's zero time is 0001-01-01T00:00:00Z) -/
def daysFromCivil (y m d : Int) : Int :=
  let y' := if m ≤ 2 then y - 1 else y
  let era := (if y' ≥ 0 then y' else y' - 399) / 400
  let yoe := y' - era * 400
  let mp := (m + 9) % 12
  let doy := (153 * mp + 2) / 5 + d - 1
  let doe := yoe * 365 + yoe / 4 - yoe / 100 + doy
  era * 146097 + doe - 306          -- 306 = days from 0000-03-01 to 0001-01-01

/-- `time.Date(y, m, d, h, mi, s, ns, time.UTC)` as nanoseconds since the zero time -/
def time_Date (y m d h mi s ns : Int) (_loc : Unit) : Time :=
  ((daysFromCivil y m d * 24 + h) * 60 + mi) * 60 * 1000000000 + s * 1000000000 + ns
end Go

end Gk
