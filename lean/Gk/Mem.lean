/-
M4 — `Impl.Mem`: /repo/repository/inmemory/repository.go and io.go method by method:
ordered map (tasks in insertion order), heap of ids with `Index` fields, insertion counter.
The heap's comparator reads the *current* task contents (the Go heap holds pointers to the same
objects the ordered map holds), which is why every key change must be followed by `Fix`.
-/
import Gk.Basic
import Gk.Query
import Gk.Repo
import Gk.Heap
namespace Gk

structure Mem where
  tasks : List Task := []                 -- ordered map, oldest first
  rank : String → Nat := fun _ => 0       -- InsertionOrder of each wrapped task
  heap : H String := H.empty              -- heap of ids + Index fields
  counter : Nat := 0                      -- insertionOrderCount
  panicked : Bool := false                -- the Go code would have panicked (index out of range)

namespace Mem

def lookup (m : Mem) (id : String) : Option Task := m.tasks.find? (·.id == id)

def keyOf (tasks : List Task) (rank : String → Nat) (id : String) : Key :=
  match tasks.find? (·.id == id) with
  | some t => t.key (rank id)
  | none => default

/-- `sortabletask.Less` on two heap slots, reading the current task contents. -/
def lt (tasks : List Task) (rank : String → Nat) (a b : String) : Bool :=
  (keyOf tasks rank a).less (keyOf tasks rank b)

def replaceTask (ts : List Task) (id : String) (f : Task → Task) : List Task :=
  ts.map (fun t => if t.id == id then f t else t)

/-- The common shape of Cancel / MarkAsDispatched: guard, `heap.Remove(task.Index)`, then mutate. -/
def removeThen (m : Mem) (id : String) (f : Task → Task) : Mem × Out :=
  match m.lookup id with
  | none => (m, .err .idNotFound)
  | some t =>
    if t.state != .scheduled then
      match errKindMutate t with
      | some e => (m, .err e)
      | none => (m, .ok)
    else
      let i := m.heap.idx id
      let (h', r) := if i < 0 then (m.heap, none) else H.remove (lt m.tasks m.rank) m.heap i.toNat
      ({ m with heap := h', tasks := replaceTask m.tasks id f, panicked := m.panicked || r.isNone }, .ok)

def step (fl : Flags) (m : Mem) (now : Time) : Op → Mem × Out
  | .add id p =>
    let t := p.normalize.toTask id now
    if !t.isValid then (m, .err .invalidTask)
    else
      let c := m.counter + 1
      let rank := fun x => if x = id then c else m.rank x
      let tasks := m.tasks ++ [t]
      ({ m with counter := c, rank := rank, tasks := tasks,
                heap := H.push (lt tasks rank) m.heap id }, .task t)
  | .get id =>
    match m.lookup id with
    | none => (m, .err .idNotFound)
    | some t => (m, .task t)
  | .update id p =>
    if !p.validForUpdate then (m, .err .invalidTask)
    else
      match m.lookup id with
      | none => (m, .err .idNotFound)
      | some t =>
        if t.state != .scheduled then
          match errKindMutate t with
          | some e => (m, .err e)
          | none => (m, .ok)
        else
          let tasks := replaceTask m.tasks id (fun t => t.update p.normalize)
          let i := m.heap.idx id
          let (h', ok) := if i < 0 then (m.heap, false) else H.fix (lt tasks m.rank) m.heap i.toNat
          ({ m with tasks := tasks, heap := h', panicked := m.panicked || !ok }, .ok)
  | .cancel id =>
    removeThen m id (fun t => { t with state := .cancelled, cancelledAt := some (normalize now) })
  | .dispatch id =>
    removeThen m id (fun t => { t with state := .dispatched, dispatchedAt := some (normalize now) })
  | .done id e =>
    match m.lookup id with
    | none => (m, .err .idNotFound)
    | some t =>
      if t.state != .dispatched then
        match errKindMarkAsDone t with
        | some k => (m, .err k)
        | none => (m, .ok)
      else
        ({ m with tasks := replaceTask m.tasks id (fun t =>
          match e with
          | none => { t with state := .done, doneAt := some (normalize now) }
          | some msg => { t with state := .err, err := msg, doneAt := some (normalize now) }) }, .ok)
  | .find q offset limit =>
    (m, .tasks (findLoop (q.normalize fl.normDeadline).matches (byCreated m.tasks) offset limit))
  | .next =>
    match m.heap.arr[0]? with
    | none => (m, .err .exhausted)
    | some id =>
      match m.lookup id with
      | some t => (m, .task t)
      | none => ({ m with panicked := true }, .err .other)
  | .revert | .cancelDispatched | .deleteEnded => (m, .err .other)   -- not part of the in-memory API

/-- `Save`: the tasks in insertion order. -/
def save (m : Mem) : List Task := m.tasks

/-- `Load`: validate first; then re-initialise, re-wrap in order, push only scheduled tasks. -/
def load (kv : List Task) (m : Mem) : Mem × Out :=
  if kv.any (fun t => !t.isValid) then (m, .err .invalidTask)
  else
    let go := fun (acc : Mem) (t : Task) =>
      let c := acc.counter + 1
      let rank := fun x => if x = t.id then c else acc.rank x
      let tasks := acc.tasks ++ [t]
      -- NB: the Go code pushes onto the heap *before* the ordered map is set; the comparator only
      -- reads objects already on the heap plus the pushed one, so using `tasks` here is the same.
      { acc with counter := c, rank := rank, tasks := tasks,
                 heap := if t.state == .scheduled then H.push (lt tasks rank) acc.heap t.id else acc.heap }
    (kv.foldl go {}, .ok)

/-- Abstraction to the specification state. -/
def abs (m : Mem) : Repo := { tasks := m.tasks }

end Mem
end Gk
