/-
M7 — the dispatcher contract and `executor.Exec` as a straight-line function.
Transcribed from /repo/dispatcher/workerpool/workerpool.go (`Dispatch`, `Exec`).
Inputs: the fetcher's outcome, whether the work id is registered, the task's deadline, the work
function's behaviour and the instant at which the dispatch context is cancelled.
`fixed = false`: the pinned source, where a panicking work function closes the result channel
without a value (D5); `fixed = true`: the panic is recovered and sent as an error.
-/
namespace Gk.Disp

inductive Fetch | ok | err deriving DecidableEq, Repr, Inhabited
inductive Beh | retNil | retErr | panic | block deriving DecidableEq, Repr, Inhabited
inductive CancelAt | never | beforeDispatch | waitingWorker | duringFetch | running
  deriving DecidableEq, Repr, Inhabited
inductive Dl | none | past | future deriving DecidableEq, Repr, Inhabited

/-- classes of values seen on the result channel / returned by Dispatch -/
inductive Val | nil | workErr | notFound | ctx | deadline | panicErr | fetchErr
  deriving DecidableEq, Repr, Inhabited

structure Case where
  fetch : Fetch
  registered : Bool
  dl : Dl
  beh : Beh
  cancel : CancelAt
  deriving DecidableEq, Repr, Inhabited

structure Outcome where
  dispatchErr : Option Val     -- error returned by Dispatch (then no channel)
  values : List Val            -- everything received from the channel until it was closed
  closed : Bool
  fetchCalled : Bool
  invoked : Bool               -- the work function ran
  sawCancel : Bool             -- the work function observed ctx.Err() != nil after the dispatch ctx was cancelled
  sawDeadline : Bool           -- ctx.Deadline() inside the work function = the task's deadline
  deriving DecidableEq, Repr, Inhabited

/-- cases the harness cannot run: a function that blocks until cancellation with nothing to end it -/
def Case.valid (c : Case) : Bool :=
  !(c.beh == Beh.block && c.cancel != CancelAt.running && c.dl == Dl.none)

def none_ : Outcome :=
  { dispatchErr := none, values := [], closed := false, fetchCalled := false, invoked := false,
    sawCancel := false, sawDeadline := false }

/-- `Dispatch` + `Exec`. -/
def exec (fixed : Bool) (c : Case) : Outcome :=
  match c.cancel with
  | .beforeDispatch | .waitingWorker => { none_ with dispatchErr := some .ctx }
  | _ =>
    -- a worker received the workFn; Exec runs the fetcher
    match c.fetch with
    | .err => { none_ with dispatchErr := some .fetchErr, fetchCalled := true }
    | .ok =>
      let o := { none_ with fetchCalled := true, closed := true }
      if !c.registered then { o with values := [.notFound] }
      else if c.cancel == CancelAt.duringFetch then { o with values := [.ctx] }   -- pre-start cancellation check
      else
        let o := { o with invoked := true, sawDeadline := c.dl != Dl.none, sawCancel := c.cancel == CancelAt.running }
        match c.beh with
        | .retNil => { o with values := [.nil] }
        | .retErr => { o with values := [.workErr] }
        | .panic => if fixed then { o with values := [.panicErr] } else { o with values := [] }
        | .block =>
          -- returns ctx.Err(): a deadline already in the past has expired before any cancellation
          if c.dl == Dl.past then { o with values := [.deadline] }
          else if c.cancel == CancelAt.running then { o with values := [.ctx] }
          else { o with values := [.deadline] }

end Gk.Disp
