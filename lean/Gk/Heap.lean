/-
M3 — a port of Go's `container/heap` (`up`, `down`, `Init`, `Push`, `Pop`, `Remove`, `Fix`) over an
array of elements, together with the three hooks of /repo/internal/sortable_task/task.go (`swap`,
`push`, `pop`) that maintain each element's `Index` field. The `Index` fields are the function `idx`
(the Go code stores them inside the `*IndexedTask` objects the heap and the ordered map share).

`container/heap` itself is standard library: it is modelled here, and tied to the real thing by
comparing the whole heap array after every operation (harness `heap` lines).
-/
namespace Gk

structure H (α : Type) where
  arr : Array α
  idx : α → Int

namespace H
variable {α : Type} [DecidableEq α]

def empty : H α := ⟨#[], fun _ => 0⟩

/-- `sortabletask.swap`: exchange two slots, then `SetIndex(i)` on slot i and `SetIndex(j)` on slot j. -/
def swap (h : H α) (i j : Nat) (hi : i < h.arr.size) (hj : j < h.arr.size) : H α :=
  let arr := h.arr.swap i j
  have hi' : i < arr.size := by simp [arr]; exact hi
  have hj' : j < arr.size := by simp [arr]; exact hj
  ⟨arr, fun x => if x = arr[j] then (j : Int) else if x = arr[i] then (i : Int) else h.idx x⟩

@[simp] theorem swap_size (h : H α) (i j : Nat) (hi hj) : (h.swap i j hi hj).arr.size = h.arr.size := by
  simp [swap]

/-- `heap.up`. -/
def up (lt : α → α → Bool) (h : H α) (j : Nat) : H α :=
  if hj : j < h.arr.size then
    let i := (j - 1) / 2
    if hij : i = j then h
    else
      have hi : i < h.arr.size := by omega
      if lt h.arr[j] h.arr[i] then up lt (h.swap i j hi hj) i else h
  else h
termination_by j
decreasing_by omega

/-- The child `down` compares with: the right child if it exists and is smaller, else the left. -/
def child (lt : α → α → Bool) (arr : Array α) (i n : Nat) (hn : 2 * i + 1 < n ∧ n ≤ arr.size) : Nat :=
  if h2 : 2 * i + 2 < n then
    (if lt (arr[2 * i + 2]'(by omega)) (arr[2 * i + 1]'(by omega)) then 2 * i + 2 else 2 * i + 1)
  else 2 * i + 1

theorem child_spec (lt : α → α → Bool) (arr : Array α) (i n : Nat) (hn : 2 * i + 1 < n ∧ n ≤ arr.size) :
    child lt arr i n hn < n ∧ i < child lt arr i n hn ∧
      (child lt arr i n hn = 2 * i + 1 ∨ child lt arr i n hn = 2 * i + 2) := by
  unfold child
  split
  · split <;> omega
  · omega

/-- `heap.down` on the prefix of length `n`; also returns the final position
(Go returns `i > i0`). -/
def down (lt : α → α → Bool) (h : H α) (i n : Nat) : H α × Nat :=
  if hn : 2 * i + 1 < n ∧ n ≤ h.arr.size then
    have hc := child_spec lt h.arr i n hn
    have hi : i < h.arr.size := by omega
    have hj : child lt h.arr i n hn < h.arr.size := by omega
    if lt h.arr[child lt h.arr i n hn] h.arr[i] then
      down lt (h.swap i (child lt h.arr i n hn) hi hj) (child lt h.arr i n hn) n
    else (h, i)
  else (h, i)
termination_by n - i
decreasing_by
  have hc := child_spec lt h.arr i n hn
  omega

/-- `sortabletask.push` then `heap.up`: `heap.Push`. -/
def push (lt : α → α → Bool) (h : H α) (x : α) : H α :=
  let n := h.arr.size
  up lt ⟨h.arr.push x, fun y => if y = x then (n : Int) else h.idx y⟩ n

/-- `sortabletask.pop`: drop the last slot and set its `Index` to -1. -/
def popLast (h : H α) : H α × Option α :=
  match h.arr.back? with
  | none => (h, none)
  | some x => (⟨h.arr.pop, fun y => if y = x then (-1 : Int) else h.idx y⟩, some x)

/-- `heap.Pop`. `none` = the Go code panics (empty heap). -/
def pop (lt : α → α → Bool) (h : H α) : H α × Option α :=
  if h0 : 0 < h.arr.size then
    let n := h.arr.size - 1
    let h1 := h.swap 0 n h0 (by omega)
    popLast (down lt h1 0 n).1
  else (h, none)

/-- `heap.Remove`. `none` = the Go code panics (index out of range). -/
def remove (lt : α → α → Bool) (h : H α) (i : Nat) : H α × Option α :=
  if hi : i < h.arr.size then
    let n := h.arr.size - 1
    if hne : n ≠ i then
      let h1 := h.swap i n hi (by omega)
      let (h2, i') := down lt h1 i n
      let h3 := if i' > i then h2 else up lt h2 i
      popLast h3
    else popLast h
  else (h, none)

/-- `heap.Fix`. Out of range: the Go code panics; the model leaves the heap alone and reports `false`. -/
def fix (lt : α → α → Bool) (h : H α) (i : Nat) : H α × Bool :=
  if i < h.arr.size then
    let (h2, i') := down lt h i h.arr.size
    (if i' > i then h2 else up lt h2 i, true)
  else (h, false)

/-- `heap.Init` loop body, from `i` down to 0. -/
def initFrom (lt : α → α → Bool) (h : H α) : Nat → H α
  | 0 => (down lt h 0 h.arr.size).1
  | i + 1 => initFrom lt (down lt h (i + 1) h.arr.size).1 i

/-- `heap.Init`. -/
def init (lt : α → α → Bool) (h : H α) : H α :=
  let n := h.arr.size
  if n / 2 = 0 then h else initFrom lt h (n / 2 - 1)

end H
end Gk
