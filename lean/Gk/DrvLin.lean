/-
Driver for the `lin` family (C10).
  op <goroutine> <call> <ret> <repo request line …> -> <response>      one completed operation
  check                                                                 decide linearizability of everything since `new`
Requests use the `repo` family syntax (add/get/upd/can/dis/don/fnd/nxt with ctx flag 0).
-/
import Gk.Proto
import Gk.Repo
import Gk.Lin
import Gk.DrvRepo
import Gk.Mon
namespace Gk.DrvLin
open Gk Gk.Proto Gk.Lin

structure S where
  impl : String := "mem"
  ops : List LOp := []
  count : Nat := 0
  overlapping : Bool := false
  nontrivial : Bool := false
  deriving Inhabited

/-- For the SQL repository members of a full tie may be returned in any order by Find / GetNext. -/
def sameFor (impl : String) (op : Op) (a b : Out) : Bool :=
  if impl == "mem" then a == b
  else match op, a, b with
    | .find .., .tasks x, .tasks y => x.length == y.length && x.all (y.contains ·)
    | .next, .task x, .task y => x.state == y.state && Mon.sameSortKey x y
    | _, _, _ => a == b

def stepLine (s : S) (req resp : List String) : S × List String :=
  match req with
  | ["new", impl] => ({ impl := impl, count := s.count }, [])
  | "op" :: _g :: call :: ret :: rest =>
    match call.toNat?, ret.toNat?, DrvRepo.decReq rest with
    | some call, some ret, some (op, _, now, kind) =>
      match DrvRepo.decOut kind resp with
      | some out =>
        let ov := s.ops.any fun p => !(p.ret < call) && !(ret < p.call) 
        ({ s with ops := s.ops ++ [{ call, ret, now, op, out }], count := s.count + 1,
                  overlapping := s.overlapping || ov }, [])
      | none => (s, ["DIFF parse bad lin response " ++ " ".intercalate resp])
    | _, _, _ => (s, ["DIFF parse bad lin op " ++ " ".intercalate req])
  | ["race", n] => (s, if n == "0" then [] else [s!"MON C10 the race detector reported {n} data race(s)"])
  | ["check"] =>
    let ok := linearizable (sameFor s.impl) {} s.ops
    ({ s with nontrivial := s.overlapping }, if ok then [] else
      [s!"MON C10 no sequential order of the {s.ops.length} operations explains the observed results"])
  | _ => (s, ["DIFF parse bad request " ++ " ".intercalate req])

end Gk.DrvLin
