/-
Driver for the `repo` family of traces (C01, C02, C11, C12, C13, C14, C19): steps `Repo` on every
operation the Go harness performed on the real repository, compares results and full dumps
(correspondence), and evaluates the monitors on the implementation's own data.
-/
import Gk.Basic
import Gk.Query
import Gk.Repo
import Gk.Proto
import Gk.Mon
import Gk.Mem
namespace Gk.DrvRepo
open Gk Gk.Proto

structure Pending where
  op : Op
  ctx : Bool
  out : Out
  now : Time := 0
  inj : Bool := false      -- one SQL statement of this call was failed by the driver (ctx flag "3k")
  deriving Inhabited

structure S where
  impl : String := "mem"
  model : Repo := {}
  mem : Mem := {}
  dump : List Task := []          -- the implementation's last full dump
  pending : Option Pending := none
  saved : Option (List Task) := none     -- the model's contents when `sav` was taken (a `lod` may come later)
  inflight : Option (Op × Time) := none   -- crash family: the operation in flight when the process was killed
  -- statistics
  ops : Nat := 0
  errs : Nat := 0
  nontrivial : Bool := false      -- this history reached a non-scheduled state or an error

instance : Inhabited S := ⟨{}⟩

def decOut (kind : String) (toks : List String) : Option Out :=
  match toks with
  | ["ok"] => some .ok
  | ["err", k] => (decErr k).map .err
  | "ok" :: rest =>
    match kind with
    | "task" => (decTask rest).map (fun p => .task p.1)
    | "tasks" =>
      match rest with
      | n :: rest => do
        let n ← n.toNat?
        let (ts, _) ← decTasks n rest
        pure (.tasks ts)
      | _ => none
    | _ => none
  | _ => none

def showOut : Out → String
  | .ok => "ok"
  | .err e => "err " ++ encErr e
  | .task t => "ok " ++ encTask t
  | .tasks ts => s!"ok {ts.length} " ++ " ".intercalate (ts.map encTask)

/-- C19: the harness's scribble marker must never come back from the store. -/
def scribbleLeak (ts : List Task) : List String :=
  ts.filterMap fun t =>
    let bad (m : SMap) := m.any fun kv => kv.1 == "scribbled-by-client" || (kv.2.splitOn "#scribbled").length > 1
    if bad t.param || bad t.meta_ then
      some s!"MON C19 task {t.id} came back from the store carrying what the client scribbled into a map it had passed in or received earlier"
    else none

def isMutation : Op → Bool
  | .add .. | .update .. | .cancel .. | .dispatch .. | .done .. | .revert | .cancelDispatched
  | .deleteEnded => true
  | _ => false

/-- Compare the implementation's answer with the model's, honouring the leniency the property
grants for cancelled contexts. Returns complaints. -/
def compareOut (op : Op) (ctx : Bool) (impl model : Out) : List String :=
  if ctx then
    if isMutation op then
      (if impl.isErr then [] else [s!"cancelled ctx: impl={showOut impl}"])
    else if impl.isErr || impl == model then [] else [s!"model={showOut model} impl={showOut impl}"]
  else if impl == model then [] else [s!"model={showOut model} impl={showOut impl}"]

/-- Parse a request: returns (op, ctx, now, result-kind). -/
def decReq : List String → Option (Op × Bool × Time × String)
  | "add" :: c :: now :: id :: rest => do
    let (p, _) ← decParam rest
    pure (.add (← decStr id) p, c == "1", ← decTime now, "task")
  | ["get", c, id] => do pure (.get (← decStr id), c == "1", 0, "task")
  | "upd" :: c :: now :: id :: rest => do
    let (p, _) ← decParam rest
    pure (.update (← decStr id) p, c == "1", ← decTime now, "unit")
  | ["can", c, now, id] => do pure (.cancel (← decStr id), c == "1", ← decTime now, "unit")
  | ["dis", c, now, id] => do pure (.dispatch (← decStr id), c == "1", ← decTime now, "unit")
  | ["don", c, now, id, e] => do
    pure (.done (← decStr id) (← decOpt decStr e), c == "1", ← decTime now, "unit")
  | "fnd" :: c :: off :: lim :: rest => do
    let (q, _) ← decQuery rest
    pure (.find q (← off.toInt?) (← lim.toInt?), c == "1", 0, "tasks")
  | ["nxt", c] => some (.next, c == "1", 0, "task")
  | ["rev", c, now] => do pure (.revert, c == "1", ← decTime now, "unit")
  | ["cdp", c, now] => do pure (.cancelDispatched, c == "1", ← decTime now, "unit")
  | ["del", c, now] => do pure (.deleteEnded, c == "1", ← decTime now, "unit")
  | _ => none

def decTriples : Nat → List String → Option (List (String × Int × Nat) × List String)
  | 0, rest => some ([], rest)
  | n + 1, id :: ix :: ord :: rest => do
    let (ts, rest) ← decTriples n rest
    pure (((← decStr id), (← ix.toInt?), (← ord.toNat?)) :: ts, rest)
  | _, _ => none

/-- `n (id idx ord)*n m (id idx ord)*m` -/
def decHeap : List String → Option (List (String × Int × Nat) × List (String × Int × Nat))
  | n :: rest => do
    let (a, rest) ← decTriples (← n.toNat?) rest
    match rest with
    | m :: rest => do
      let (b, _) ← decTriples (← m.toNat?) rest
      pure (a, b)
    | _ => none
  | _ => none

/-- One line. Output lines start with `DIFF <tag>` (correspondence) or `MON <Cxx>` (monitor). -/
def stepLine (s : S) (req resp : List String) : S × List String :=
  match req with
  | ["new", impl] => ({ impl := impl, ops := s.ops, errs := s.errs }, [])
  | ["dump"] =>
    match resp with
    | n :: rest =>
      match n.toNat?.bind (fun n => decTasks n rest) with
      | none => (s, ["DIFF parse bad dump"])
      | some (ts, _) =>
        let d1 := if ts == s.model.tasks then [] else
          ["DIFF repo dump differs: model=" ++ " ; ".intercalate (s.model.tasks.map encTask) ++
            " impl=" ++ " ; ".intercalate (ts.map encTask)]
        let mons := match s.pending with
          | none => []
          | some p =>
            (Mon.c01 s.dump ts p.op p.ctx p.out).map ("MON C01 " ++ ·) ++
            (Mon.c12Step s.dump ts p.op p.out).map ("MON C12 " ++ ·) ++
            (if p.ctx then [] else (Mon.c13 s.dump ts p.op p.now).map ("MON C13 " ++ ·)) ++
            -- a mutation that was ACKNOWLEDGED although the driver failed one of its statements must be in the database
            (if p.inj && !p.ctx && !p.out.isErr && isMutation p.op && ts == s.dump && s.model.tasks != s.dump then
              ["MON C13 a mutation was acknowledged (nil) although the SQL driver failed one of its statements, and it is absent from the database"]
             else [])
        let nt := s.nontrivial || ts.any (·.state != .scheduled)
        ({ s with dump := ts, pending := none, nontrivial := nt }, d1 ++ mons ++ scribbleLeak ts)
    | _ => (s, ["DIFF parse bad dump"])
  | "mismatch" :: prop :: rest => (s, [s!"MON {prop} " ++ " ".intercalate rest])
  | "#" :: _ => (s, [])
  | ["adopt"] =>
    -- pipeline kill: the database content found after reopening becomes the model's state; every stored
    -- task must be well-formed on its own (C12's per-task part), ids distinct
    match resp with
    | n :: rest =>
      match n.toNat?.bind (fun n => decTasks n rest) with
      | none => (s, ["DIFF parse bad adopt"])
      | some (ts, _) =>
        let bad := ts.flatMap (fun t => (Mon.c12Task t).map ("MON C13 (pipeline) after the kill: " ++ ·))
        let dup := if (ts.map (·.id)).eraseDups.length == ts.length then [] else
          ["MON C13 (pipeline) after the kill two stored tasks share one id"]
        ({ s with model := { tasks := ts }, dump := ts, pending := none,
                  nontrivial := s.nontrivial || ts.any (·.state != .scheduled) }, bad ++ dup)
    | _ => (s, ["DIFF parse bad adopt"])
  | ["sav"] => ({ s with saved := some s.model.tasks }, [])
  | "crash" :: rest =>
    -- the process was killed; `rest` is the request that had not been acknowledged ("-" = none)
    match rest with
    | ["-"] => ({ s with inflight := none }, [])
    | _ => match decReq rest with
      | some (op, _, now, _) => ({ s with inflight := some (op, now) }, [])
      | none => (s, ["DIFF parse bad crash line"])
  | ["crashdump"] =>
    match resp with
    | n :: rest =>
      match n.toNat?.bind (fun n => decTasks n rest) with
      | none => (s, ["DIFF parse bad crashdump"])
      | some (ts, _) =>
        -- atomic durability: acknowledged operations are all there; the one in flight is all-or-nothing
        let absent := s.model.tasks
        let applied := match s.inflight with
          | some (op, now) => (Repo.step {} s.model now op).1.tasks
          | none => absent
        let sortById (l : List Task) := l.mergeSort (fun a b => a.id ≤ b.id)
        let same (a b : List Task) := sortById a == sortById b
        if same ts absent then ({ s with model := { tasks := ts }, dump := ts, pending := none }, [])
        else if same ts applied then ({ s with model := { tasks := ts }, dump := ts, pending := none, nontrivial := true }, [])
        else ({ s with model := { tasks := ts }, dump := ts, pending := none },
          ["MON C13 after the kill the database holds neither the acknowledged operations alone nor those plus the whole in-flight one: found " ++
            " ; ".intercalate (ts.map encTask) ++ " | acknowledged: " ++ " ; ".intercalate (absent.map encTask)])
    | _ => (s, ["DIFF parse bad crashdump"])
  | ["heap"] =>
    if s.impl != "mem" then (s, []) else
    match decHeap resp with
    | none => (s, ["DIFF parse bad heap line"])
    | some (hp, all) =>
      let ids := hp.map (·.1)
      let d1 := if ids == s.mem.heap.arr.toList then [] else
        [s!"DIFF heap array differs: model={s.mem.heap.arr.toList} impl={ids}"]
      let d2 := all.filterMap fun (id, ix, ord) =>
        if s.mem.heap.idx id != ix then
          some s!"DIFF heap Index of {id}: model={s.mem.heap.idx id} impl={ix}"
        else if s.mem.rank id != ord then some s!"DIFF heap InsertionOrder of {id}: model={s.mem.rank id} impl={ord}"
        else none
      let d3 := if s.mem.panicked then ["DIFF heap the model reached a point where the Go code would panic"] else []
      (s, d1 ++ d2 ++ d3)
  | ["lod"] =>
    match resp with
    | "ok" :: n :: rest =>
      match n.toNat?.bind (fun n => decTasks n rest) with
      | none => (s, ["DIFF parse bad lod"])
      | some (ts, _) =>
        let d := if ts == s.saved.getD s.model.tasks then [] else ["DIFF snapshot saved tasks differ from the model's"]
        let (m', o) := Mem.load ts {}
        let d2 := if o == .ok then [] else ["DIFF snapshot model refuses a snapshot the implementation loaded"]
        ({ s with mem := m', model := { tasks := ts }, dump := ts, pending := none }, d ++ d2)
    | _ => (s, ["MON C14 a valid snapshot was refused: " ++ " ".intercalate resp])
  | ["lodbad"] =>
    (s, if resp == ["err", "invalid_task"] then [] else
      ["MON C14 a snapshot containing an invalid task was not refused: " ++ " ".intercalate resp])
  | _ =>
    -- ctx flag "3k": the SQL driver failed the k-th statement boundary of the call: same two acceptable outcomes.
    -- ctx flag "2": the context was cancelled WHILE the call was running (at the implementation's first clock read).
    -- An implementation may complete the operation and report success (flag 0), or fail without effect (flag 1): the
    -- observed response decides which of the two is demanded; an error TOGETHER with an effect is `MON C01` below.
    let inj := match req with
      | _ :: f :: _ => f.length == 2 && f.startsWith "3"
      | _ => false
    let req := match req with
      | o :: f :: rest =>
        if f == "2" || inj then o :: (if resp.head? == some "err" then "1" else "0") :: rest else req
      | _ => req
    match decReq req with
    | none => (s, ["DIFF parse bad request " ++ " ".intercalate req])
    | some (op, ctx, now, kind) =>
      match decOut kind resp with
      | none => (s, ["DIFF parse bad response " ++ " ".intercalate resp])
      | some out =>
        let (m', mout) := if ctx then (s.model, (Repo.step {} s.model now op).2)
                          else Repo.step {} s.model now op
        let tag := match op with
          | .find .. => "find" | .next => "next" | .revert | .cancelDispatched | .deleteEnded => "recover"
          | _ => "repo"
        let (mem', memOut) := if s.impl != "mem" then (s.mem, mout)
                              else if ctx then (s.mem, (Mem.step {} s.mem now op).2) else Mem.step {} s.mem now op
        let relaxed := match op with
          | .find q off lim =>
            -- the SQL repository may order members of an equal-created_at group differently
            if s.impl != "mem" && !ctx then some (Mon.c11 s.model.tasks false q off lim out) else none
          | _ => none
        let d := ((relaxed.getD (compareOut op ctx out mout))).map (s!"DIFF {tag} " ++ ·) ++
          (if memOut == mout then [] else [s!"DIFF memspec Impl.Mem answers {showOut memOut} but Spec.Repo {showOut mout}"])
        let exact := s.impl == "mem"
        let mons :=
          (match op, ctx with
           | .next, false => (Mon.c02 s.dump exact out).map ("MON C02 " ++ ·)
           | .find q off lim, false => (Mon.c11 s.dump exact q off lim out).map ("MON C11 " ++ ·)
           | _, _ => []) ++
          (match out with
           | .task t => (Mon.c12Task t).map ("MON C12 " ++ ·) ++ scribbleLeak [t]
           | .tasks ts => (ts.flatMap Mon.c12Task).map ("MON C12 " ++ ·) ++ scribbleLeak ts
           | _ => [])
        ({ s with model := m', mem := mem', pending := some { op, ctx, out, now, inj }, ops := s.ops + 1,
                  errs := s.errs + (if out.isErr then 1 else 0),
                  nontrivial := s.nontrivial || out.isErr }, d ++ mons)

end Gk.DrvRepo
