/-
Glue for the generated SQL (ent) repository (Gk/Gen/Ent.lean): what the ent client, its statement builders and the
database do, as far as `repository/ent/repository.go` uses them — hand-written, ASSUMED (trusted base; tied to the real
ent + SQLite stack by the `ent` repository family and the statement-gated `entproto` family of the harness).

* the database is one `Gk.Repo` value (the `tasks` table; `id` is the primary key: `Repo.lookup`);
* `r.client.Task.UpdateOneID(id).Where(task.StateEQ(s)).SetX(v)….Exec(ctx)` is ONE statement
  `UPDATE tasks SET … WHERE id = ? AND state = ?`: atomic, changes the row when the guard holds, and answers ent's
  `NotFoundError` when no row matched (`EntUpd`, `GoEnt.execUpdate`);
* `r.client.Task.Get(ctx, id)` is one `SELECT` (`GoEnt.getRow`), `NotFoundError` for an unknown key;
* BETWEEN two statements of one call other clients run: the receiver carries `env`, what the rest of the world does to
  the table between this call's statements (`env n` is applied before the call's statement number `n`, n ≥ 1).
  `env := fun _ => id` is the sequential case. The clock is read per statement count as well (`clk`): `MarkAsDone`
  reads it again in every round of its loop.
* a cancelled `ctx` fails a statement before it reaches the database.
-/
import Gk.Gen.EntGen
import Gk.GenGlueMem
import Gk.Repo
namespace Gk

/-- ent's `*NotFoundError{label: "task"}` -/
def Go.ent_NotFound : GoError := some (.other "ent: task not found")
/-- `gen.IsNotFound(err)` -/
def Go.ent_IsNotFound (e : GoError) : Bool := e == Go.ent_NotFound

/-- the row object (`*gen.Task`) ent scans a row into -/
def toEntRow (t : Gk.Task) : Gen.EntGen.Task :=
  { ID := t.id, WorkID := t.workId, Priority := t.priority, State := t.state.name, Err := t.err,
    Param := t.param, Meta := t.meta_, ScheduledAt := t.scheduledAt, CreatedAt := t.createdAt,
    Deadline := t.deadline, CancelledAt := t.cancelledAt, DispatchedAt := t.dispatchedAt, DoneAt := t.doneAt }

/-- a `predicate.Task` as far as the repository builds them for its conditional UPDATEs: `state = ?` -/
structure EntPred where
  state : String

/-- `task.StateEQ(v)` (gen/task/where.go) -/
def Gen.EntTask.StateEQ (v : Gen.EntTask.State) : EntPred := ⟨v⟩

/-- `*gen.TaskUpdateOne`: the statement under construction. `none` = column not in the SET clause. -/
structure EntUpd where
  id : String := ""
  whereState : Option String := none
  workId : Option String := none
  param : Option SMap := none
  priority : Option Int := none
  scheduledAt : Option Time := none
  deadline : Option (Option Time) := none     -- `some none` = ClearDeadline
  meta_ : Option SMap := none
  state : Option String := none
  err : Option String := none
  cancelledAt : Option Time := none
  dispatchedAt : Option Time := none
  doneAt : Option Time := none
  deriving Inhabited

namespace EntUpd
def Where (b : EntUpd) (p : EntPred) : EntUpd := { b with whereState := some p.state }
def SetWorkID (b : EntUpd) (v : String) : EntUpd := { b with workId := some v }
def SetParam (b : EntUpd) (v : SMap) : EntUpd := { b with param := some v }
def SetPriority (b : EntUpd) (v : Int) : EntUpd := { b with priority := some v }
def SetScheduledAt (b : EntUpd) (v : Time) : EntUpd := { b with scheduledAt := some v }
def SetDeadline (b : EntUpd) (v : Time) : EntUpd := { b with deadline := some (some v) }
def ClearDeadline (b : EntUpd) : EntUpd := { b with deadline := some none }
def SetMeta (b : EntUpd) (v : SMap) : EntUpd := { b with meta_ := some v }
def SetState (b : EntUpd) (v : String) : EntUpd := { b with state := some v }
def SetErr (b : EntUpd) (v : String) : EntUpd := { b with err := some v }
def SetCancelledAt (b : EntUpd) (v : Time) : EntUpd := { b with cancelledAt := some v }
def SetDispatchedAt (b : EntUpd) (v : Time) : EntUpd := { b with dispatchedAt := some v }
def SetDoneAt (b : EntUpd) (v : Time) : EntUpd := { b with doneAt := some v }

/-- the WHERE clause beyond the primary key -/
def guardOk (b : EntUpd) (t : Gk.Task) : Bool :=
  match b.whereState with
  | none => true
  | some s => t.state.name == s

/-- the SET clause -/
def apply (b : EntUpd) (t : Gk.Task) : Gk.Task :=
  { t with
    workId := b.workId.getD t.workId
    param := b.param.getD t.param
    priority := b.priority.getD t.priority
    scheduledAt := b.scheduledAt.getD t.scheduledAt
    deadline := b.deadline.getD t.deadline
    meta_ := b.meta_.getD t.meta_
    state := match b.state with | some s => stOf s | none => t.state
    err := b.err.getD t.err
    cancelledAt := match b.cancelledAt with | some v => some v | none => t.cancelledAt
    dispatchedAt := match b.dispatchedAt with | some v => some v | none => t.dispatchedAt
    doneAt := match b.doneAt with | some v => some v | none => t.doneAt }
end EntUpd

/-- `*gen.TaskCreate`: the INSERT under construction. Columns not set take the schema default
(repository/ent/schema/task.go: `err` "", the three life-cycle timestamps NULL). -/
structure EntCreate where
  row : Gk.Task := Task.blank "" 0
  deriving Inhabited

namespace EntCreate
def SetID (b : EntCreate) (v : String) : EntCreate := { b with row := { b.row with id := v } }
def SetWorkID (b : EntCreate) (v : String) : EntCreate := { b with row := { b.row with workId := v } }
def SetPriority (b : EntCreate) (v : Int) : EntCreate := { b with row := { b.row with priority := v } }
def SetState (b : EntCreate) (v : String) : EntCreate := { b with row := { b.row with state := stOf v } }
def SetScheduledAt (b : EntCreate) (v : Time) : EntCreate := { b with row := { b.row with scheduledAt := v } }
def SetCreatedAt (b : EntCreate) (v : Time) : EntCreate := { b with row := { b.row with createdAt := v } }
def SetNillableDeadline (b : EntCreate) (v : Option Time) : EntCreate := { b with row := { b.row with deadline := v } }
def SetParam (b : EntCreate) (v : SMap) : EntCreate := { b with row := { b.row with param := v } }
def SetMeta (b : EntCreate) (v : SMap) : EntCreate := { b with row := { b.row with meta_ := v } }
end EntCreate

/-- `client.Task` -/
structure EntTaskClient where
  deriving Inhabited
def EntTaskClient.UpdateOneID (_c : EntTaskClient) (id : String) : EntUpd := { id := id }
def EntTaskClient.Create (_c : EntTaskClient) : EntCreate := {}

/-- `*gen.Client` -/
structure EntClient where
  Task : EntTaskClient := {}
  deriving Inhabited

/-- The receiver of the generated `EntRepository` methods. -/
structure GoEnt where
  db : Repo := {}
  clk : Nat → Time := fun _ => 0  -- what `r.clock.Now()` returns after that many statements of this call
  env : Nat → Repo → Repo := fun _ => id   -- what the other clients do before this call's statement number n ≥ 1
  nstmt : Nat := 0                -- statements this call has issued (ghost: decides whether `env` has run)
  nextId : String := ""           -- what `r.randStrGen()` returns
  client : EntClient := {}

instance : Inhabited GoEnt := ⟨{}⟩

namespace GoEnt

def now (r : GoEnt) : Time := r.clk r.nstmt
def clock (r : GoEnt) : Go.NowClock := ⟨r.now⟩
def randStrGen (r : GoEnt) : String := r.nextId

/-- the table as the next statement of this call finds it -/
def seen (r : GoEnt) : Repo := if r.nstmt = 0 then r.db else r.env r.nstmt r.db

/-- `builder.Exec(ctx)` of a `TaskUpdateOne` -/
def execUpdate (r : GoEnt) (b : EntUpd) (ctx : Ctx) : GoEnt × GoError :=
  match ctx with
  | some e => (r, some e)
  | none =>
    let db := r.seen
    match db.lookup b.id with
    | some t =>
      if b.guardOk t then ({ r with db := db.replace b.id b.apply, nstmt := r.nstmt + 1 }, none)
      else ({ r with db := db, nstmt := r.nstmt + 1 }, Go.ent_NotFound)
    | none => ({ r with db := db, nstmt := r.nstmt + 1 }, Go.ent_NotFound)

/-- `builder.Save(ctx)` of a `TaskCreate`: one INSERT; the primary key refuses a second row with the same id
(a constraint error), otherwise the row is appended and handed back. -/
def saveCreate (r : GoEnt) (b : EntCreate) (ctx : Ctx) : GoEnt × Gen.EntGen.Task × GoError :=
  match ctx with
  | some e => (r, default, some e)
  | none =>
    let db := r.seen
    match db.lookup b.row.id with
    | some _ => ({ r with db := db, nstmt := r.nstmt + 1 }, default, some (.other "ent: constraint failed"))
    | none => ({ r with db := { tasks := db.tasks ++ [b.row] }, nstmt := r.nstmt + 1 }, toEntRow b.row, none)

/-- `r.client.Task.Get(ctx, id)` -/
def getRow (r : GoEnt) (ctx : Ctx) (id : String) : GoEnt × Gen.EntGen.Task × GoError :=
  match ctx with
  | some e => (r, default, some e)
  | none =>
    let db := r.seen
    match db.lookup id with
    | some t => ({ r with db := db, nstmt := r.nstmt + 1 }, toEntRow t, none)
    | none => ({ r with db := db, nstmt := r.nstmt + 1 }, default, Go.ent_NotFound)

end GoEnt
end Gk
