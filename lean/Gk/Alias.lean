/-
M11 — reference model for the Clone discipline (C19).
Maps live in heap cells; a stored task refers to two cells (Param, Meta). Every API crossing either
clones (allocates fresh cells with the same contents) or passes the cell itself, as recorded in `Flags`.
The client may overwrite any cell it has ever passed in or received.

The flags of gokugen's crossings (hand-transcribed, validated only by the scribbling correspondence):
  in-memory AddTask: param.Normalize() clones in; t.Clone() stored; t.Clone() returned      (in ✓ out ✓)
  in-memory GetById / Find / GetNext / Save: Task.Clone()                                   (out ✓)
  in-memory UpdateById: param.Normalize() clones in                                         (in ✓)
  in-memory Load: pair.Value.Clone()                                                        (in ✓)
  ent: values are serialised into SQL and re-read (fresh maps), except the schema default
       map that AddTask used to hand out (D16, fixed)                                       (in ✓ out ✓)
  CronStore Peek: Clone (out ✓); Pop: the popped task leaves the store; Schedule(): pinned
       source returned the stored maps (D13: out ✗), repaired: Clone (out ✓)
  volatileTaskRepo GetNext: Clone (out ✓); GetById: pinned source returned the record (D17: out ✗), repaired ✓
-/
import Gk.Basic
namespace Gk.Alias

notation "Cell" => Nat

structure RTask where
  id : String
  pc : Cell    -- Param map
  mc : Cell    -- Meta map
  deriving Repr, DecidableEq, Inhabited

structure Sys where
  cells : Cell → SMap := fun _ => []
  next : Cell := 0                  -- allocation pointer: cells ≥ next are unused
  store : List RTask := []
  client : List Cell := []          -- every cell the client has ever held
  deriving Inhabited

structure Flags where
  cloneIn : Bool := true
  cloneOut : Bool := true
  deriving Repr, Inhabited

inductive AOp
  /-- the client builds two maps and calls AddTask with them -/
  | add (id : String) (p m : SMap)
  /-- GetById / Find / GetNext / Peek / Schedule: the store hands a task out -/
  | get (id : String)
  /-- UpdateById replacing Param with a map built by the client -/
  | update (id : String) (p : SMap)
  /-- the client overwrites a cell it holds -/
  | scribble (c : Cell) (v : SMap)
  deriving Repr, Inhabited

def alloc (s : Sys) (v : SMap) : Sys × Cell :=
  ({ s with cells := fun c => if c = s.next then v else s.cells c, next := s.next + 1 }, s.next)

/-- pass a cell across the boundary: clone it or hand over the cell itself -/
def cross (s : Sys) (clone : Bool) (c : Cell) : Sys × Cell :=
  if clone then alloc s (s.cells c) else (s, c)

def step (fl : Flags) (s : Sys) : AOp → Sys
  | .add id p m =>
    let (s, cp) := alloc s p
    let (s, cm) := alloc s m
    let s := { s with client := cp :: cm :: s.client }          -- the client keeps its argument maps
    let (s, sp) := cross s fl.cloneIn cp
    let (s, sm) := cross s fl.cloneIn cm
    let s := { s with store := s.store ++ [{ id, pc := sp, mc := sm }] }
    let (s, rp) := cross s fl.cloneOut sp                         -- the returned task
    let (s, rm) := cross s fl.cloneOut sm
    { s with client := rp :: rm :: s.client }
  | .get id =>
    match s.store.find? (·.id == id) with
    | none => s
    | some t =>
      let (s, rp) := cross s fl.cloneOut t.pc
      let (s, rm) := cross s fl.cloneOut t.mc
      { s with client := rp :: rm :: s.client }
  | .update id p =>
    let (s, cp) := alloc s p
    let s := { s with client := cp :: s.client }
    let (s, sp) := cross s fl.cloneIn cp
    { s with store := s.store.map fun t => if t.id == id then { t with pc := sp } else t }
  | .scribble c v =>
    if c ∈ s.client then { s with cells := fun x => if x = c then v else s.cells x } else s

def run (fl : Flags) (s : Sys) (ops : List AOp) : Sys := ops.foldl (step fl) s

/-- what the store holds, by value -/
def deref (s : Sys) : List (String × SMap × SMap) := s.store.map fun t => (t.id, s.cells t.pc, s.cells t.mc)

/-- the same operation on values only (no sharing is even expressible) -/
def vstep (v : List (String × SMap × SMap)) : AOp → List (String × SMap × SMap)
  | .add id p m => v ++ [(id, p, m)]
  | .get _ => v
  | .update id p => v.map fun t => if t.1 == id then (t.1, p, t.2.2) else t
  | .scribble .. => v

def vrun (v : List (String × SMap × SMap)) (ops : List AOp) := ops.foldl vstep v

end Gk.Alias
