/-
Runtime vocabulary of the Lean code that `gkh golean` generates from the Go sources (Gk/Gen/*.lean).
Every name here stands for a Go library operation whose behaviour is ASSUMED (trusted base, DESIGN §7/§14):
the `und/option` methods, `time.Time` comparison / truncation, `strings`, `maps`, `slices`.
Times are instants in nanoseconds since Go's zero time (zone erased), string maps are association lists
(nil = empty), a nil-able pointer is an `Option`, an `error` is `Option GoErr`.
-/
import Gk.Basic
import Gk.Query
namespace Gk

/-- Go `error` values as far as the translated code builds and inspects them. -/
inductive GoErr
  | repo (id kind : String)      -- *def.RepositoryError
  | sentinel (name : String)     -- errors.New at package level (ErrInvalidTask, …)
  | wrap (e : GoErr)             -- fmt.Errorf("%w …", e, …)
  | ctx                          -- ctx.Err() of a cancelled context
  | other (s : String)
  deriving DecidableEq, Repr, Inhabited

abbrev GoError := Option GoErr
/-- `context.Context` as far as the translated code looks at it: `ctx.Err()`. -/
abbrev Ctx := GoError
abbrev GoAny := Unit

namespace Go

/-- conversion `T(x)` between a named type and its underlying type -/
@[reducible] def conv (α : Type) (x : α) : α := x
def nil {α : Type} : Option α := none
/-- `x == nil`: a nil pointer / error / function value is `none`; a nil map or slice and an empty one are the
same value in the model (DESIGN §2), so `== nil` on them reads "is empty". -/
class IsNil (α : Type) where
  isNil : α → Bool
instance {α : Type} : IsNil (Option α) := ⟨Option.isNone⟩
instance {α : Type} : IsNil (List α) := ⟨List.isEmpty⟩
@[reducible] def isNil {α : Type} [IsNil α] (x : α) : Bool := IsNil.isNil x
/-- `&x` where a nil-able pointer is expected. -/
def addr {α : Type} (x : α) : Option α := some x

def repoErr (Id : String := "") (Kind : String := "") (Raw : GoError := none) : GoError :=
  some (.repo Id Kind)
def wrapErr (e : GoError) : GoError := e.map .wrap

def time_Millisecond : Int := msNs
def time_UTC : Unit := ()
def time_Zero : Time := 0

def strings_HasPrefix (s p : String) : Bool := p.toList.isPrefixOf s.toList
def strings_HasSuffix (s p : String) : Bool := p.toList.isSuffixOf s.toList
def strings_Contains (s p : String) : Bool := Gk.isInfixOf p.toList s.toList
def slices_Contains {α : Type} [BEq α] (xs : List α) (x : α) : Bool := xs.contains x
def slices_Clone {α : Type} (xs : List α) : List α := xs
/-- insertion step of the stable sort: before the first element that does not compare smaller -/
def insertByCmp {α : Type} (cmp : α → α → Int) (t : α) : List α → List α
  | [] => [t]
  | x :: xs => if cmp t x ≤ 0 then t :: x :: xs else x :: insertByCmp cmp t xs
/-- `slices.SortStableFunc(xs, cmp)`: the stable sort (equal elements keep their order) -/
def slices_SortStableFunc {α : Type} (xs : List α) (cmp : α → α → Int) : List α := xs.foldr (insertByCmp cmp) []
/-- one round of a `for { … }` loop: go round again with the carried variables, or `return v` -/
inductive Iter (σ ρ : Type) where
  | next (s : σ)
  | ret (v : ρ)
/-- `for { body }`, at most `fuel` rounds; `none` = the loop is still running after that many rounds.
(Nothing is assumed about termination: the tie theorems say what a call that has returned has done.) -/
def forever {σ ρ : Type} : Nat → σ → (σ → Iter σ ρ) → Option ρ
  | 0, _, _ => none
  | n + 1, s, f =>
    match f s with
    | .ret v => some v
    | .next s' => forever n s' f
def maps_Clone (m : SMap) : SMap := m
def maps_Equal (a b : SMap) : Bool := a == b
def emptyMap : SMap := []
def option_Some {α : Type} (x : α) : Option α := some x
def option_Equal {α : Type} [BEq α] (a b : Option α) : Bool := a == b
def len {α : Type} (xs : List α) : Int := xs.length

/-- `v, ok := m[k]` -/
def mapLookup (m : SMap) (k : String) : String × Bool :=
  match SMap.lookup m k with
  | some v => (v, true)
  | none => ("", false)
def mapIndex (m : SMap) (k : String) : String := (mapLookup m k).1

/-- Go maps with string keys and arbitrary values: association lists without duplicate keys -/
def mapLookupT {α : Type} [Inhabited α] (m : List (String × α)) (k : String) : α × Bool :=
  match m.find? (·.1 == k) with
  | some kv => (kv.2, true)
  | none => (default, false)
/-- `m[k] = v` -/
def mapSetT {α : Type} (m : List (String × α)) (k : String) (v : α) : List (String × α) :=
  m.filter (·.1 != k) ++ [(k, v)]
/-- `delete(m, k)` -/
def mapDeleteT {α : Type} (m : List (String × α)) (k : String) : List (String × α) := m.filter (·.1 != k)

/-- `for _, x := range xs { … return … }`: the first iteration that returns decides. -/
def rangeFirst {α β : Type} (xs : List α) (f : α → Option β) : Option β := xs.findSome? f

/-- `for _, x := range xs { … }` whose body only updates variables that live outside it: a left fold. -/
def rangeFold {α β : Type} (xs : List α) (init : β) (f : β → α → β) : β := xs.foldl f init

end Go
end Gk

/-! Methods, resolved by Lean's generalised field notation on the receiver's type. -/

namespace Option
def IsSome {α : Type} (o : Option α) : Bool := o.isSome
def IsNone {α : Type} (o : Option α) : Bool := o.isNone
/-- `Option[T].Value()` returns the zero value for None. -/
def Value {α : Type} [Inhabited α] (o : Option α) : α := o.getD default
def Or {α : Type} (o u : Option α) : Option α := o.or u
def Map {α : Type} (o : Option α) (f : α → α) : Option α := o.map f
def Pointer {α : Type} (o : Option α) : Option α := o
/-- `err.Error()` / `ctx.Err()` on the `Option GoErr` representation. -/
def Err (c : Gk.Ctx) : Gk.GoError := c
/-- `err.Error()` -/
def Error (e : Gk.GoError) : String :=
  match e with
  | some (.other s) => s
  | some (.sentinel s) => s
  | _ => ""
end Option

namespace Int
/-- `time.Time` methods on instants. -/
def Equal (a b : Int) : Bool := a == b
def Before (a b : Int) : Bool := decide (a < b)
def After (a b : Int) : Bool := decide (a > b)
def Compare (a b : Int) : Int := if a < b then -1 else if a > b then 1 else 0
def IsZero (a : Int) : Bool := a == 0
def Sub (a b : Int) : Int := a - b
def In (a : Int) (_ : Unit) : Int := a
/-- `t.Truncate(d)`: round down to a multiple of `d` since the zero time (`d > 0`). -/
def Truncate (a d : Int) : Int := a - a % d
end Int
