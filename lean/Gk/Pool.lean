/-
M7 (pool part) — the worker pool behind `WorkerPoolDispatcher` as counters with a rendezvous channel
(/repo/dispatcher/workerpool/workerpool.go `Dispatch`: blocking send on `workerPool.Sender()` raced
against `ctx.Done()`; github.com/ngicks/workerpool is third party and only abstracted here).
A worker removed while busy keeps running its task ("sleeping") and leaves when it finishes.
-/
namespace Gk

structure Pool where
  alive : Nat := 0       -- workers that accept work
  busy : Nat := 0        -- alive workers currently running a work function
  sleeping : Nat := 0    -- removed workers still finishing their work function
  waiting : Nat := 0     -- Dispatch calls blocked in the send
  accepted : Nat := 0    -- work items handed to a worker so far
  finished : Nat := 0    -- work items completed so far
  cancelled : Nat := 0   -- Dispatch calls that returned their context's error
  deriving Repr, DecidableEq, Inhabited

namespace Pool

def running (p : Pool) : Nat := p.busy + p.sleeping

/-- hand waiting dispatches to idle workers (the unbuffered-channel rendezvous) -/
def settle (p : Pool) : Pool :=
  let k := min p.waiting (p.alive - p.busy)
  { p with waiting := p.waiting - k, busy := p.busy + k, accepted := p.accepted + k }

inductive POp
  | dispatch             -- a goroutine calls Dispatch with a live context
  | finishAlive          -- a work function running on an alive worker returns
  | finishSleeping       -- a work function running on a removed worker returns
  | add (n : Nat)
  | remove (n : Nat)
  | cancelWaiting        -- the context of a blocked Dispatch is cancelled
  deriving Repr, DecidableEq, Inhabited

def step (p : Pool) : POp → Pool
  | .dispatch => settle { p with waiting := p.waiting + 1 }
  | .finishAlive => if p.busy = 0 then p else settle { p with busy := p.busy - 1, finished := p.finished + 1 }
  | .finishSleeping =>
    if p.sleeping = 0 then p else { p with sleeping := p.sleeping - 1, finished := p.finished + 1 }
  | .add n => settle { p with alive := p.alive + n }
  | .remove n =>
    -- idle workers are removed first, then busy ones (which become sleeping)
    let k := min n p.alive
    let idle := p.alive - p.busy
    let fromBusy := k - min k idle
    { p with alive := p.alive - k, busy := p.busy - fromBusy, sleeping := p.sleeping + fromBusy }
  | .cancelWaiting => if p.waiting = 0 then p else { p with waiting := p.waiting - 1, cancelled := p.cancelled + 1 }

def run (p : Pool) : List POp → Pool
  | [] => p
  | op :: rest => run (p.step op) rest

end Pool
end Gk
