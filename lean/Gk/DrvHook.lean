/-
Driver for the `hook` family (C07): the observable repository with its mutation-hook timer.
Request lines:  add|upd <fault> <id> <param6> | can|dis <fault> <id> | start <fault> | stop | adv <time> | fire <fault>
After every request the harness prints the implementation's observable state:
  st -> <now> <armed|-> <pending> <nextScheduled> <timerReset> <lastErr> <cachedId> <started> <headId|~> <headSched|-> <getNextFaulted>
-/
import Gk.Basic
import Gk.Repo
import Gk.Proto
import Gk.Hook
namespace Gk.DrvHook
open Gk Gk.Proto

structure S where
  model : Obs := {}
  lastOp : String := ""
  ops : Nat := 0
  rearms : Nat := 0
  nontrivial : Bool := false
  deriving Inhabited

def decFault (s : String) : Option Err := if s == "-" then none else decErr s

def showRes : Out → String
  | .ok => "ok"
  | .err e => "err " ++ encErr e
  | .task t => "ok " ++ t.id
  | .tasks _ => "ok"

def stepLine (s : S) (req resp : List String) : S × List String :=
  match req with
  | ["new", _, t0] =>
    ({ ops := s.ops, rearms := s.rearms, model := { clock := { now := (decTime t0).getD 0 } } }, [])
  | ["st"] =>
    match resp with
    | [now, armed, pending, ns, tr, le, cid, started, hid, hs, faulted] =>
      match decTime now, decOptTime armed, decTime ns, decStr cid, decStr hid, decOptTime hs with
      | some now, some armed, some ns, some cid, some hid, some hs =>
        let m := s.model
        let pending := pending == "1"; let tr := tr == "1"; let started := started == "1"
        let mle := match m.hook.lastErr with | none => "ok" | some e => encErr e
        let d :=
          (if m.clock.now == now then [] else [s!"DIFF hook now model={m.clock.now} impl={now}"]) ++
          (if m.clock.armed == armed then [] else [s!"DIFF hook armed model={encOptTime m.clock.armed} impl={encOptTime armed}"]) ++
          (if m.clock.pending == pending then [] else [s!"DIFF hook pending model={m.clock.pending} impl={pending}"]) ++
          (if m.nextScheduled == (ns, tr) then [] else [s!"DIFF hook NextScheduled model={m.nextScheduled} impl={(ns, tr)}"]) ++
          (if mle == le then [] else [s!"DIFF hook LastTimerUpdateError model={mle} impl={le}"]) ++
          (if ((m.hook.cached.map (·.id)).getD "") == cid then [] else [s!"DIFF hook cached id model={(m.hook.cached.map (·.id)).getD ""} impl={cid}"]) ++
          (if m.hook.started == started then [] else [s!"DIFF hook started model={m.hook.started} impl={started}"]) ++
          (if ((m.repo.getNext.map (·.id)).getD "") == hid then [] else [s!"DIFF hook head model={(m.repo.getNext.map (·.id)).getD ""} impl={hid}"])
        -- monitors on the implementation's own observables
        let isMutation := s.lastOp != "adv" && s.lastOp != "stop" && s.lastOp != ""
        let late :=
          if isMutation && started && le == "ok" then
            match hs with
            | none => []
            | some h =>
              if pending || (match armed with | some d => d ≤ h | none => false) then []
              else [s!"MON C07 after {s.lastOp}: next task {hid} is scheduled at {h} but the timer is " ++
                    (match armed with | some d => s!"armed for {d}" | none => "idle") ++ " and no fire is pending"]
          else []
        let silent := if !started && (armed.isSome || pending) then
          [s!"MON C07 timer is stopped but armed={encOptTime armed} pending={pending}"] else []
        let surf := if faulted == "1" && (le == "ok" || tr) then
          ["MON C07 GetNext failed while re-arming but LastTimerUpdateError=" ++ le ++ s!" timerReset={tr}"] else []
        ({ s with nontrivial := s.nontrivial || armed.isSome || pending }, d ++ late ++ silent ++ surf)
      | _, _, _, _, _, _ => (s, ["DIFF parse bad st line"])
    | _ => (s, ["DIFF parse bad st line"])
  | op :: rest =>
    let parsed : Option (Obs.OOp × Option Err) :=
      match op, rest with
      | "add", f :: id :: ps => do let (p, _) ← decParam ps; pure (.add (← decStr id) p, decFault f)
      | "upd", f :: id :: ps => do let (p, _) ← decParam ps; pure (.update (← decStr id) p, decFault f)
      | "can", [f, id] => do pure (.cancel (← decStr id), decFault f)
      | "dis", [f, id] => do pure (.dispatch (← decStr id), decFault f)
      | "start", [f] => some (.start, decFault f)
      | "stop", [] => some (.stop, none)
      | "adv", [t] => do pure (.advance (← decTime t), none)
      | "fire", [f] => some (.fire, decFault f)
      | _, _ => none
    match parsed with
    | none => (s, ["DIFF parse bad request " ++ " ".intercalate req])
    | some (oop, fault) =>
      let (m', out) := s.model.step oop fault
      let implRes := " ".intercalate (resp.take 2)
      let d := if showRes out == implRes then [] else [s!"DIFF hook result model={showRes out} impl={implRes}"]
      ({ s with model := m', lastOp := op, ops := s.ops + 1 }, d)
  | [] => (s, [])

end Gk.DrvHook
