/-
M5 — the query matcher. Transcribed from /repo/def/task_param.go (TaskQueryParam.Normalize, Match,
MapMatcher, TimeMatcher and their `Get()` fall-backs).
Strings are compared as code-point lists; for valid UTF-8 this coincides with Go's byte-wise
HasPrefix / HasSuffix / Contains.
-/
import Gk.Basic
namespace Gk

inductive MapMatchType
  | hasKey | exact | forward | backward | middle
  | other   -- any unknown string (incl. ""): `Get()` falls back to Exact
  deriving DecidableEq, Repr, Inhabited

def MapMatchType.get : MapMatchType → MapMatchType
  | .other => .exact
  | t => t

structure MapMatcher where
  key : String
  value : String
  matchType : MapMatchType
  deriving DecidableEq, Repr, Inhabited

/-- `strings.Contains` on code-point lists. -/
def isInfixOf (needle : List Char) : List Char → Bool
  | [] => needle.isEmpty
  | c :: cs => needle.isPrefixOf (c :: cs) || isInfixOf needle cs

def SMap.lookup (m : SMap) (k : String) : Option String :=
  (m.find? (fun kv => kv.1 == k)).map (·.2)

/-- `MapMatcher.Match`. -/
def MapMatcher.matches (m : MapMatcher) (mm : SMap) : Bool :=
  match m.matchType.get with
  | .hasKey => (SMap.lookup mm m.key).isSome
  | .exact =>
    match SMap.lookup mm m.key with
    | none => false
    | some v => v == m.value
  | .forward =>
    match SMap.lookup mm m.key with
    | none => false
    | some v => m.value.toList.isPrefixOf v.toList
  | .backward =>
    match SMap.lookup mm m.key with
    | none => false
    | some v => m.value.toList.isSuffixOf v.toList
  | .middle =>
    match SMap.lookup mm m.key with
    | none => false
    | some v => isInfixOf m.value.toList v.toList
  | .other => false -- unreachable: `get` never returns `other`

inductive TimeMatchType
  | nonNull | equal | before | beforeEqual | after | afterEqual
  | other   -- unknown: `Get()` falls back to Equal
  deriving DecidableEq, Repr, Inhabited

def TimeMatchType.get : TimeMatchType → TimeMatchType
  | .other => .equal
  | t => t

structure TimeMatcher where
  matchType : TimeMatchType
  value : Time
  deriving DecidableEq, Repr, Inhabited

/-- `TimeMatcher.Match` on a possibly-nil pointer. -/
def TimeMatcher.matches (m : TimeMatcher) (v : Option Time) : Bool :=
  match m.matchType.get with
  | .nonNull => v.isSome
  | .equal => match v with | none => false | some v => m.value == v
  | .before => match v with | none => false | some v => m.value > v
  | .beforeEqual => match v with | none => false | some v => m.value ≥ v
  | .after => match v with | none => false | some v => m.value < v
  | .afterEqual => match v with | none => false | some v => m.value ≤ v
  | .other => true -- unreachable

structure Query where
  id : Option String := none
  workId : Option String := none
  priority : Option Int := none
  state : Option String := none      -- `def.State` is a string type: any string may be asked for
  err : Option String := none
  param : Option (List MapMatcher) := none
  meta_ : Option (List MapMatcher) := none
  scheduledAt : Option TimeMatcher := none
  createdAt : Option TimeMatcher := none
  deadline : Option (Option TimeMatcher) := none
  cancelledAt : Option (Option TimeMatcher) := none
  dispatchedAt : Option (Option TimeMatcher) := none
  doneAt : Option (Option TimeMatcher) := none
  deriving Repr, Inhabited

def St.name : St → String
  | .scheduled => "scheduled" | .dispatched => "dispatched" | .cancelled => "cancelled"
  | .done => "done" | .err => "err"

def TimeMatcher.normalize (m : TimeMatcher) : TimeMatcher := { m with value := Gk.normalize m.value }

/-- `TaskQueryParam.Normalize`. `normDeadline` distinguishes the code before / after the D6 fix:
the pinned source does not normalise the `Deadline` operand. -/
def Query.normalize (normDeadline : Bool) (q : Query) : Query :=
  { q with
    scheduledAt := q.scheduledAt.map TimeMatcher.normalize
    createdAt := q.createdAt.map TimeMatcher.normalize
    deadline := if normDeadline then q.deadline.map (·.map TimeMatcher.normalize) else q.deadline
    cancelledAt := q.cancelledAt.map (·.map TimeMatcher.normalize)
    dispatchedAt := q.dispatchedAt.map (·.map TimeMatcher.normalize)
    doneAt := q.doneAt.map (·.map TimeMatcher.normalize) }

def matchEq {α} [BEq α] (v : α) : Option α → Bool
  | none => true
  | some m => v == m

def matchMap (v : SMap) : Option (List MapMatcher) → Bool
  | none => true
  | some ms => ms.all (·.matches v)

def matchTime (v : Time) : Option TimeMatcher → Bool
  | none => true
  | some m => m.matches (some v)

def matchOptTime (v : Option Time) : Option (Option TimeMatcher) → Bool
  | none => true
  | some none => v.isNone
  | some (some m) => m.matches v

/-- `TaskQueryParam.Match`. -/
def Query.matches (q : Query) (t : Task) : Bool :=
  matchEq t.id q.id && matchEq t.workId q.workId && matchEq t.priority q.priority &&
  matchEq t.state.name q.state && matchEq t.err q.err &&
  matchMap t.param q.param && matchMap t.meta_ q.meta_ &&
  matchTime t.scheduledAt q.scheduledAt && matchTime t.createdAt q.createdAt &&
  matchOptTime t.deadline q.deadline && matchOptTime t.cancelledAt q.cancelledAt &&
  matchOptTime t.dispatchedAt q.dispatchedAt && matchOptTime t.doneAt q.doneAt

/-- Insert `t` into a list sorted by creation time, before the first element that is not older. -/
def insCreated (t : Task) : List Task → List Task
  | [] => [t]
  | x :: xs => if t.createdAt ≤ x.createdAt then t :: x :: xs else x :: insCreated t xs

/-- "oldest-created first": the stable sort by `created_at` (insertion order breaks ties) that `Find`
lists its matches in — `ORDER BY created_at` in the SQL repository, `slices.SortStableFunc` over the
insertion-ordered map in the in-memory one. Under a clock that never steps back it is the identity. -/
def byCreated : List Task → List Task
  | [] => []
  | t :: ts => insCreated t (byCreated ts)

/-- The `Find` loop of the in-memory repository with its `offset--` / `limit--` counters
(/repo/repository/inmemory/repository.go, `Find`), over the matching tasks oldest-created first. -/
def findLoop (pred : Task → Bool) : List Task → Int → Int → List Task
  | [], _, _ => []
  | t :: ts, offset, limit =>
    if pred t then
      if offset != 0 then findLoop pred ts (offset - 1) limit
      else if limit == 0 then []
      else t :: findLoop pred ts offset (if limit > 0 then limit - 1 else limit)
    else findLoop pred ts offset limit

end Gk
