import Gk.Basic
import Gk.Query
import Gk.Repo
import Gk.Proto
import Gk.Mon
import Gk.DrvRepo
import Gk.Hook
import Gk.DrvHook
